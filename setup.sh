#!/bin/sh
# Build the framework from files on disk only (offline).
set -e
cd "$(dirname "$0")"
export CARGO_NET_OFFLINE=true
(cd harness && cargo build --offline --bins)
./harness/target/debug/verif_extract
(cd lean && lake build RasnModel driver)

/-
  C19 — model of the rasn backend's option handling as a transformation of the DEFAULT configuration's
  output: `decorate cfg (output under Config::default())` is what the code produces under `cfg`.
  Mirrors generator/rasn/mod.rs `Backend::new` (derive merge, `parse_rust_derive_annotation`),
  `generate_module` (use lines), utils.rs `required_annotations`, builder.rs `generate_choice`
  (From impls), template.rs `lazy_static_value_template`.
  Import-free (the driver links it).
-/
namespace Cfg

structure Config where
  opaqueOpen : Bool := true
  wildcard : Bool := false
  fromImpls : Bool := false
  noStd : Bool := false
  customImports : List String := []
  annotations : List String := ["#[derive(AsnType, Debug, Clone, Decode, Encode, PartialEq, Eq, Hash)]"]
  deriving Repr

def requiredDerives : List String := ["AsnType", "Debug", "Clone", "Decode", "Encode", "PartialEq"]

/-! ### `parse_rust_derive_annotation` (nom) -/

def isWs (c : Char) : Bool := c == ' ' || c == '\t' || c == '\n' || c == '\r'

def skipWs : List Char → List Char
  | c :: cs => if isWs c then skipWs cs else c :: cs
  | [] => []

def expectChar (c : Char) : List Char → Option (List Char)
  | d :: cs => if d == c then some cs else none
  | [] => none

def expectStr : List Char → List Char → Option (List Char)
  | [], cs => some cs
  | p :: ps, c :: cs => if p == c then expectStr ps cs else none
  | _ :: _, [] => none

def takeAlnum : List Char → List Char × List Char
  | c :: cs => if c.isAlphanum then let r := takeAlnum cs; (c :: r.1, r.2) else ([], c :: cs)
  | [] => ([], [])

/-- `many0((multispace0, char(','), multispace0))`: returns the rest after as many comma groups as match -/
def skipCommas : Nat → List Char → List Char
  | 0, cs => cs
  | fuel + 1, cs =>
    match expectChar ',' (skipWs cs) with
    | some r => skipCommas fuel (skipWs r)
    | none => cs

/-- `separated_list1(many0(comma group), alphanumeric1)` after the first element -/
def moreIdents : Nat → List Char → List String × List Char
  | 0, cs => ([], cs)
  | fuel + 1, cs =>
    let afterSep := skipCommas cs.length cs
    let (w, r) := takeAlnum afterSep
    if w.isEmpty then ([], cs) else
      let (ws, r') := moreIdents fuel r
      (String.ofList w :: ws, r')

/-- `Ok((_, derives))` of `parse_rust_derive_annotation`, or `none` -/
def parseDerive (s : List Char) : Option (List String) := do
  let s ← expectChar '#' (skipWs s)
  let s ← expectChar '[' (skipWs s)
  let s ← expectStr "derive".toList (skipWs s)
  let s ← expectChar '(' (skipWs s)
  let s := skipWs s
  let (w, r) := takeAlnum s
  if w.isEmpty then none else
  let (ws, r) := moreIdents r.length r
  let r ← expectChar ')' (skipWs r)
  let _ ← expectChar ']' (skipWs r)
  pure (String.ofList w :: ws)

/-! ### `Backend::new`: merge of the required derives with the user's annotations -/

def addDerives (acc : List String) : List String → List String
  | [] => acc
  | d :: ds => if acc.contains d then addDerives acc ds else addDerives (acc ++ [d]) ds

/-- (merged derives, non-derive annotations) -/
def mergeAnnotations (annots : List String) : List String × List String :=
  annots.foldl (fun (acc : List String × List String) a =>
    match parseDerive a.toList with
    | some ds => (addDerives acc.1 ds, acc.2)
    | none => (acc.1, acc.2 ++ [a])) (requiredDerives, [])

def squeeze (s : String) : String := String.ofList (s.toList.filter fun c => !isWs c)

/-! ### the output, as far as options can touch it -/

inductive Item where
  /-- a struct / enum: derives, other (user) attributes, everything else canonicalised;
      `alts` = (variant, payload type) when it is a CHOICE enum -/
  | ty (name : String) (derives : List String) (others : List String) (rest : String) (choice : Bool) (alts : List (String × String))
  | fromImpl (enumName variant payload : String)
  /-- a lazily initialised static, in either flavour -/
  | lazy (name ty init : String) (noStd : Bool)
  | other (text : String)
  deriving Repr, DecidableEq

structure Module where
  name : String
  uses : List String     -- squeezed paths, in order
  items : List Item
  deriving Repr, DecidableEq

def lazyUse (noStd : Bool) : String := if noStd then "lazy_static::lazy_static" else "std::sync::LazyLock"

def isImportUse (u : String) : Bool := u.startsWith "super::"

def wildcardOf (u : String) : String :=
  match u.splitOn "::{" with
  | pre :: _ :: _ => pre ++ "::{*}"
  | _ => u

/-- payload types occurring exactly once get a From impl (builder.rs `generate_choice`) -/
def fromImplsOf (enumName : String) (alts : List (String × String)) : List Item :=
  (alts.filter fun a => alts.countP (fun b => b.2 == a.2) == 1).map fun a => Item.fromImpl enumName a.1 a.2

def decorateItem (c : Config) (merged : List String × List String) : Item → List Item
  | .ty n ds _ rest choice alts =>
    let ds' := if ds.contains "Copy" && !merged.1.contains "Copy" then merged.1 ++ ["Copy"] else merged.1
    .ty n ds' (merged.2.map squeeze) rest choice alts :: (if c.fromImpls && choice then fromImplsOf n alts else [])
  | .lazy n t i _ => [.lazy n t i c.noStd]
  | i => [i]

def decorateUses (c : Config) (uses : List String) : List String :=
  let builtin := uses.filter fun u => !isImportUse u
  let imports := uses.filter isImportUse
  builtin.map (fun u => if u == lazyUse false then lazyUse c.noStd else u)
    ++ c.customImports.map squeeze
    ++ imports.map (fun u => if c.wildcard then wildcardOf u else u)

/-- what the code produces under `c`, given what it produces under `Config::default()` -/
def decorate (c : Config) (m : Module) : Module :=
  { name := m.name, uses := decorateUses c m.uses, items := m.items.flatMap (decorateItem c (mergeAnnotations c.annotations)) }

/-! ### what must be identical across configurations -/

/-- type definitions, tags, constraints, values: everything except derives / user attributes / flavour / From impls -/
def stripItem : Item → Option Item
  | .ty n _ _ rest choice alts => some (.ty n [] [] rest choice alts)
  | .fromImpl _ _ _ => none
  | .lazy n t i _ => some (.lazy n t i false)
  | .other t => some (.other t)

def strip (m : Module) : List Item := m.items.filterMap stripItem

/-- the sibling modules imported from -/
def importedModules (m : Module) : List String :=
  (m.uses.filter isImportUse).map fun u => (u.splitOn "::{").headD u

end Cfg

import RasnModel.Proofs.Enumerated
/-
  C14 — ENUMERATED items get the numbers X.680 §20 assigns.
  Property theorems only. Model: Lexer/Enumerated.lean (mirrors `assign_enumeration_numbers`);
  Spec: Spec/Enumerated.lean (a checker written from X.680 §20.5/20.6).
-/
namespace Props.C14
open Lexer.Enum Spec.Enum Proofs.Enum

theorem rootInv_init (E : List Int) : RootInv E [] 0 :=
  ⟨Int.le_refl 0, fun p hp => by simp at hp, fun m h0 h1 => by omega⟩

/-- The compiler's numbering is accepted by the X.680 checker — for every root and addition list,
    any mixture of NamedNumbers and identifiers, any lengths. -/
theorem C14_numbers (root adds : List (Option Int)) :
    check root adds (number root adds).1 (number root adds).2 = true := by
  simp only [check, number, numberRoot, numberAdds, Bool.and_eq_true, explicitInRoot, explicitOf]
  exact ⟨checkRoot_model _ root [] 0 (rootInv_init _), checkAdds_model _ adds none [] rfl⟩

/-- Exactness: the checker accepts exactly one numbering, so "the numbers X.680 assigns" is
    well defined and equal to the compiler's. -/
theorem C14_exact (root adds : List (Option Int)) (rs as : List Int)
    (h : check root adds rs as = true) : (rs, as) = number root adds := by
  simp only [check, Bool.and_eq_true] at h
  have h1 := checkRoot_unique _ root [] 0 rs (rootInv_init _) h.1
  have h2 := checkAdds_unique rs adds none [] as rfl h.2
  simp only [number, numberRoot, numberAdds, explicitInRoot]
  rw [h2, h1]; rfl

theorem numberRootAux_length (E : List Int) : ∀ (root : List (Option Int)) (next : Int),
    (numberRootAux E next root).length = root.length := by
  intro root
  induction root with
  | nil => intro _; rfl
  | cons it rest ih => intro next; cases it <;> simp [numberRootAux, ih]

theorem numberAddsAux_length (R : List Int) : ∀ (adds : List (Option Int)) (prev : Option Int),
    (numberAddsAux R prev adds).length = adds.length := by
  intro adds
  induction adds with
  | nil => intro _; rfl
  | cons it rest ih => intro prev; cases it <;> simp [numberAddsAux, ih]

/-- one number per item, in order (names travel with their position) -/
theorem C14_names_order (root adds : List (Option Int)) :
    (number root adds).1.length = root.length ∧ (number root adds).2.length = adds.length :=
  ⟨numberRootAux_length _ _ _, numberAddsAux_length _ _ _⟩

theorem numberRootAux_explicit (E : List Int) : ∀ (root : List (Option Int)) (next : Int) (i : Nat) (n : Int),
    root[i]? = some (some n) → (numberRootAux E next root)[i]? = some n := by
  intro root
  induction root with
  | nil => intro _ i n h; simp at h
  | cons it rest ih =>
    intro next i n h
    cases i with
    | zero => simp at h; subst h; simp [numberRootAux]
    | succ i =>
      simp only [List.getElem?_cons_succ] at h
      cases it <;> simp only [numberRootAux, List.getElem?_cons_succ] <;> exact ih _ i n h

theorem numberAddsAux_explicit (R : List Int) : ∀ (adds : List (Option Int)) (prev : Option Int) (i : Nat) (n : Int),
    adds[i]? = some (some n) → (numberAddsAux R prev adds)[i]? = some n := by
  intro adds
  induction adds with
  | nil => intro _ i n h; simp at h
  | cons it rest ih =>
    intro prev i n h
    cases i with
    | zero => simp at h; subst h; simp [numberAddsAux]
    | succ i =>
      simp only [List.getElem?_cons_succ] at h
      cases it <;> simp only [numberAddsAux, List.getElem?_cons_succ] <;> exact ih _ i n h

/-- explicit numbers (also negative ones) are kept, in root and additions -/
theorem C14_explicit_kept (root adds : List (Option Int)) (i : Nat) (n : Int) :
    (root[i]? = some (some n) → (number root adds).1[i]? = some n) ∧
    (adds[i]? = some (some n) → (number root adds).2[i]? = some n) :=
  ⟨numberRootAux_explicit _ _ _ i n, numberAddsAux_explicit _ _ _ i n⟩

/-- members of a root numbering: explicit numbers of the list, or fresh numbers above `prev` and outside `E` -/
theorem checkRoot_mem (E : List Int) : ∀ (root : List (Option Int)) (prev vs : List Int),
    checkRoot E prev root vs = true → ∀ w ∈ vs, w ∈ explicitOf root ∨ (w ∉ E ∧ ∀ p ∈ prev, p < w) := by
  intro root
  induction root with
  | nil => intro prev vs h w hw; cases vs <;> simp_all [checkRoot]
  | cons it rest ih =>
    intro prev vs h w hw
    cases vs with
    | nil => cases it <;> simp [checkRoot] at h
    | cons v vs =>
      cases it with
      | some n =>
        simp only [checkRoot, Bool.and_eq_true, beq_iff_eq] at h
        rcases List.mem_cons.mp hw with e | e
        · left; simp [explicitOf, e, h.1]
        · rcases ih prev vs h.2 w e with x | x
          · left; simp only [explicitOf, List.filterMap_cons, id]; exact List.mem_cons_of_mem _ x
          · exact Or.inr x
      | none =>
        simp only [checkRoot, Bool.and_eq_true, decide_eq_true_eq, Bool.not_eq_true', List.all_eq_true] at h
        obtain ⟨⟨⟨⟨_, hE⟩, hprev⟩, _⟩, hrest⟩ := h
        rcases List.mem_cons.mp hw with e | e
        · right; subst e; exact ⟨by simpa using hE, hprev⟩
        · rcases ih _ vs hrest w e with x | x
          · left; simpa [explicitOf] using x
          · right; exact ⟨x.1, fun p hp => x.2 p (List.mem_cons_of_mem _ hp)⟩

theorem checkRoot_nodup (E : List Int) : ∀ (root : List (Option Int)) (prev vs : List Int),
    checkRoot E prev root vs = true → (∀ n ∈ explicitOf root, n ∈ E) → (explicitOf root).Nodup → vs.Nodup := by
  intro root
  induction root with
  | nil => intro prev vs h _ _; cases vs <;> simp_all [checkRoot]
  | cons it rest ih =>
    intro prev vs h hsub hnd
    cases vs with
    | nil => exact List.nodup_nil
    | cons v vs =>
      cases it with
      | some n =>
        simp only [checkRoot, Bool.and_eq_true, beq_iff_eq] at h
        simp only [explicitOf, List.filterMap_cons, id, List.nodup_cons] at hnd hsub
        have hsub' : ∀ m ∈ explicitOf rest, m ∈ E := fun m hm => hsub m (List.mem_cons_of_mem _ hm)
        refine List.nodup_cons.mpr ⟨?_, ih prev vs h.2 hsub' hnd.2⟩
        intro hv
        rcases checkRoot_mem E rest prev vs h.2 v hv with x | x
        · rw [h.1] at x; exact hnd.1 x
        · rw [h.1] at x; exact x.1 (hsub n List.mem_cons_self)
      | none =>
        simp only [checkRoot, Bool.and_eq_true, decide_eq_true_eq, Bool.not_eq_true', List.all_eq_true] at h
        obtain ⟨⟨⟨⟨_, hE⟩, _⟩, _⟩, hrest⟩ := h
        have hsub' : ∀ m ∈ explicitOf rest, m ∈ E := by simpa [explicitOf] using hsub
        have hnd' : (explicitOf rest).Nodup := by simpa [explicitOf] using hnd
        refine List.nodup_cons.mpr ⟨?_, ih _ vs hrest hsub' hnd'⟩
        intro hv
        rcases checkRoot_mem E rest _ vs hrest v hv with x | x
        · exact (by simpa using hE : v ∉ E) (hsub' v x)
        · have := x.2 v List.mem_cons_self; omega

/-- additions accepted by the checker in a valid source are strictly above all preceding ones and outside the root -/
theorem checkAdds_sep (R : List Int) : ∀ (adds : List (Option Int)) (prev vs : List Int),
    checkAdds R prev adds vs = true → validAddsAux R prev adds vs = true →
    vs.Nodup ∧ ∀ w ∈ vs, w ∉ R ∧ ∀ p ∈ prev, p < w := by
  intro adds
  induction adds with
  | nil => intro prev vs h _; cases vs <;> simp_all [checkAdds]
  | cons it rest ih =>
    intro prev vs h hv
    cases vs with
    | nil => cases it <;> simp [checkAdds] at h
    | cons v vs =>
      cases it with
      | some n =>
        simp only [checkAdds, Bool.and_eq_true, beq_iff_eq] at h
        simp only [validAddsAux, Bool.and_eq_true, Bool.not_eq_true', List.all_eq_true, decide_eq_true_eq] at hv
        obtain ⟨⟨hR, hp⟩, hvr⟩ := hv
        have := ih (v :: prev) vs h.2 hvr
        refine ⟨List.nodup_cons.mpr ⟨?_, this.1⟩, ?_⟩
        · intro hm; have := (this.2 v hm).2 v List.mem_cons_self; omega
        · intro w hw
          rcases List.mem_cons.mp hw with e | e
          · subst e; rw [h.1]; exact ⟨by simpa using hR, hp⟩
          · exact ⟨(this.2 w e).1, fun p hp' => (this.2 w e).2 p (List.mem_cons_of_mem _ hp')⟩
      | none =>
        simp only [checkAdds, Bool.and_eq_true, decide_eq_true_eq, Bool.not_eq_true', List.all_eq_true] at h
        simp only [validAddsAux] at hv
        obtain ⟨⟨⟨⟨_, hR⟩, hp⟩, _⟩, hrest⟩ := h
        have := ih (v :: prev) vs hrest hv
        refine ⟨List.nodup_cons.mpr ⟨?_, this.1⟩, ?_⟩
        · intro hm; have := (this.2 v hm).2 v List.mem_cons_self; omega
        · intro w hw
          rcases List.mem_cons.mp hw with e | e
          · subst e; exact ⟨by simpa using hR, hp⟩
          · exact ⟨(this.2 w e).1, fun p hp' => (this.2 w e).2 p (List.mem_cons_of_mem _ hp')⟩

/-- In a valid ENUMERATED (X.680 20.3/20.4: explicit root numbers distinct; explicit additions not in
    the root and above all preceding additions) all assigned numbers are distinct. -/
theorem C14_distinct (root adds : List (Option Int))
    (hroot : (explicitOf root).Nodup)
    (hadds : validAddsAux (number root adds).1 [] adds (number root adds).2 = true) :
    ((number root adds).1 ++ (number root adds).2).Nodup := by
  have hc := C14_numbers root adds
  simp only [check, Bool.and_eq_true] at hc
  have h1 := checkRoot_nodup _ root [] _ hc.1 (fun n hn => hn) hroot
  have h2 := checkAdds_sep _ adds [] _ hc.2 hadds
  refine List.nodup_append.mpr ⟨h1, h2.1, ?_⟩
  intro a ha b hb e
  subst e
  exact (h2.2 a hb).1 ha

/-- non-vacuity and the X.680 §20 examples: {a, z(25), ..., d} ↦ 0,25 | 1 ; {a, b(0), c} ↦ 1,0,2 ;
    {a, b, ..., c(3), d} ↦ 0,1 | 3,4 -/
example : number [none, some 25] [none] = ([0, 25], [1]) := by decide
example : number [none, some 0, none] [] = ([1, 0, 2], []) := by decide
example : number [none, none] [some 3, none] = ([0, 1], [3, 4]) := by decide
example : (explicitOf [none, some 25]).Nodup ∧
    validAddsAux (number [none, some 25] [none]).1 [] [none] (number [none, some 25] [none]).2 = true := by decide

end Props.C14

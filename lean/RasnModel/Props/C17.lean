import RasnModel.Lexer.Input
import RasnModel.Lexer.Context
import RasnModel.Lexer.Report
import RasnModel.Proofs.Context
/-
  C17 — syntax errors are reported at the malformed definition, consistently.
  Proved here: the refinement of the position bookkeeping to the abstract map offset ↦ line,
  for every source and every sequence of (nested) slices and context resets — every `Input` a
  parser error can carry is reached by such a sequence, so every reported (line, offset) pair is
  consistent and lies inside the input. Which `Input` is reported (first alternative, innermost
  base) and that it lies in the first malformed assignment depends on the whole nom grammar and is
  decided by the oracle on the implementation's ReportData (PARTIAL).
-/
namespace Props.C17
open Lexer.Input

/-- the invariant: the remainder lies inside the source, the line is one plus the number of line
    breaks before the offset, and the context start is an earlier position with the same relation -/
structure Inv (src : Bytes) (s : St) : Prop where
  inside : s.off + s.len ≤ src.length
  line : s.line = 1 + countNL (src.take s.off)
  ctxBefore : s.ctxOff ≤ s.off
  ctxLine : s.ctxLine = 1 + countNL (src.take s.ctxOff)

theorem countNL_append (a b : Bytes) : countNL (a ++ b) = countNL a + countNL b := by
  simp [countNL, List.count_append]

theorem take_add (src : Bytes) (m n : Nat) : src.take (m + n) = src.take m ++ (src.drop m).take n := by
  rw [List.take_add]

theorem init_inv (src : Bytes) : Inv src (init src) :=
  ⟨by simp [init], by simp [init, countNL], by simp [init], by simp [init, countNL]⟩

theorem step_inv (src : Bytes) (s : St) (op : Op) (h : Inv src s) (hok : op.ok s) : Inv src (step src s op) := by
  cases op with
  | reset => exact ⟨h.inside, h.line, Nat.le_refl _, h.line⟩
  | slice a b =>
    simp only [Op.ok] at hok
    simp only [step, slice]
    by_cases ha : a = 0
    · subst ha
      simp only [if_true, Nat.sub_zero]
      exact ⟨by have := h.inside; simp only; omega, h.line, h.ctxBefore, h.ctxLine⟩
    · simp only [ha, if_false]
      refine ⟨?_, ?_, ?_, h.ctxLine⟩
      · have := h.inside; simp only; omega
      · simp only
        rw [take_add, countNL_append, h.line]; omega
      · have := h.ctxBefore; simp only; omega

/-- C17_line_invariant: after ANY sequence of in-range slices and context resets on ANY source, the
    tracked offset is inside the input and the tracked line is 1 + (line breaks before the offset). -/
theorem C17_line_invariant (src : Bytes) : ∀ (ops : List Op) (s : St), Inv src s →
    (∀ (pre : List Op) (op : Op) (post : List Op), ops = pre ++ op :: post → op.ok (pre.foldl (step src) s)) →
    Inv src (ops.foldl (step src) s) := by
  intro ops
  induction ops with
  | nil => intro s h _; exact h
  | cons op rest ih =>
    intro s h hok
    simp only [List.foldl_cons]
    apply ih
    · exact step_inv src s op h (hok [] op rest rfl)
    · intro pre op' post e
      have := hok (op :: pre) op' post (by rw [e]; rfl)
      simpa using this

/-- corollary for the reported position: offset ≤ |src| and line = 1 + #LF before it -/
theorem C17_reported_position_consistent (src : Bytes) (ops : List Op)
    (hok : ∀ (pre : List Op) (op : Op) (post : List Op), ops = pre ++ op :: post → op.ok (pre.foldl (step src) (init src))) :
    let r := ops.foldl (step src) (init src)
    r.off ≤ src.length ∧ r.line = 1 + countNL (src.take r.off) ∧ r.ctxOff ≤ r.off := by
  have := C17_line_invariant src ops (init src) (init_inv src) hok
  exact ⟨by have := this.inside; omega, this.line, this.ctxBefore⟩

/-- non-vacuity: "ab\ncd\nef", slice(4..), reset, slice(1..3) -/
example : let src : Bytes := [97, 98, 10, 99, 100, 10, 101, 102]
    ([Op.slice 4 none, .reset, .slice 1 (some 3)].foldl (step src) (init src)) = ⟨5, 2, 4, 2, 2, 4⟩ := by
  decide

/-! ### which input is reported (model `Lexer/Report`) -/
open Lexer.Report in
/-- C17_report_is_a_carried_input: whatever the shape of the parser's error tree (stacks and alternatives
    nested to any depth), the report is the position of ONE of the inputs the tree carries — all its
    fields come from the same input. -/
theorem C17_report_is_a_carried_input (P : St → Prop) : ∀ t : Lexer.Report.Tree, Lexer.Report.All P t → P (Lexer.Report.report t)
  | .base _, h => by simpa [Lexer.Report.All, Lexer.Report.report] using h
  | .stack b, h => by
    simp only [Lexer.Report.All] at h
    simpa [Lexer.Report.report] using C17_report_is_a_carried_input P b h
  | .alt first _, h => by
    simp only [Lexer.Report.All] at h
    simpa [Lexer.Report.report] using C17_report_is_a_carried_input P first h.1

open Lexer.Report in
/-- C17_report_consistent: every input a parser can put into an error tree is reached from the initial
    input by in-range slices and context resets (`C17_line_invariant`), so for ANY error tree over such
    inputs the reported offset lies inside the source, the reported line is one plus the number of
    line feeds before the reported offset, and the context start is not behind the offset. -/
theorem C17_report_consistent (src : Bytes) (t : Lexer.Report.Tree) (h : Lexer.Report.All (Inv src) t) :
    let r := Lexer.Report.report t
    r.off ≤ src.length ∧ r.line = 1 + countNL (src.take r.off) ∧ r.ctxOff ≤ r.off ∧ r.ctxLine = 1 + countNL (src.take r.ctxOff) := by
  have hi := C17_report_is_a_carried_input (Inv src) t h
  exact ⟨by have := hi.inside; omega, hi.line, hi.ctxBefore, hi.ctxLine⟩

/-- a report that takes its offset from one alternative and its line from another (what an `Alt` arm that
    merges two alternatives field by field produces) is not consistent: witness "a\nb", inputs at offset 0
    (line 1) and offset 2 (line 2). -/
theorem C17_mixed_report_counterexample :
    let src : Bytes := [97, 10, 98]
    let a : St := ⟨0, 1, 1, 3, 1, 0⟩
    let b : St := ⟨2, 2, 1, 1, 1, 0⟩
    Inv src a ∧ Inv src b ∧ ¬ (({ b with line := a.line } : St).line = 1 + countNL (src.take ({ b with line := a.line } : St).off)) := by
  refine ⟨⟨by decide, by decide, by decide, by decide⟩, ⟨by decide, by decide, by decide, by decide⟩, by decide⟩

/-! ### the excerpt rendered by `contextualize` (model `Lexer/Context`) -/
open Lexer.Context Proofs.Context

/-- C17_excerpt_sound: for EVERY source and EVERY report whose context start carries its true line
    number, every line the excerpt shows is labelled with the true number of the source line it shows:
    it starts at a position `pos` behind the context start that is preceded by exactly `label - 1`
    line feeds and stands at a line start (or is the context start itself), its text is a prefix of
    that source line, and it is marked exactly when its label is the reported line. -/
theorem C17_excerpt_sound (src : Bytes) (ctxOff ctxLine off line : Nat)
    (hc : ctxLine = 1 + countNL (src.take ctxOff)) :
    ∀ e ∈ contextualize src ctxOff ctxLine off line,
      ∃ pos, ctxOff ≤ pos ∧ e.label = 1 + countNL (src.take pos) ∧
        (pos = ctxOff ∨ src[pos - 1]? = some 10) ∧
        e.text <+: (src.drop pos).takeWhile (· != 10) ∧ (e.marked = true ↔ e.label = line) := by
  intro e he
  unfold contextualize excerpt at he
  obtain ⟨n, hn⟩ := context_is_prefix (src.drop ctxOff) (off - ctxOff + 1) 300
  rw [hn] at he
  obtain ⟨j, l, hj, _, rfl⟩ := entriesFrom_spec ctxLine line _ 0 e he
  obtain ⟨p, hp, hcnt, hstart, rfl⟩ := splitLines_spec _ j l hj
  have hpn : p ≤ n := by simp at hp; omega
  refine ⟨ctxOff + p, by omega, ?_, ?_, ?_, ?_⟩
  · simp only [Nat.zero_add]
    rw [take_add, countNL_append, hc]
    rw [List.take_take, Nat.min_eq_left hpn] at hcnt
    omega
  · cases p with
    | zero => exact Or.inl rfl
    | succ q =>
      rcases hstart with h0 | hstart
      · exact absurd h0 (by omega)
      · right
        simp only [Nat.add_sub_cancel] at hstart
        rw [List.getElem?_take] at hstart
        split at hstart
        · rw [List.getElem?_drop] at hstart
          have : ctxOff + (q + 1) - 1 = ctxOff + q := by omega
          rw [this]; exact hstart
        · cases hstart
  · refine List.IsPrefix.trans (trimEnd_prefix _) ?_
    rw [List.drop_take, ← List.drop_drop]
    exact takeWhile_take_prefix _ _ _
  · simp

/-- C17_at_most_one_marked: the excerpt never marks two lines (labels increase strictly). -/
theorem C17_at_most_one_marked (src : Bytes) (ctxOff ctxLine off line : Nat) :
    ((contextualize src ctxOff ctxLine off line).filter (·.marked)).length ≤ 1 := by
  unfold contextualize excerpt
  generalize untilNextUnindented _ _ _ = c
  have hpw := (entriesFrom_labels_lt ctxLine line (splitLines c) 0).2
  have hall : ∀ e ∈ entriesFrom ctxLine line (splitLines c) 0, e.marked = true → e.label = line := by
    intro e he hm
    obtain ⟨j, l, _, _, rfl⟩ := entriesFrom_spec ctxLine line _ 0 e he
    simpa using hm
  generalize entriesFrom ctxLine line (splitLines c) 0 = es at hpw hall
  have hf : (es.filter (·.marked)).Pairwise (fun a b => a.label < b.label) := hpw.sublist List.filter_sublist
  have hl : ∀ e ∈ es.filter (·.marked), e.label = line := by
    intro e he
    rw [List.mem_filter] at he
    exact hall e he.1 he.2
  generalize es.filter (·.marked) = ms at hf hl
  match ms, hf, hl with
  | [], _, _ => simp
  | [_], _, _ => simp
  | a :: b :: _, hf, hl =>
    have h1 := hl a (by simp)
    have h2 := hl b (by simp)
    have := (List.pairwise_cons.mp hf).1 b (by simp)
    omega

/-- C17_context_reaches_offset: the text handed to the excerpt always reaches the failing position
    (the byte at `at_least_until - 1`, or the end of the input): it is the first `n` bytes, possibly
    without trailing white space, for some `n ≥ min(at_least_until, |input|)`. Before fix `d0f95fd`
    the fallback stopped at 300 bytes. -/
theorem C17_context_reaches_offset (input : Bytes) (atLeast fb : Nat) :
    ∃ n, min atLeast input.length ≤ n ∧
      (untilNextUnindented input atLeast fb = input.take n ∨ untilNextUnindented input atLeast fb = trimEnd (input.take n)) := by
  unfold untilNextUnindented
  simp only
  split
  · exact ⟨_, by have := le_boundaryUp input (min atLeast input.length); omega, Or.inl rfl⟩
  · refine ⟨_, ?_, Or.inr rfl⟩
    have hle := le_boundaryUp input (min atLeast input.length)
    have hb := boundaryUp_is_boundary input (min atLeast input.length)
    generalize boundaryUp input (min atLeast input.length) = a at hle hb
    by_cases hlen : a ≤ input.length
    · have := le_boundaryDown input a hb (min input.length (max fb a)) (by omega)
      omega
    · -- the boundary lies behind the text: cannot happen for `a ≤ |input|`, but the bound holds anyway
      have h2 : min atLeast input.length ≤ input.length := Nat.min_le_right _ _
      have hnone : input[input.length]? = none := by simp
      have := le_boundaryDown input input.length (Or.inl hnone) (min input.length (max fb a)) (by omega)
      omega

/-- C17_report_line_marked: for EVERY source and EVERY consistent report (context start and offset carry
    their true line numbers, context start ≤ offset), if the reported line holds a byte that is not
    white space at or before the failing byte (position `q` behind the context start, on the same line
    as the failing byte), then the excerpt has an entry that is marked and labelled with the reported
    line. Together with `C17_at_most_one_marked` and `C17_excerpt_sound`: exactly one line is marked, it
    carries the reported number, and its text is (a prefix of) the source line of that number. -/
theorem C17_report_line_marked (src : Bytes) (ctxOff ctxLine off line q : Nat) (b : UInt8)
    (hco : ctxOff ≤ off)
    (hc : ctxLine = 1 + countNL (src.take ctxOff)) (hl : line = 1 + countNL (src.take off))
    (hq : q ≤ off - ctxOff) (hb : (src.drop ctxOff)[q]? = some b) (hws : isWs b = false)
    (hsame : countNL ((src.drop ctxOff).take q) = countNL ((src.drop ctxOff).take (off - ctxOff))) :
    ∃ e ∈ contextualize src ctxOff ctxLine off line, e.marked = true ∧ e.label = line := by
  unfold contextualize excerpt
  generalize hrest : src.drop ctxOff = rest at hb hsame
  have hqlen : q < rest.length := by
    rcases Nat.lt_or_ge q rest.length with h | h
    · exact h
    · rw [List.getElem?_eq_none h] at hb; cases hb
  -- the context is `rest.take m` for some `m > q`
  have hm : ∃ m, q < m ∧ untilNextUnindented rest (off - ctxOff + 1) 300 = rest.take m := by
    obtain ⟨n, hn, hcase⟩ := C17_context_reaches_offset rest (off - ctxOff + 1) 300
    have hqn : q < n := by omega
    rcases hcase with h | h
    · exact ⟨n, hqn, h⟩
    · have hbn : (rest.take n)[q]? = some b := by rw [List.getElem?_take]; simp [hqn, hb]
      obtain ⟨m, hqm, hm⟩ := trimEnd_keeps (rest.take n) q b hbn hws
      refine ⟨min m n, by omega, ?_⟩
      rw [h, hm, List.take_take]
  obtain ⟨m, hqm, hctx⟩ := hm
  rw [hctx]
  have hbm : (rest.take m)[q]? = some b := by rw [List.getElem?_take]; simp [hqm, hb]
  have hnl : (b == 10) = false := by
    cases h10 : (b == 10) with
    | false => rfl
    | true => have : b = 10 := by simpa using h10
              subst this; simp [isWs] at hws
  obtain ⟨l, hl', hmem⟩ := splitLines_line_of_pos (rest.take m) q b hbm hnl
  have hblank : blank l = false := by
    cases hbl : blank l with
    | false => rfl
    | true =>
      have := (List.all_eq_true.mp hbl) b hmem
      rw [hws] at this; cases this
  have hk : countNL ((rest.take m).take q) = countNL (rest.take (off - ctxOff)) := by
    rw [List.take_take, Nat.min_eq_left (by omega)]; exact hsame
  rw [hk] at hl'
  refine ⟨_, entriesFrom_complete ctxLine line _ 0 _ l hl' hblank, ?_⟩
  have hlabel : ctxLine + (0 + countNL (rest.take (off - ctxOff))) = line := by
    rw [hl, hc]
    have : off = ctxOff + (off - ctxOff) := by omega
    rw [this, take_add, countNL_append, hrest]
    simp only [Nat.add_sub_cancel_left]
    omega
  simp only [hlabel, beq_self_eq_true, and_self]

/-- the witness of the defect repaired by `d0f95fd` ("A\n\nB {\n x\n}\n E\n", context start at the
    first line feed, error at `B`, line 3): the old fallback trimmed the two line feeds the context
    begins with, labelled `B {` with 1 and marked `}`; the repaired one marks `B {` as line 3. -/
def witness : Bytes := [65, 10, 10, 66, 32, 123, 10, 32, 120, 10, 125, 10, 32, 69, 10]

theorem C17_old_excerpt_counterexample :
    (contextualizeOld witness 1 1 3 3).filter (·.marked) = [⟨3, [125], true⟩] ∧
    (contextualize witness 1 1 3 3).filter (·.marked) = [⟨3, [66, 32, 123], true⟩] ∧
    sourceLine witness 3 = [66, 32, 123] := by
  decide

/-- non-vacuity of C17_excerpt_sound: the witness report is consistent and its excerpt has entries -/
example : (1 : Nat) = 1 + countNL (witness.take 1) ∧ (contextualize witness 1 1 3 3).length = 4 := by decide

/-- non-vacuity of C17_report_line_marked: the witness report meets every hypothesis (q = 2, the `B`) -/
example : (1 : Nat) ≤ 3 ∧ (1 : Nat) = 1 + countNL (witness.take 1) ∧ (3 : Nat) = 1 + countNL (witness.take 3) ∧ (2 : Nat) ≤ 3 - 1 ∧
    (witness.drop 1)[2]? = some 66 ∧ isWs 66 = false ∧
    countNL ((witness.drop 1).take 2) = countNL ((witness.drop 1).take (3 - 1)) := by decide

end Props.C17

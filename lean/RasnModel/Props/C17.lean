import RasnModel.Lexer.Input
/-
  C17 — syntax errors are reported at the malformed definition, consistently.
  Proved here: the refinement of the position bookkeeping to the abstract map offset ↦ line,
  for every source and every sequence of (nested) slices and context resets — every `Input` a
  parser error can carry is reached by such a sequence, so every reported (line, offset) pair is
  consistent and lies inside the input. Which `Input` is reported (first alternative, innermost
  base) and that it lies in the first malformed assignment depends on the whole nom grammar and is
  decided by the oracle on the implementation's ReportData (PARTIAL).
-/
namespace Props.C17
open Lexer.Input

/-- the invariant: the remainder lies inside the source, the line is one plus the number of line
    breaks before the offset, and the context start is an earlier position with the same relation -/
structure Inv (src : Bytes) (s : St) : Prop where
  inside : s.off + s.len ≤ src.length
  line : s.line = 1 + countNL (src.take s.off)
  ctxBefore : s.ctxOff ≤ s.off
  ctxLine : s.ctxLine = 1 + countNL (src.take s.ctxOff)

theorem countNL_append (a b : Bytes) : countNL (a ++ b) = countNL a + countNL b := by
  simp [countNL, List.count_append]

theorem take_add (src : Bytes) (m n : Nat) : src.take (m + n) = src.take m ++ (src.drop m).take n := by
  rw [List.take_add]

theorem init_inv (src : Bytes) : Inv src (init src) :=
  ⟨by simp [init], by simp [init, countNL], by simp [init], by simp [init, countNL]⟩

theorem step_inv (src : Bytes) (s : St) (op : Op) (h : Inv src s) (hok : op.ok s) : Inv src (step src s op) := by
  cases op with
  | reset => exact ⟨h.inside, h.line, Nat.le_refl _, h.line⟩
  | slice a b =>
    simp only [Op.ok] at hok
    simp only [step, slice]
    by_cases ha : a = 0
    · subst ha
      simp only [if_true, Nat.sub_zero]
      exact ⟨by have := h.inside; simp only; omega, h.line, h.ctxBefore, h.ctxLine⟩
    · simp only [ha, if_false]
      refine ⟨?_, ?_, ?_, h.ctxLine⟩
      · have := h.inside; simp only; omega
      · simp only
        rw [take_add, countNL_append, h.line]; omega
      · have := h.ctxBefore; simp only; omega

/-- C17_line_invariant: after ANY sequence of in-range slices and context resets on ANY source, the
    tracked offset is inside the input and the tracked line is 1 + (line breaks before the offset). -/
theorem C17_line_invariant (src : Bytes) : ∀ (ops : List Op) (s : St), Inv src s →
    (∀ (pre : List Op) (op : Op) (post : List Op), ops = pre ++ op :: post → op.ok (pre.foldl (step src) s)) →
    Inv src (ops.foldl (step src) s) := by
  intro ops
  induction ops with
  | nil => intro s h _; exact h
  | cons op rest ih =>
    intro s h hok
    simp only [List.foldl_cons]
    apply ih
    · exact step_inv src s op h (hok [] op rest rfl)
    · intro pre op' post e
      have := hok (op :: pre) op' post (by rw [e]; rfl)
      simpa using this

/-- corollary for the reported position: offset ≤ |src| and line = 1 + #LF before it -/
theorem C17_reported_position_consistent (src : Bytes) (ops : List Op)
    (hok : ∀ (pre : List Op) (op : Op) (post : List Op), ops = pre ++ op :: post → op.ok (pre.foldl (step src) (init src))) :
    let r := ops.foldl (step src) (init src)
    r.off ≤ src.length ∧ r.line = 1 + countNL (src.take r.off) ∧ r.ctxOff ≤ r.off := by
  have := C17_line_invariant src ops (init src) (init_inv src) hok
  exact ⟨by have := this.inside; omega, this.line, this.ctxBefore⟩

/-- non-vacuity: "ab\ncd\nef", slice(4..), reset, slice(1..3) -/
example : let src : Bytes := [97, 98, 10, 99, 100, 10, 101, 102]
    ([Op.slice 4 none, .reset, .slice 1 (some 3)].foldl (step src) (init src)) = ⟨5, 2, 4, 2, 2, 4⟩ := by
  decide

end Props.C17

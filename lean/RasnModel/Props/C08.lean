import RasnModel.Link.Chase
import RasnModel.Lexer.Trivia
import RasnModel.Props.C13
import RasnModel.Lexer.Context
/-
  C08 — compilation is total (the parts that are logic).
  * reference chasing with a visited list comes back within |env| + 1 steps, for every environment
    (cycles of any length included); without the list it never comes back on a cycle;
  * the trivia scanner of C13 is a total function whose fuel bound (input length) always suffices.
  Panics elsewhere (explicit todo!/unwrap/indexing sites) are an inventory obligation and the business of
  the isolated-worker oracle; hangs and stack exhaustion cannot be exhibited by a Lean model at all —
  the model only shows that the algorithm as modelled terminates.
-/
namespace Props.C08
open Link.Chase

theorem mem_of_lookup {env : Env} {n : String} {d : Def} (h : env.lookup n = some d) : (n, d) ∈ env := by
  induction env with
  | nil => simp [List.lookup] at h
  | cons p ps ih =>
    obtain ⟨k, v⟩ := p
    simp only [List.lookup] at h
    split at h
    · next hk =>
      have : n = k := by simpa using hk
      cases h; subst this; exact List.mem_cons_self
    · exact List.mem_cons_of_mem _ (ih h)

theorem filter_length_mono (env : Env) (vis : List String) (n : String) :
    (env.filter fun p => !(n :: vis).contains p.1).length ≤ (env.filter fun p => !vis.contains p.1).length := by
  induction env with
  | nil => simp
  | cons p ps ih =>
    simp only [List.filter_cons]
    by_cases h1 : (n :: vis).contains p.1 = true
    · simp only [h1, Bool.not_true, Bool.false_eq_true, if_false]
      split
      · simp only [List.length_cons]; omega
      · exact ih
    · have h2 : vis.contains p.1 = false := by
        simp only [List.contains_cons, Bool.or_eq_true, not_or] at h1
        simpa using h1.2
      simp only [Bool.not_eq_true] at h1
      simp only [h1, h2, Bool.not_false, if_true, List.length_cons]
      omega

/-- putting a definition of the environment on the chain strictly shrinks what is left -/
theorem unvisited_lt (env : Env) (vis : List String) (n : String) (d : Def)
    (hm : (n, d) ∈ env) (hv : vis.contains n = false) : unvisited env (n :: vis) < unvisited env vis := by
  unfold unvisited
  induction env with
  | nil => cases hm
  | cons p ps ih =>
    simp only [List.filter_cons]
    rcases List.mem_cons.mp hm with rfl | hm'
    · -- the head is the definition itself: kept before, dropped now
      have h1 : (n :: vis).contains n = true := by simp
      simp only [h1, hv, Bool.not_true, Bool.not_false, Bool.false_eq_true, if_false, if_true, List.length_cons]
      have := filter_length_mono ps vis n
      omega
    · have := ih hm'
      by_cases h1 : (n :: vis).contains p.1 = true
      · simp only [h1, Bool.not_true, Bool.false_eq_true, if_false]
        split
        · simp only [List.length_cons]; omega
        · exact this
      · have h2 : vis.contains p.1 = false := by
          simp only [List.contains_cons, Bool.or_eq_true, not_or] at h1
          simpa using h1.2
        simp only [Bool.not_eq_true] at h1
        simp only [h1, h2, Bool.not_false, if_true, List.length_cons]
        omega

theorem chase_total_aux : ∀ (k : Nat) (env : Env) (vis : List String) (n : String) (f : Nat),
    unvisited env vis ≤ k → k < f → chase f env vis n ≠ .outOfFuel := by
  intro k
  induction k with
  | zero =>
    intro env vis n f hu hf
    obtain ⟨f', rfl⟩ : ∃ f', f = f' + 1 := ⟨f - 1, by omega⟩
    unfold chase
    split
    · simp
    · next hv =>
      have hv' : vis.contains n = false := by simpa using hv
      cases hl : env.lookup n with
      | none => simp
      | some d =>
        have := unvisited_lt env vis n d (mem_of_lookup hl) hv'
        omega
  | succ k ih =>
    intro env vis n f hu hf
    obtain ⟨f', rfl⟩ : ∃ f', f = f' + 1 := ⟨f - 1, by omega⟩
    unfold chase
    split
    · simp
    · next hv =>
      have hv' : vis.contains n = false := by simpa using hv
      cases hl : env.lookup n with
      | none => simp
      | some d =>
        cases d with
        | base => simp
        | alias m =>
          have hlt := unvisited_lt env vis n (.alias m) (mem_of_lookup hl) hv'
          exact ih env (n :: vis) m f' (by omega) (by omega)

/-- C08 (reference chasing): with the visited list the linker comes back — resolved, or with one of its two
    errors — within |env| + 1 steps, for EVERY environment, cyclic or not, and every starting name. -/
theorem C08_chase_total (env : Env) (n : String) : chase (env.length + 1) env [] n ≠ .outOfFuel := by
  apply chase_total_aux env.length env [] n (env.length + 1) _ (by omega)
  unfold unvisited
  exact List.length_filter_le _ _

/-- a cycle is reported as such -/
theorem C08_cycle_reported :
    chase 3 [("A", .alias "B"), ("B", .alias "A")] [] "A" = .cyclic := by decide

/-- what the code did before the fix: on a two-cycle the recursion never comes back, whatever the stack depth -/
theorem C08_old_chase_diverges : ∀ (f : Nat),
    chaseOld f [("A", .alias "B"), ("B", .alias "A")] "A" = .outOfFuel ∧
    chaseOld f [("A", .alias "B"), ("B", .alias "A")] "B" = .outOfFuel := by
  intro f
  induction f with
  | zero => exact ⟨rfl, rfl⟩
  | succ f ih =>
    constructor
    · have : chaseOld (f + 1) [("A", .alias "B"), ("B", .alias "A")] "A" = chaseOld f [("A", .alias "B"), ("B", .alias "A")] "B" := by
        simp [chaseOld, List.lookup]
      rw [this]; exact ih.2
    · have : chaseOld (f + 1) [("A", .alias "B"), ("B", .alias "A")] "B" = chaseOld f [("A", .alias "B"), ("B", .alias "A")] "A" := by
        simp [chaseOld, List.lookup]
      rw [this]; exact ih.1

/-- the comment / white-space skipper needs no more rounds than the input has characters: more fuel never
    changes its answer (Props.C13.skip_ge), i.e. `skipAll` is the total function the code computes -/
theorem C08_scanner_total (s : List Char) (extra : Nat) :
    Lexer.Trivia.skip (s.length + extra) s = Lexer.Trivia.skipAll s :=
  Props.C13.skip_ge s _ (Nat.le_add_right _ _)

/-! ### rendering an error: no slice of `until_next_unindented` leaves the text -/
open Lexer.Input Lexer.Context

/-- the scan reports an index inside the scanned text, and not the first one when it starts without a
    preceding line feed -/
theorem findUnindented_range : ∀ (l : Bytes) (prev : Bool) (i k : Nat), findUnindented l prev i = some k →
    i ≤ k ∧ k < i + l.length ∧ (prev = false → i < k) := by
  intro l
  induction l with
  | nil => intro prev i k h; simp [findUnindented] at h
  | cons b bs ih =>
    intro prev i k h
    simp only [findUnindented] at h
    split at h
    · rename_i hc
      cases h
      refine ⟨Nat.le_refl _, by simp, ?_⟩
      intro hp; rw [hp] at hc; simp at hc
    · obtain ⟨h1, h2, _⟩ := ih _ _ _ h
      exact ⟨by omega, by simp only [List.length_cons]; omega, fun _ => by omega⟩

theorem boundaryUp_le (input : Bytes) (n : Nat) (h : n ≤ input.length) : boundaryUp input n ≤ input.length := by
  unfold boundaryUp
  have h1 : ((input.drop n).takeWhile isCont).length ≤ (input.drop n).length :=
    (List.takeWhile_sublist isCont).length_le
  have h2 : (input.drop n).length = input.length - n := List.length_drop
  omega

theorem boundaryDown_le (input : Bytes) : ∀ m, boundaryDown input m ≤ m := by
  intro m
  induction m with
  | zero => simp [boundaryDown]
  | succ m ih =>
    simp only [boundaryDown]
    split
    · split
      · omega
      · omega
    · omega

/-- C08_excerpt_slices_in_range: for EVERY text and EVERY `at_least_until` / `fallback_len`, each index
    `until_next_unindented` slices the text at lies inside the text: the adjusted start `a`, the end
    `idx - 1 + a` of the main path (and `idx ≥ 1`, so `idx - 1` does not wrap), and the fallback length.
    (`contextualize` itself slices at the context start offset and computes `offset - context start + 1`:
    in range and without wrap-around exactly for reports with context start ≤ offset ≤ |text|, which is
    what `C17_line_invariant` shows for every report the lexer can produce.) -/
theorem C08_excerpt_slices_in_range (input : Bytes) (atLeast fb : Nat) :
    let a := boundaryUp input (min atLeast input.length)
    a ≤ input.length ∧
    (∀ idx, findUnindented (input.drop a) false 0 = some idx → 1 ≤ idx ∧ idx - 1 + a ≤ input.length) ∧
    boundaryDown input (min input.length (max fb a)) ≤ input.length := by
  intro a
  have ha : a ≤ input.length := boundaryUp_le input _ (Nat.min_le_right _ _)
  refine ⟨ha, ?_, ?_⟩
  · intro idx h
    obtain ⟨_, h2, h3⟩ := findUnindented_range _ _ _ _ h
    have h3 := h3 rfl
    have hl : (input.drop a).length = input.length - a := List.length_drop
    omega
  · have := boundaryDown_le input (min input.length (max fb a))
    have h2 : min input.length (max fb a) ≤ input.length := Nat.min_le_left _ _
    omega

end Props.C08

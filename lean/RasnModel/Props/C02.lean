import RasnModel.Proofs.Struct
import RasnModel.Proofs.Recursion
/-
  C02 — constructed types keep every component, in order, with the right shape.
  Model: Lexer/Assemble.lean + Gen/Struct.lean; Spec: Spec/Struct.lean (one field per component in
  source order; Option iff OPTIONAL or group; default iff DEFAULT; set marker; SetOf/SequenceOf;
  type per component). Boxing of recursive components is decided on the implementation's output
  by the inline-reference-graph oracle (Spec/Recursion.lean) and, since fix 26722d8, by the model of the
  linker's marking pass (Link/Recursion.lean, theorems at the end of this file).
-/
namespace Props.C02
open IR Lexer Gen.Struct Spec.Struct Proofs.Struct

/-- lexer: components parsed left to right, root then additions, nothing added / dropped / reordered -/
theorem C02_order_lexer (root : List SrcComp) (marker : Bool) (adds : List SrcAdd) :
    (assembleBody root marker adds).1 = root ++ lexAdds adds ∧
    (assembleBody root marker adds).1.length = root.length + adds.length := by
  simp [assembleBody, assemble, lexAdds]

theorem zipIdx_map_fst {α β : Type} (g : α → β) : ∀ (l : List α) (k : Nat),
    (l.zipIdx k).map (fun ci => g ci.1) = l.map g := by
  intro l
  induction l with
  | nil => intro _; rfl
  | cons a t ih => intro k; simp only [List.zipIdx_cons, List.map_cons]; rw [ih (k + 1)]

theorem fieldOf_name (env : TEnv) (fl : Bool) (parent : String) (e : Option Nat) (i : Nat) (c : SrcComp) :
    (fieldOf env fl parent e i c).name = snakeS c.name := rfl
theorem variantOf_name (env : TEnv) (fl : Bool) (parent : String) (e : Option Nat) (i : Nat) (c : SrcComp) :
    (variantOf env fl parent e i c).name = enumIdS c.name := rfl

attribute [local irreducible] snakeS enumIdS titleS in
/-- generator: exactly one field per member, in member order, named after the member -/
theorem C02_fields_exact (env : TEnv) (fl : Bool) (parent : String) (e : Option Nat) (members : List SrcComp) :
    (fieldsOf (fieldOf env fl parent e) members).map (·.name) = members.map (fun c => snakeS c.name) ∧
    (fieldsOf (fieldOf env fl parent e) members).length = members.length := by
  constructor
  · simp only [fieldsOf, List.map_map, Function.comp_def, fieldOf_name]
    exact zipIdx_map_fst (fun c => snakeS c.name) members 0
  · simp [fieldsOf]

attribute [local irreducible] snakeS enumIdS titleS in
theorem C02_variants_exact (env : TEnv) (fl : Bool) (parent : String) (e : Option Nat) (members : List SrcComp) :
    (fieldsOf (variantOf env fl parent e) members).map (·.name) = members.map (fun c => enumIdS c.name) ∧
    (fieldsOf (variantOf env fl parent e) members).length = members.length := by
  constructor
  · simp only [fieldsOf, List.map_map, Function.comp_def, variantOf_name]
    exact zipIdx_map_fst (fun c => enumIdS c.name) members 0
  · simp [fieldsOf]

/-- `Option<_>` exactly for OPTIONAL components (and for the synthetic group member) -/
theorem C02_optional_iff (env : TEnv) (fl : Bool) (parent : String) (e : Option Nat) (i : Nat) (c : SrcComp) :
    (fieldOf env fl parent e i c).ty =
      (if c.opt = Opt.optional ∨ isGroupName c.name = true then "Option<" ++ memberTypeName c.name parent c.ty ++ ">"
       else memberTypeName c.name parent c.ty) := by
  simp only [fieldOf]
  by_cases h1 : c.opt = Opt.optional <;> by_cases h2 : isGroupName c.name = true <;> simp [h1, h2]

/-- a default function exactly for DEFAULT components -/
theorem C02_default_iff (env : TEnv) (fl : Bool) (parent : String) (e : Option Nat) (i : Nat) (c : SrcComp) :
    (fieldOf env fl parent e i c).hasDefault = true ↔ c.opt = Opt.default := by
  simp [fieldOf]

/-- SET is marked as a set, SEQUENCE is not; SET OF / SEQUENCE OF select SetOf / SequenceOf -/
theorem C02_set_marker (ctx : Ctx) (fl : Bool) (name : String) (tag : Option Tag) (isSet : Bool)
    (members : List SrcComp) (ext : Option Nat) : (structItem ctx fl name tag isSet members ext).isSet = isSet := rfl

theorem C02_setof_vs_seqof (member parent : String) (isSet : Bool) (e : SrcType) (t : Option Tag) :
    typeNameOf member parent (.seqOf isSet e t) =
      (if isSet then "SetOf<" else "SequenceOf<") ++ typeNameOf member parent e ++ ">" := by
  simp [typeNameOf]

/-- user-written names never carry the internal group prefix (they are ASN.1 identifiers) -/
def compNameOk (c : SrcComp) : Bool := !isGroupName c.name

theorem field_proj (ctx : Ctx) (sctx : SCtx) (fl : Bool) (parent : String) (e : Option Nat) (i : Nat) (x : ExtF) (c : SrcComp)
    (h : compNameOk c = true) :
    ((fieldOf ctx.env fl parent e i c).name, (fieldOf ctx.env fl parent e i c).ty, (fieldOf ctx.env fl parent e i c).hasDefault) =
    ((specField sctx parent x c).name, (specField sctx parent x c).ty, (specField sctx parent x c).hasDefault) := by
  simp only [compNameOk, Bool.not_eq_true'] at h
  simp [fieldOf, specField, h]

theorem variant_proj (ctx : Ctx) (sctx : SCtx) (fl : Bool) (parent : String) (e : Option Nat) (i : Nat) (x : ExtF) (c : SrcComp) :
    ((variantOf ctx.env fl parent e i c).name, (variantOf ctx.env fl parent e i c).ty, (variantOf ctx.env fl parent e i c).hasDefault) =
    ((specVariant sctx parent x c).name, (specVariant sctx parent x c).ty, (specVariant sctx parent x c).hasDefault) := by
  simp [variantOf, specVariant]

theorem group_proj (ctx : Ctx) (fl : Bool) (parent : String) (e : Option Nat) (i : Nat) (cs : List SrcComp) :
    ((fieldOf ctx.env fl parent e i (groupMember cs)).name, (fieldOf ctx.env fl parent e i (groupMember cs)).ty,
      (fieldOf ctx.env fl parent e i (groupMember cs)).hasDefault) =
    ((groupField parent cs).name, (groupField parent cs).ty, (groupField parent cs).hasDefault) := by
  have hg := isGroupName_group cs
  have hty : (groupMember cs).ty = SrcType.seq false cs false [] := rfl
  have ho : (groupMember cs).opt = Opt.required := rfl
  simp only [fieldOf, groupField, hg, Bool.or_true, if_true, memberTypeName, hty, needsUnnesting, ho]
  simp

def p3 (f : FieldF) : String × String × Bool := (f.name, f.ty, f.hasDefault)

/-- one level, SEQUENCE/SET: the shape facts of the model's struct equal the spec's -/
theorem struct_fields_eq (ctx : Ctx) (sctx : SCtx) (fl : Bool) (parent : String) (root : List SrcComp) (marker : Bool)
    (adds : List SrcAdd) (hr : ∀ c ∈ root, compNameOk c = true) (ha : ∀ a ∈ adds, addNamesOk a = true) :
    (fieldsOf (fieldOf ctx.env fl parent (assembleBody root marker adds).2) (assembleBody root marker adds).1).map p3 =
      (root.map (specField sctx parent .none) ++ adds.map (specAddField sctx specField parent)).map p3 := by
  simp only [fieldsOf, assembleBody, assemble, List.map_map, List.zipIdx_append, List.map_append, lexAdds]
  congr 1
  · generalize (if marker = true then some root.length else none) = e
    generalize (0 : Nat) = k
    induction root generalizing k with
    | nil => rfl
    | cons c t ih =>
      simp only [List.zipIdx_cons, List.map_cons, Function.comp]
      rw [show p3 (fieldOf ctx.env fl parent e k c) = p3 (specField sctx parent ExtF.none c) from
        field_proj ctx sctx fl parent e k .none c (hr c List.mem_cons_self)]
      congr 1
      exact ih (fun x hx => hr x (List.mem_cons_of_mem _ hx)) (k + 1)
  · generalize (if marker = true then some root.length else none) = e
    generalize (0 + root.length : Nat) = k
    induction adds generalizing k with
    | nil => rfl
    | cons a t ih =>
      simp only [List.map_cons, List.zipIdx_cons, Function.comp]
      have hpa : p3 (fieldOf ctx.env fl parent e k (lexAdd a)) = p3 (specAddField sctx specField parent a) := by
        cases a with
        | comp c =>
          have := ha (.comp c) List.mem_cons_self
          exact field_proj ctx sctx fl parent e k .addition c (by simpa [addNamesOk, compNameOk] using this)
        | group v cs => exact group_proj ctx fl parent e k cs
      rw [hpa]
      congr 1
      exact ih (fun x hx => ha x (List.mem_cons_of_mem _ hx)) (k + 1)

theorem choice_fields_eq (ctx : Ctx) (sctx : SCtx) (fl : Bool) (parent : String) (root : List SrcComp) (marker : Bool)
    (adds : List SrcAdd) (hg : ∀ a ∈ adds, ∃ c, a = .comp c) :
    (fieldsOf (variantOf ctx.env fl parent (assembleBody root marker adds).2) (assembleBody root marker adds).1).map p3 =
      (root.map (specVariant sctx parent .none) ++ adds.map (specAddField sctx specVariant parent)).map p3 := by
  simp only [fieldsOf, assembleBody, assemble, List.map_map, List.zipIdx_append, List.map_append, lexAdds]
  congr 1
  · generalize (if marker = true then some root.length else none) = e
    generalize (0 : Nat) = k
    induction root generalizing k with
    | nil => rfl
    | cons c t ih =>
      simp only [List.zipIdx_cons, List.map_cons, Function.comp]
      rw [show p3 (variantOf ctx.env fl parent e k c) = p3 (specVariant sctx parent ExtF.none c) from
        variant_proj ctx sctx fl parent e k .none c]
      congr 1
      exact ih (k + 1)
  · generalize (if marker = true then some root.length else none) = e
    generalize (0 + root.length : Nat) = k
    induction adds generalizing k with
    | nil => rfl
    | cons a t ih =>
      simp only [List.map_cons, List.zipIdx_cons, Function.comp]
      obtain ⟨c, hc⟩ := hg a List.mem_cons_self
      subst hc
      rw [show p3 (variantOf ctx.env fl parent e k (lexAdd (.comp c))) = p3 (specAddField sctx specVariant parent (.comp c)) from
        variant_proj ctx sctx fl parent e k .addition c]
      congr 1
      exact ih (fun x hx => hg x (List.mem_cons_of_mem _ hx)) (k + 1)

/-- well-formedness for C02: user names are ASN.1 identifiers at every depth; version groups only in
    SEQUENCE/SET bodies (the lexer rejects them in CHOICE) -/
def wfLevel (rec : SrcType → Bool) : SrcType → Bool
  | .seq _ root _ adds =>
    root.all compNameOk && adds.all addNamesOk && root.all (fun c => rec c.ty) &&
    adds.all (fun a => match a with
      | .comp c => rec c.ty
      | .group _ cs => rec (.seq false cs false []))
  | .choice root _ adds =>
    adds.all (fun a => match a with | .comp _ => true | .group _ _ => false) && root.all (fun c => rec c.ty) &&
    adds.all (fun a => match a with
      | .comp c => rec c.ty
      | .group _ cs => rec (.seq false cs false []))
  | .seqOf _ e _ => rec e
  | _ => true

def wf : Nat → SrcType → Bool
  | 0 => fun _ => true
  | f + 1 => wfLevel (wf f)

theorem projC02_fields (i : ItemF) : (projC02 i).2.2 = i.fields.map p3 := rfl

theorem level_all (ctx : Ctx) (sctx : SCtx) (recG : Rec) (recS : SRec) (wfr : SrcType → Bool)
    (hrec : ∀ fl n t t' ty, wfr ty = true → (recG fl n t ty).map projC02 = (recS n t' ty).map projC02)
    (fl : Bool) (name : String) (tag tag' : Option Tag) (ty : SrcType) (hw : wfLevel wfr ty = true) :
    (genLevel ctx recG fl name tag ty).map projC02 = (specLevel sctx recS name tag' ty).map projC02 := by
  have nested_eq : ∀ (parent : String) (root : List SrcComp) (adds : List SrcAdd),
      root.all (fun c => wfr c.ty) = true →
      adds.all (fun a => match a with | .comp c => wfr c.ty | .group _ cs => wfr (.seq false cs false [])) = true →
      (nestedGen recG parent (root ++ lexAdds adds)).map projC02 =
        (root.flatMap (nestedOf recS parent) ++ adds.flatMap (nestedAdd recS parent)).map projC02 := by
    intro parent root adds hr ha
    simp only [nestedGen, List.flatMap_append, List.map_append, List.map_flatMap, lexAdds, List.flatMap_map]
    congr 1
    · apply Proofs.Struct.flatMap_congr'
      intro c hc
      have := List.all_eq_true.mp hr c hc
      simp only [nestedOf]
      by_cases hu : needsUnnesting c.ty = true
      · simp only [hu, if_true]; exact hrec _ _ _ _ _ this
      · simp only [hu, if_false]; rfl
    · apply Proofs.Struct.flatMap_congr'
      intro a ha'
      have := List.all_eq_true.mp ha a ha'
      cases a with
      | comp c =>
        simp only [lexAdd, nestedAdd, nestedOf]
        by_cases hu : needsUnnesting c.ty = true
        · simp only [hu, if_true]; exact hrec _ _ _ _ _ this
        · simp only [hu, if_false]; rfl
      | group v cs =>
        have hty : (groupMember cs).ty = SrcType.seq false cs false [] := rfl
        simp only [lexAdd, nestedAdd, hty, needsUnnesting, if_true]
        exact hrec _ _ _ _ _ this
  cases ty with
  | seq isSet root marker adds =>
    simp only [wfLevel, Bool.and_eq_true] at hw
    obtain ⟨⟨⟨hrn, han⟩, hr⟩, ha⟩ := hw
    have hf := struct_fields_eq ctx sctx fl (titleS name) root marker adds (List.all_eq_true.mp hrn) (List.all_eq_true.mp han)
    simp only [genLevel, specLevel, List.map_cons]
    congr 1
    · simp only [projC02, structItem, Prod.mk.injEq, true_and]
      exact hf
    · simp only [assembleBody, assemble]; exact nested_eq _ root adds hr ha
  | choice root marker adds =>
    simp only [wfLevel, Bool.and_eq_true] at hw
    obtain ⟨⟨hg, hr⟩, ha⟩ := hw
    have hg' : ∀ a ∈ adds, ∃ c, a = SrcAdd.comp c := by
      intro a ha'
      have := List.all_eq_true.mp hg a ha'
      cases a with
      | comp c => exact ⟨c, rfl⟩
      | group v cs => simp at this
    have hf := choice_fields_eq ctx sctx fl (titleS name) root marker adds hg'
    simp only [genLevel, specLevel, List.map_cons]
    congr 1
    · simp only [projC02, choiceItem, Prod.mk.injEq, true_and]
      exact hf
    · simp only [assembleBody, assemble]; exact nested_eq _ root adds hr ha
  | enumerated root marker adds =>
    simp only [genLevel, specLevel, List.map_cons, List.map_nil, projC02, enumItem, assemble, enumVariants]
    congr 1
    simp only [Prod.mk.injEq, true_and, List.map_map, List.map_append]
    have h1 : ∀ x, ((fun f : FieldF => (f.name, f.ty, f.hasDefault)) ∘ specEnumVariant x) = fun n => (enumIdS n, "", false) := by
      intro x; funext n; rfl
    have h2 : ∀ e : Option Nat, ((fun f : FieldF => (f.name, f.ty, f.hasDefault)) ∘ fun (x : String × Nat) =>
        ({ name := enumIdS x.1, ty := "", tag := none, ext := extAnnotation x.2 e false, hasDefault := false,
           identifier := identAnn (enumIdS x.1) x.1 } : FieldF)) = fun ci => (enumIdS ci.1, "", false) := by
      intro e; funext x; rfl
    rw [h1, h1, h2, ← List.map_append]
    exact zipIdx_map_fst (fun n => (enumIdS n, "", false)) (root ++ adds) 0
  | seqOf s e t =>
    simp only [wfLevel] at hw
    simp only [genLevel, specLevel, List.map_append, List.map_cons, List.map_nil]
    cases e with
    | ref n => rfl
    | prim p => rw [hrec _ _ _ t _ hw]; rfl
    | seq a b c d => rw [hrec _ _ _ t _ hw]; rfl
    | choice a b c => rw [hrec _ _ _ t _ hw]; rfl
    | enumerated a b c => rw [hrec _ _ _ t _ hw]; rfl
    | seqOf a b c => rw [hrec _ _ _ t _ hw]; rfl
  | prim p => simp [genLevel, specLevel, projC02, newtypeItem, specNewtype]
  | ref n => simp [genLevel, specLevel, projC02, newtypeItem, specNewtype]

/-- C02 at every nesting depth: every item the generator emits for a well-formed type — the type
    itself and everything hoisted out of it — has the kind, the set marker, and exactly one field
    or variant per component, in source order, with the name, type shape (Option for OPTIONAL and
    groups, SetOf/SequenceOf, hoisted inner name, reference, rasn builtin) and default marker the
    reference semantics prescribes; nothing added, dropped, duplicated or reordered. -/
theorem C02_all_depths (ctx : Ctx) (sctx : SCtx) :
    ∀ (fuel : Nat) (fl : Bool) (name : String) (tag tag' : Option Tag) (ty : SrcType), wf fuel ty = true →
      (genItems ctx fuel fl name tag ty).map projC02 = (specItems sctx fuel name tag' ty).map projC02 := by
  intro fuel
  induction fuel with
  | zero => intro _ _ _ _ _ _; rfl
  | succ f ih =>
    intro fl name tag tag' ty hw
    exact level_all ctx sctx (genItems ctx f) (specItems sctx f) (wf f)
      (fun fl n t t' ty h => ih fl n t t' ty h) fl name tag tag' ty hw

/-- non-vacuity: a SET with OPTIONAL, DEFAULT, a nested anonymous SEQUENCE and a SET OF -/
example : wf 3 (.seq true [.mk "a" none (.prim "BOOLEAN") .optional, .mk "b" none (.prim "INTEGER") .default,
      .mk "c" none (.seq false [.mk "d" none (.seqOf true (.prim "NULL") none) .required] false []) .required] true []) = true := by
  decide

end Props.C02

/-! ### recursive components are boxed — the recursion analysis (Link/Recursion.lean) -/
namespace Props.C02
open Link.Recursion

/-- One member: the analysis marks it exactly when the definition it belongs to can be reached from
    one of the references standing inline in the member's type, following members that are not
    marked — for every set of definitions, any size, cycles included. -/
theorem C02_member_marked_iff (name : String) (env : Env) (d : Def) (hm : d.markable = true) (i : Nat)
    (hi : i < d.members.length) :
    ∃ m', (markDef name env d).members[i]? = some m' ∧ m'.refs = d.members[i].refs ∧
      (m'.marked = true ↔ ∃ r ∈ d.members[i].refs, Reach env name r) := by
  unfold markDef
  simp only [hm, if_true, List.getElem?_map, List.getElem?_eq_getElem hi, Option.map_some]
  exact ⟨_, rfl, rfl, go_iff name env _⟩

/-- The whole pass: once every definition has been analysed (in any order, each against the map
    without itself, earlier ones with their final marks), no SEQUENCE / SET / CHOICE lies on a cycle
    of inline references whose members are all unmarked: every such cycle is broken by a `Box`.
    For every set of definitions with distinct names. -/
theorem C02_boxing_breaks_every_cycle (env : Env) (hk : (keys env).Nodup) (h0 : InitEnv env) :
    ∀ p ∈ markAll env, p.2.markable = true → ¬ OnCycle (markAll env) p.1 :=
  markAll_acyclic env hk h0

/-- … and the pass changes nothing but marks: same definitions, same order, same members, same references -/
theorem C02_marking_changes_marks_only (env : Env) : skeleton (markAll env) = skeleton env :=
  markAll_skeleton env

/-- the analysis decides reachability: sound and complete -/
theorem C02_recurses_iff_reachable (name : String) (env : Env) (refs : List String) :
    go name env [] refs = true ↔ ∃ r ∈ refs, Reach env name r := go_iff name env refs

/- non-vacuity (tests, evaluated): mutual recursion — the first definition analysed gets the box;
   a definition reached only through an alias; a diamond that is not a cycle -/
#guard (markAll [("A", ⟨true, [⟨false, ["B"]⟩]⟩), ("B", ⟨true, [⟨false, ["A"]⟩]⟩)]).map (fun p => p.2.members.map (·.marked)) = [[true], [false]]
#guard (markAll [("A", ⟨false, [⟨false, ["B"]⟩]⟩), ("B", ⟨true, [⟨false, ["A"]⟩, ⟨false, []⟩]⟩)]).map (fun p => p.2.members.map (·.marked)) = [[false], [true, false]]
#guard (markAll [("A", ⟨true, [⟨false, ["B"]⟩, ⟨false, ["C"]⟩]⟩), ("B", ⟨true, [⟨false, ["D"]⟩]⟩), ("C", ⟨true, [⟨false, ["D"]⟩]⟩), ("D", ⟨true, []⟩)]).map (fun p => p.2.members.map (·.marked)) = [[false, false], [false], [false], []]

end Props.C02

import RasnModel.Proofs.Pipeline
import RasnModel.Gen.Imports
/-
  C12 — modules compile independently of their neighbours (backend state part).
  The backend is a state machine over (tagging default, extensibility default); `generate_module`
  overwrites the state from the first definition's header before generating anything.
  IMPORTS → use lines and cross-module name resolution are decided by the oracle (PARTIAL).
-/
namespace Props.C12
open Pipe Proofs.Pipeline

variable {β : Type}

/-- whatever state the previous module left behind, a module's bindings are the same -/
theorem C12_state_irrelevant (gen : BState → Def β → Option String) (s s' : BState) (m : List (Def β)) :
    (generateModule gen s m).2 = (generateModule gen s' m).2 :=
  generateModule_state_irrelevant gen s s' m

/-- no leak across any sequence of modules: the events of the whole run are the concatenation of
    each module generated on its own from an arbitrary state -/
theorem C12_no_leak (gen : BState → Def β → Option String) (st any : BState) (mods : List (String × List (Def β))) :
    (generateAll gen st mods).2 = mods.flatMap (fun m => (generateModule gen any m.2).2) := by
  have := generateAll_no_leak gen any mods st []
  simpa [generateAll] using this

/-- the state after a module is the one read from that module's header -/
theorem C12_state_after (gen : BState → Def β → Option String) (st : BState) (d : Def β) (t : List (Def β)) :
    (generateModule gen st (d :: t)).1 = ⟨d.hdr.tag, d.hdr.ext⟩ := rfl

/-- non-vacuity: an EXTENSIBILITY IMPLIED module followed by a plain one -/
example : (generateAll (fun s (d : Def Unit) => some (toString s.ext)) ⟨0, false⟩
    [("A", [⟨"X", ⟨"A", 0, true⟩, ()⟩]), ("B", [⟨"Y", ⟨"B", 0, false⟩, ()⟩])]).2 =
    [Ev.emitted "A" "X" "true", Ev.emitted "B" "Y" "false"] := by decide

/-! ### IMPORTS → use lines (Gen/Imports.lean mirrors the closure over `module.imports` in generate_module) -/

section Uses
open Gen.Imports Gen.Names

/-- C12 (use lines): a clause that imports only type and value references becomes a use declaration of
    exactly those symbols, in order — values in const case, types in title case — for any number of symbols -/
theorem C12_use_exact : ∀ (ss : List (List Char)), plainSymbols ss = true → usagesOf ss = some (ss.map specSymbol) := by
  intro ss
  induction ss with
  | nil => intro _; rfl
  | cons s rest ih =>
    intro h
    simp only [plainSymbols, List.all_cons, Bool.and_eq_true, Bool.not_eq_true'] at h
    obtain ⟨⟨⟨h1, h2⟩, h3⟩, hr⟩ := h
    have ihr := ih (by simpa [plainSymbols] using hr)
    simp only [usagesOf, h1, h2, Bool.or_self, Bool.false_eq_true, if_false, ihr, List.map_cons]
    cases s with
    | nil => simp at h3
    | cons c cs =>
      simp only [symbolUse, specSymbol]
      by_cases hl : c.isLower = true
      · simp [hl]
      · have hu : c.isUpper = true := by
          simp only [Bool.or_eq_true] at h3
          rcases h3 with h | h
          · exact absurd h hl
          · exact h
        simp [hl, hu]

/-- the clause becomes a glob exactly when some symbol is parameterized or looks like a class -/
theorem C12_glob_iff : ∀ (ss : List (List Char)), usagesOf ss = none ↔ ∃ s ∈ ss, containsBraces s = true ∨ classLike s = true := by
  intro ss
  induction ss with
  | nil => simp [usagesOf]
  | cons s rest ih =>
    simp only [usagesOf]
    by_cases hb : (containsBraces s || classLike s) = true
    · simp only [hb, if_true, true_iff]
      exact ⟨s, List.mem_cons_self, by simpa [Bool.or_eq_true] using hb⟩
    · simp only [hb, Bool.false_eq_true, if_false]
      have hb' : ¬ (containsBraces s = true ∨ classLike s = true) := by simpa [Bool.or_eq_true] using hb
      cases hu : usagesOf rest with
      | none =>
        simp only [true_iff]
        obtain ⟨x, hx, hp⟩ := ih.mp hu
        exact ⟨x, List.mem_cons_of_mem _ hx, hp⟩
      | some us =>
        simp only [false_iff, reduceCtorEq]
        rintro ⟨x, hx, hp⟩
        rcases List.mem_cons.mp hx with rfl | hx'
        · exact hb' hp
        · have := ih.mpr ⟨x, hx', hp⟩
          rw [hu] at this; cases this

/-- one use line per IMPORTS clause, in clause order, naming the sibling module in snake case -/
theorem C12_one_line_per_clause (w : Bool) (imports : List (List Char × List (List Char))) :
    (useLines w imports).map (·.module) = imports.map (fun i => toSnake i.1) := by
  simp [useLines, useLine, List.map_map, Function.comp]

/-- non-vacuity, incl. a type named with capitals and a digit (not a class) -/
example : usagesOf ["T1".toList, "limit-1".toList, "Plain-Type".toList] = some ["T1".toList, "LIMIT_1".toList, "PlainType".toList] := by decide
example : usagesOf ["MY-CLASS".toList, "Plain".toList] = none := by decide


end Uses

end Props.C12

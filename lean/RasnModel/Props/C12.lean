import RasnModel.Proofs.Pipeline
/-
  C12 — modules compile independently of their neighbours (backend state part).
  The backend is a state machine over (tagging default, extensibility default); `generate_module`
  overwrites the state from the first definition's header before generating anything.
  IMPORTS → use lines and cross-module name resolution are decided by the oracle (PARTIAL).
-/
namespace Props.C12
open Pipe Proofs.Pipeline

variable {β : Type}

/-- whatever state the previous module left behind, a module's bindings are the same -/
theorem C12_state_irrelevant (gen : BState → Def β → Option String) (s s' : BState) (m : List (Def β)) :
    (generateModule gen s m).2 = (generateModule gen s' m).2 :=
  generateModule_state_irrelevant gen s s' m

/-- no leak across any sequence of modules: the events of the whole run are the concatenation of
    each module generated on its own from an arbitrary state -/
theorem C12_no_leak (gen : BState → Def β → Option String) (st any : BState) (mods : List (String × List (Def β))) :
    (generateAll gen st mods).2 = mods.flatMap (fun m => (generateModule gen any m.2).2) := by
  have := generateAll_no_leak gen any mods st []
  simpa [generateAll] using this

/-- the state after a module is the one read from that module's header -/
theorem C12_state_after (gen : BState → Def β → Option String) (st : BState) (d : Def β) (t : List (Def β)) :
    (generateModule gen st (d :: t)).1 = ⟨d.hdr.tag, d.hdr.ext⟩ := rfl

/-- non-vacuity: an EXTENSIBILITY IMPLIED module followed by a plain one -/
example : (generateAll (fun s (d : Def Unit) => some (toString s.ext)) ⟨0, false⟩
    [("A", [⟨"X", ⟨"A", 0, true⟩, ()⟩]), ("B", [⟨"Y", ⟨"B", 0, false⟩, ()⟩])]).2 =
    [Ev.emitted "A" "X" "true", Ev.emitted "B" "Y" "false"] := by decide

end Props.C12

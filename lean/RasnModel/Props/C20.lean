import RasnModel.Io.Deliver
/-
  C20 — compile() delivers exactly the compiled text, and nothing on failure.
  Model: Io/Deliver.lean; constants and call order regenerated from source (Extracted/Delivery.lean).
-/
namespace Props.C20
open Deliver

/-- the regenerated call order of `compile()`: the fallible compilation precedes the only write -/
theorem C20_call_order : Extracted.Delivery.compileSteps = ["internal_compile?", "fmt", "output_generated?"] := by decide

/-- the regenerated write path of `output_generated`: whole-file write (create + truncate) or stdout write_all -/
theorem C20_write_primitives : Extracted.Delivery.writePrimitives = ["fs :: write", "write_all"] := by decide

/-- the CLI looks for exactly these suffixes, everywhere below the given directory -/
theorem C20_cli_search : Extracted.Delivery.cliSuffixes = [".asn", ".asn1"] ∧ Extracted.Delivery.cliWalkRestricted = false := by decide

/-- asn1! is the parse of compile_to_string(..).unwrap().generated -/
theorem C20_macro_chain : Extracted.Delivery.macroChain = ["add_asn_literal", "compile_to_string", "unwrap", ".generated", "parse", "unwrap"]
    ∧ Extracted.Delivery.macroNeedles = ["BEGIN"] ∧ Extracted.Delivery.dummyFooter = "\nEND" := by decide

/-- when compilation fails nothing is written or overwritten, whatever the mode and the destination's state -/
theorem C20_failure_writes_nothing (w : World) (ext : String) (m : Mode) :
    compile w ext m none = (false, w) := rfl

/-- an unwritable destination is an Err (the model is total: no panic), and nothing changes -/
theorem C20_unwritable_is_err (w : World) (ext p text : String) (c : Option String)
    (h : w.node (destination w ext p) = .blocked c) :
    compile w ext (.file p) (some text) = (false, w) := by
  simp only [compile, deliver, h]

/-- file mode, writable destination: exactly the text, at exactly the destination, nothing else touched -/
theorem C20_file_exact (w : World) (ext p text : String)
    (h : w.node (destination w ext p) = .absent ∨ ∃ old, w.node (destination w ext p) = .file old) :
    let r := compile w ext (.file p) (some text)
    r.1 = true ∧ r.2.node (destination w ext p) = .file text ∧ (∀ q, q ≠ destination w ext p → r.2.node q = w.node q) ∧ r.2.out = w.out := by
  rcases h with h | ⟨old, h⟩ <;>
  · simp only [compile, deliver, h, update, if_true, true_and]
    refine ⟨fun q hq => ?_, trivial⟩
    simp only [hq, if_false]

/-- a directory destination means `<dir>/generated<ext>` -/
theorem C20_directory_destination (w : World) (ext p : String) (h : w.node p = .dir) :
    destination w ext p = p ++ "/" ++ "generated" ++ ext := by
  simp only [destination, h, if_true]; rfl

/-- a non-directory destination is the path itself -/
theorem C20_plain_destination (w : World) (ext p : String) (h : w.node p ≠ .dir) : destination w ext p = p := by
  simp only [destination, h, if_false]

/-- stdout mode: the text is appended to standard output, no file is touched -/
theorem C20_stdout_exact (w : World) (ext text : String) :
    compile w ext .stdout (some text) = (true, { w with out := w.out ++ [text] }) := rfl

/-- no-output mode: nothing at all -/
theorem C20_none_exact (w : World) (ext text : String) : compile w ext .none (some text) = (true, w) := rfl

/-- compile() succeeds exactly when compilation succeeded and the destination could be written -/
theorem C20_ok_iff (w : World) (ext : String) (m : Mode) (r : Option String) :
    (compile w ext m r).1 = true ↔ ∃ t, r = some t ∧ (deliver w ext m t).isSome := by
  cases r with
  | none => simp [compile]
  | some t =>
    simp only [compile]
    cases h : deliver w ext m t <;> simp [h]

/-! ### the recursive search finds every wanted file at any depth, and nothing else -/

mutual
theorem mem_found (pfx : String) : ∀ (t : Tree) (p : String), p ∈ found pfx t ↔ ∃ n, (p, n) ∈ files pfx t ∧ wanted n = true
  | .file n, p => by
    simp only [found, files, List.mem_singleton, Prod.mk.injEq]
    constructor
    · intro h
      split at h
      next hw => simp only [List.mem_singleton] at h; exact ⟨n, ⟨h, rfl⟩, hw⟩
      next => simp at h
    · rintro ⟨m, ⟨rfl, rfl⟩, hw⟩
      simp [hw]
  | .dir n cs, p => by
    simp only [found, files]
    exact mem_foundAll (pfx ++ n ++ "/") cs p
theorem mem_foundAll (pfx : String) : ∀ (ts : List Tree) (p : String), p ∈ foundAll pfx ts ↔ ∃ n, (p, n) ∈ filesAll pfx ts ∧ wanted n = true
  | [], p => by simp [foundAll, filesAll]
  | t :: ts, p => by
    simp only [foundAll, filesAll, List.mem_append, mem_found pfx t p, mem_foundAll pfx ts p]
    constructor
    · rintro (⟨n, h, hw⟩ | ⟨n, h, hw⟩)
      · exact ⟨n, Or.inl h, hw⟩
      · exact ⟨n, Or.inr h, hw⟩
    · rintro ⟨n, h | h, hw⟩
      · exact Or.inl ⟨n, h, hw⟩
      · exact Or.inr ⟨n, h, hw⟩
end

/-- C20 (CLI sources): a path is handed to the compiler iff it is a file of the tree, at whatever depth and
    under whatever directory names, whose own name ends in `.asn` or `.asn1` -/
theorem C20_cli_finds_exactly (root : Tree) (p : String) :
    p ∈ found "" root ↔ ∃ n, (p, n) ∈ files "" root ∧ wanted n = true := mem_found "" root p

/- non-vacuity (a test evaluated by the compiler, not a theorem) -/
#guard found "" (.dir "." [.file "a.asn", .dir ".hidden" [.file "b.asn1", .file "c.txt"], .file "d.asn1x"]) == ["./a.asn", "./.hidden/b.asn1"]

end Props.C20

import RasnModel.Cfg.Options
/-
  C19 — backend options change only what they document.
  Model: Cfg/Options.lean (`decorate cfg` maps the default configuration's output to the output under `cfg`);
  tie: for every generated input and every configuration the driver checks
  `project (compile cfg x) = decorate cfg (project (compile default x))`.
-/
namespace Props.C19
open Cfg

/-! ### derive merge -/

theorem addDerives_prefix : ∀ (ds acc : List String), acc <+: addDerives acc ds := by
  intro ds
  induction ds with
  | nil => intro acc; exact List.prefix_refl _
  | cons d ds ih =>
    intro acc
    unfold addDerives
    split
    · exact ih acc
    · exact (List.prefix_append acc [d]).trans (ih _)

theorem mem_addDerives : ∀ (ds acc : List String) (d : String), d ∈ addDerives acc ds ↔ d ∈ acc ∨ d ∈ ds := by
  intro ds
  induction ds with
  | nil => intro acc d; simp [addDerives]
  | cons x ds ih =>
    intro acc d
    unfold addDerives
    split
    next h =>
      have hx : x ∈ acc := by simpa using h
      rw [ih]
      constructor
      · rintro (h | h)
        · exact Or.inl h
        · exact Or.inr (List.mem_cons_of_mem _ h)
      · rintro (h | h)
        · exact Or.inl h
        · rcases List.mem_cons.mp h with rfl | h
          · exact Or.inl hx
          · exact Or.inr h
    next h =>
      rw [ih]
      simp [or_assoc]

theorem addDerives_nodup : ∀ (ds acc : List String), acc.Nodup → (addDerives acc ds).Nodup := by
  intro ds
  induction ds with
  | nil => intro acc h; exact h
  | cons x ds ih =>
    intro acc h
    unfold addDerives
    split
    · exact ih acc h
    next hx =>
      apply ih
      have hx' : x ∉ acc := by simpa using hx
      rw [List.nodup_append]
      refine ⟨h, by simp, ?_⟩
      intro a ha b hb
      simp only [List.mem_singleton] at hb
      subst hb
      intro e; subst e; exact hx' ha

theorem addDerives_absorb : ∀ (ds acc : List String), (∀ d ∈ ds, d ∈ acc) → addDerives acc ds = acc := by
  intro ds
  induction ds with
  | nil => intro acc _; rfl
  | cons x ds ih =>
    intro acc h
    unfold addDerives
    have hx : acc.contains x = true := by simpa using h x List.mem_cons_self
    simp only [hx, if_true]
    exact ih acc (fun d hd => h d (List.mem_cons_of_mem _ hd))

/-- one step of the fold of `Backend::new` -/
def mergeStep (acc : List String × List String) (a : String) : List String × List String :=
  match parseDerive a.toList with
  | some ds => (addDerives acc.1 ds, acc.2)
  | none => (acc.1, acc.2 ++ [a])

def mergeFrom (acc : List String × List String) (annots : List String) : List String × List String :=
  annots.foldl mergeStep acc

theorem mergeAnnotations_eq (a : List String) : mergeAnnotations a = mergeFrom (requiredDerives, []) a := rfl

theorem mergeFrom_cons (acc : List String × List String) (x : String) (xs : List String) :
    mergeFrom acc (x :: xs) = mergeFrom (mergeStep acc x) xs := rfl

theorem mergeStep_none {acc : List String × List String} {x : String} (h : parseDerive x.toList = none) :
    mergeStep acc x = (acc.1, acc.2 ++ [x]) := by simp only [mergeStep, h]

theorem mergeStep_some {acc : List String × List String} {x : String} {ds : List String} (h : parseDerive x.toList = some ds) :
    mergeStep acc x = (addDerives acc.1 ds, acc.2) := by simp only [mergeStep, h]

theorem mergeFrom_prefix : ∀ (a : List String) (acc : List String × List String), acc.1 <+: (mergeFrom acc a).1 := by
  intro a
  induction a with
  | nil => intro acc; exact List.prefix_refl _
  | cons x xs ih =>
    intro acc
    rw [mergeFrom_cons]
    cases h : parseDerive x.toList with
    | none => rw [mergeStep_none h]; exact ih (acc.1, acc.2 ++ [x])
    | some ds => rw [mergeStep_some h]; exact (addDerives_prefix ds acc.1).trans (ih (addDerives acc.1 ds, acc.2))

theorem mergeFrom_nodup : ∀ (a : List String) (acc : List String × List String), acc.1.Nodup → (mergeFrom acc a).1.Nodup := by
  intro a
  induction a with
  | nil => intro acc h; exact h
  | cons x xs ih =>
    intro acc hn
    rw [mergeFrom_cons]
    cases h : parseDerive x.toList with
    | none => rw [mergeStep_none h]; exact ih _ hn
    | some ds => rw [mergeStep_some h]; exact ih _ (addDerives_nodup ds acc.1 hn)

theorem mem_mergeFrom : ∀ (a : List String) (acc : List String × List String) (d : String),
    d ∈ (mergeFrom acc a).1 ↔ d ∈ acc.1 ∨ ∃ x ∈ a, ∃ ds, parseDerive x.toList = some ds ∧ d ∈ ds := by
  intro a
  induction a with
  | nil => intro acc d; simp [mergeFrom]
  | cons x xs ih =>
    intro acc d
    rw [mergeFrom_cons]
    cases h : parseDerive x.toList with
    | none =>
      rw [mergeStep_none h, ih]
      constructor
      · rintro (h1 | ⟨y, hy, ds, hp, hd⟩)
        · exact Or.inl h1
        · exact Or.inr ⟨y, List.mem_cons_of_mem _ hy, ds, hp, hd⟩
      · rintro (h1 | ⟨y, hy, ds, hp, hd⟩)
        · exact Or.inl h1
        · rcases List.mem_cons.mp hy with rfl | hy
          · rw [h] at hp; cases hp
          · exact Or.inr ⟨y, hy, ds, hp, hd⟩
    | some ds0 =>
      rw [mergeStep_some h, ih, mem_addDerives]
      constructor
      · rintro ((h1 | h1) | ⟨y, hy, ds, hp, hd⟩)
        · exact Or.inl h1
        · exact Or.inr ⟨x, List.mem_cons_self, ds0, h, h1⟩
        · exact Or.inr ⟨y, List.mem_cons_of_mem _ hy, ds, hp, hd⟩
      · rintro (h1 | ⟨y, hy, ds, hp, hd⟩)
        · exact Or.inl (Or.inl h1)
        · rcases List.mem_cons.mp hy with rfl | hy
          · rw [h] at hp; cases hp; exact Or.inl (Or.inr hd)
          · exact Or.inr ⟨y, hy, ds, hp, hd⟩

theorem mergeFrom_absorb : ∀ (a : List String) (acc : List String × List String),
    (∀ x ∈ a, ∀ ds, parseDerive x.toList = some ds → ∀ d ∈ ds, d ∈ acc.1) → (mergeFrom acc a).1 = acc.1 := by
  intro a
  induction a with
  | nil => intro acc _; rfl
  | cons x xs ih =>
    intro acc h
    rw [mergeFrom_cons]
    cases hp : parseDerive x.toList with
    | none =>
      rw [mergeStep_none hp]
      exact ih (acc.1, acc.2 ++ [x]) (fun y hy => h y (List.mem_cons_of_mem _ hy))
    | some ds =>
      have e : addDerives acc.1 ds = acc.1 := addDerives_absorb ds acc.1 (h x List.mem_cons_self ds hp)
      rw [mergeStep_some hp, e]
      exact ih (acc.1, acc.2) (fun y hy => h y (List.mem_cons_of_mem _ hy))

/-- the derives rasn needs stay present, first and in order, whatever the user lists -/
theorem C19_required_derives_kept (a : List String) : requiredDerives <+: (mergeAnnotations a).1 :=
  show requiredDerives <+: (mergeFrom (requiredDerives, []) a).1 from mergeFrom_prefix a (requiredDerives, [])

/-- no derive is emitted twice, however often the user lists it -/
theorem C19_derives_nodup (a : List String) : (mergeAnnotations a).1.Nodup :=
  show (mergeFrom (requiredDerives, []) a).1.Nodup from mergeFrom_nodup a _ (by decide)

/-- exactly the required derives and the user's -/
theorem C19_derives_exact (a : List String) (d : String) :
    d ∈ (mergeAnnotations a).1 ↔ d ∈ requiredDerives ∨ ∃ x ∈ a, ∃ ds, parseDerive x.toList = some ds ∧ d ∈ ds :=
  mem_mergeFrom a (requiredDerives, []) d

/-- listing every annotation twice gives the same derives as listing it once -/
theorem C19_derives_listed_twice (a : List String) : (mergeAnnotations (a ++ a)).1 = (mergeAnnotations a).1 := by
  have e : mergeAnnotations (a ++ a) = mergeFrom (mergeAnnotations a) a := by
    rw [mergeAnnotations_eq, mergeAnnotations_eq]
    simp only [mergeFrom, List.foldl_append]
  rw [e]
  apply mergeFrom_absorb
  intro x hx ds hp d hd
  exact (C19_derives_exact a d).mpr (Or.inr ⟨x, hx, ds, hp, hd⟩)

/-! ### From impls -/

/-- one From impl for each alternative whose payload type is unique within the CHOICE, and no other -/
theorem C19_from_impls_exact (e v t : String) (alts : List (String × String)) :
    Item.fromImpl e v t ∈ fromImplsOf e alts ↔ (v, t) ∈ alts ∧ alts.countP (fun b => b.2 == t) = 1 := by
  simp only [fromImplsOf, List.mem_map, List.mem_filter, beq_iff_eq]
  constructor
  · rintro ⟨⟨v', t'⟩, ⟨hm, hc⟩, he⟩
    simp only [Item.fromImpl.injEq, true_and] at he
    obtain ⟨rfl, rfl⟩ := he
    exact ⟨hm, hc⟩
  · rintro ⟨hm, hc⟩
    exact ⟨(v, t), ⟨hm, hc⟩, rfl⟩

/-- the generated impls are coherent: no payload type gets two impls -/
theorem C19_from_impls_coherent (alts : List (String × String)) :
    (((alts.filter fun a => alts.countP (fun b => b.2 == a.2) == 1)).map (·.2)).Nodup := by
  rw [List.nodup_iff_count]
  intro t
  by_cases ht : t ∈ ((alts.filter fun a => alts.countP (fun b => b.2 == a.2) == 1)).map (·.2)
  · obtain ⟨a, ha, rfl⟩ := List.mem_map.mp ht
    have hc : alts.countP (fun b => b.2 == a.2) = 1 := by
      have := (List.mem_filter.mp ha).2
      simpa using this
    have hsub : ((alts.filter fun a => alts.countP (fun b => b.2 == a.2) == 1).map (·.2)).Sublist (alts.map (·.2)) :=
      (List.filter_sublist).map _
    have h1 := hsub.count_le a.2
    have h2 : (alts.map (·.2)).count a.2 = alts.countP (fun b => b.2 == a.2) := by
      rw [List.count, List.countP_map]; rfl
    omega
  · rw [List.count_eq_zero_of_not_mem ht]; omega

/-! ### only the documented aspects change -/

theorem stripItem_decorate (c : Config) (mg : List String × List String) (i : Item) :
    (decorateItem c mg i).filterMap stripItem = (stripItem i).toList := by
  cases i with
  | ty n ds o rest choice alts =>
    simp only [decorateItem, List.filterMap_cons, stripItem, Option.toList]
    congr 1
    split
    · simp only [fromImplsOf, List.filterMap_map]
      apply List.filterMap_eq_nil_iff.mpr
      intro a _; rfl
    · rfl
  | fromImpl e v t => rfl
  | lazy n t i f => rfl
  | other t => rfl

/-- Type definitions, tags, constraints and values are identical across configurations:
    erasing derives, user attributes, the lazy flavour and From impls, the output under ANY configuration
    equals the output under the default one. -/
theorem C19_only_documented_aspects (c : Config) (m : Module) : strip (decorate c m) = strip m := by
  simp only [strip, decorate]
  induction m.items with
  | nil => rfl
  | cons i is ih =>
    simp only [List.flatMap_cons, List.filterMap_append, ih, stripItem_decorate]
    cases h : stripItem i <;> simp [Option.toList, h]

/-- uses = builtin part (depends on no_std only) ++ custom imports ++ import part (depends on wildcard only) -/
theorem C19_uses_decomposition (c : Config) (m : Module) :
    (decorate c m).uses =
      ((m.uses.filter fun u => !isImportUse u).map fun u => if u == lazyUse false then lazyUse c.noStd else u)
      ++ c.customImports.map squeeze
      ++ ((m.uses.filter isImportUse).map fun u => if c.wildcard then wildcardOf u else u) := rfl

/-- `default_wildcard_imports`, `custom_imports` and `opaque_open_types` do not touch any item -/
theorem C19_items_frame (c : Config) (w o : Bool) (ci : List String) (m : Module) :
    (decorate { c with wildcard := w, opaqueOpen := o, customImports := ci } m).items = (decorate c m).items := rfl

/-- `generate_from_impls`, `type_annotations` and `opaque_open_types` do not touch any use line -/
theorem C19_uses_frame (c : Config) (f o : Bool) (a : List String) (m : Module) :
    (decorate { c with fromImpls := f, opaqueOpen := o, annotations := a } m).uses = (decorate c m).uses := rfl

def isFromImpl : Item → Bool
  | .fromImpl _ _ _ => true
  | _ => false

/-- without `generate_from_impls` no From impl is added -/
theorem C19_no_from_impls_when_off (c : Config) (m : Module) (h : c.fromImpls = false) :
    ∀ i ∈ (decorate c m).items, isFromImpl i = true → i ∈ m.items := by
  intro i hi hf
  simp only [decorate, List.mem_flatMap] at hi
  obtain ⟨j, hj, hij⟩ := hi
  cases j with
  | ty n ds o rest choice alts =>
    simp only [decorateItem, h, Bool.false_and, Bool.false_eq_true, if_false, List.mem_singleton] at hij
    subst hij; cases hf
  | fromImpl e v t => simp only [decorateItem, List.mem_singleton] at hij; subst hij; exact hj
  | lazy n t i' f => simp only [decorateItem, List.mem_singleton] at hij; subst hij; cases hf
  | other t => simp only [decorateItem, List.mem_singleton] at hij; subst hij; exact hj

/- non-vacuity (a test, evaluated by the compiler, not a theorem): a CHOICE with a repeated payload type, a lazy static, wildcard + no_std + From impls + extra derives -/
#guard
    let m : Module := ⟨"m", ["core::borrow::Borrow", "std::sync::LazyLock", "rasn::prelude::*", "super::p::{A,B}"],
      [.ty "C" ["AsnType", "Debug", "Clone", "Decode", "Encode", "PartialEq", "Eq", "Hash"] [] "body" true [("a", "u8"), ("b", "bool"), ("c", "u8")],
       .lazy "V" "Integer" "Integer::from(1)" false]⟩
    let c : Config := { wildcard := true, fromImpls := true, noStd := true, customImports := ["my :: path"],
                        annotations := ["#[derive(Eq, Hash, PartialOrd)]", "# [ derive ( PartialOrd ,, Ord ) ]", "#[serde(x)]"] }
    decorate c m == ⟨"m", ["core::borrow::Borrow", "lazy_static::lazy_static", "rasn::prelude::*", "my::path", "super::p::{*}"],
      [.ty "C" ["AsnType", "Debug", "Clone", "Decode", "Encode", "PartialEq", "Eq", "Hash", "PartialOrd", "Ord"] ["#[serde(x)]"] "body" true [("a", "u8"), ("b", "bool"), ("c", "u8")],
       .fromImpl "C" "b" "bool",
       .lazy "V" "Integer" "Integer::from(1)" true]⟩

end Props.C19

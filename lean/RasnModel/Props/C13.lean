import RasnModel.Lexer.Trivia
/-
  C13 — white space and comments between tokens do not matter (scanner part).
  Model: Lexer/Trivia.lean, tied to `skip_ws_and_comments` through the guarded hook
  `verif_hooks::skip_trivia`. Whether every combinator of the grammar is wrapped in the skipper is
  not a theorem: it is decided by re-layout of whole inputs (oracle).
-/
namespace Props.C13
open Lexer.Trivia

/-- no adjacent pair `a b` -/
def noPair (a b : Char) : List Char → Bool
  | x :: y :: cs => !(x == a && y == b) && noPair a b (y :: cs)
  | _ => true

theorem noPair_tail {a b x : Char} {cs : List Char} (h : noPair a b (x :: cs) = true) : noPair a b cs = true := by
  cases cs with
  | nil => rfl
  | cons y cs => simp only [noPair, Bool.and_eq_true] at h; exact h.2

theorem noPair_head {a b : Char} {cs : List Char} (h : noPair a b (a :: b :: cs) = true) : False := by
  simp [noPair] at h

/-! ### lengths and fuel -/

theorem dropWs_length : ∀ (s : List Char), (dropWs s).length ≤ s.length
  | [] => Nat.le_refl _
  | c :: cs => by
    unfold dropWs
    split
    · exact Nat.le_succ_of_le (dropWs_length cs)
    · exact Nat.le_refl _

theorem lineEnd_length (s : List Char) : (lineEnd s).length ≤ s.length := by
  fun_induction lineEnd s
  all_goals (try simp only [List.length_cons])
  all_goals omega

theorem blockEnd_length (d : Nat) (s r : List Char) (h : blockEnd d s = some r) : r.length ≤ s.length := by
  fun_induction blockEnd d s generalizing r
  all_goals first
    | (cases h; done)
    | (cases h; simp only [List.length_cons]; omega)
    | (rename_i ih; have := ih r h; simp only [List.length_cons]; omega)

theorem skip_succ : ∀ (f : Nat) (s : List Char), s.length ≤ f → skip (f + 1) s = skip f s := by
  intro f
  induction f with
  | zero =>
    intro s h
    have : s = [] := List.eq_nil_of_length_eq_zero (Nat.le_zero.mp h)
    subst this
    rfl
  | succ f ih =>
    intro s h
    have hd := dropWs_length s
    show (match dropWs s with
      | '/' :: '*' :: r => (match blockEnd 1 r with | some r' => skip (f + 1) r' | none => '/' :: '*' :: r)
      | '-' :: '-' :: r => skip (f + 1) (lineEnd r)
      | r => r) =
      (match dropWs s with
      | '/' :: '*' :: r => (match blockEnd 1 r with | some r' => skip f r' | none => '/' :: '*' :: r)
      | '-' :: '-' :: r => skip f (lineEnd r)
      | r => r)
    split
    · next r hr =>
      rw [hr] at hd
      simp only [List.length_cons] at hd
      cases hb : blockEnd 1 r with
      | none => rfl
      | some r' =>
        have := blockEnd_length 1 r r' hb
        exact ih r' (by omega)
    · next r hr =>
      rw [hr] at hd
      simp only [List.length_cons] at hd
      have := lineEnd_length r
      exact ih _ (by omega)
    · rfl

theorem skip_add (s : List Char) : ∀ (k : Nat), skip (s.length + k) s = skip s.length s
  | 0 => rfl
  | k + 1 => by
    rw [← Nat.add_assoc, skip_succ (s.length + k) s (Nat.le_add_right _ _)]
    exact skip_add s k

theorem skip_ge (s : List Char) (f : Nat) (h : s.length ≤ f) : skip f s = skipAll s := by
  obtain ⟨k, rfl⟩ := Nat.exists_eq_add_of_le h
  exact skip_add s k

/-! ### single pieces of trivia -/

theorem line_step (f : Nat) (r : List Char) : skip (f + 1) ('-' :: '-' :: r) = skip f (lineEnd r) := by
  rw [skip]
  have : dropWs ('-' :: '-' :: r) = '-' :: '-' :: r := by
    simp only [dropWs, show isWs '-' = false from by decide, Bool.false_eq_true, if_false]
  rw [this]
  rfl

theorem block_step (f : Nat) (r r' : List Char) (h : blockEnd 1 r = some r') : skip (f + 1) ('/' :: '*' :: r) = skip f r' := by
  rw [skip]
  have : dropWs ('/' :: '*' :: r) = '/' :: '*' :: r := by
    simp only [dropWs, show isWs '/' = false from by decide, Bool.false_eq_true, if_false]
  rw [this]
  simp only [h]


theorem dropWs_append (w s : List Char) (hw : ∀ c ∈ w, isWs c = true) : dropWs (w ++ s) = dropWs s := by
  induction w with
  | nil => rfl
  | cons c cs ih =>
    have hc := hw c List.mem_cons_self
    simp only [List.cons_append, dropWs, hc, if_true]
    exact ih (fun x hx => hw x (List.mem_cons_of_mem _ hx))

theorem skip_ws_append (f : Nat) (w s : List Char) (hw : ∀ c ∈ w, isWs c = true) : skip f (w ++ s) = skip f s := by
  cases f with
  | zero => simp only [skip, dropWs_append w s hw]
  | succ f => simp only [skip, dropWs_append w s hw]

/-- any white space (spaces, tabs, LF, CR LF, in any amount) in front of `s` is skipped -/
theorem C13_whitespace (w s : List Char) (hw : ∀ c ∈ w, isWs c = true) : skipAll (w ++ s) = skipAll s := by
  unfold skipAll
  rw [skip_ws_append _ w s hw]
  exact skip_ge s _ (by simp)

theorem lineEnd_eol : ∀ (body s : List Char), (∀ c ∈ body, c ≠ '\n') → noPair '-' '-' body = true →
    lineEnd (body ++ '\n' :: s) = '\n' :: s := by
  intro body
  induction body with
  | nil => intro s _ _; rfl
  | cons c cs ih =>
    intro s hn hp
    have hc : c ≠ '\n' := hn c List.mem_cons_self
    rw [List.cons_append, lineEnd.eq_4]
    · exact ih s (fun x hx => hn x (List.mem_cons_of_mem _ hx)) (noPair_tail hp)
    · exact fun h => hc h
    · intro cs1 hc1 he
      subst hc1
      cases cs with
      | nil => simp at he
      | cons d cs' =>
        simp only [List.cons_append, List.cons.injEq] at he
        obtain ⟨rfl, _⟩ := he
        exact noPair_head hp

theorem lineEnd_inline : ∀ (body s : List Char), (∀ c ∈ body, c ≠ '\n') → noPair '-' '-' body = true →
    body.getLast? ≠ some '-' → lineEnd (body ++ '-' :: '-' :: s) = s := by
  intro body
  induction body with
  | nil => intro s _ _ _; rfl
  | cons c cs ih =>
    intro s hn hp hl
    have hc : c ≠ '\n' := hn c List.mem_cons_self
    rw [List.cons_append, lineEnd.eq_4]
    · apply ih s (fun x hx => hn x (List.mem_cons_of_mem _ hx)) (noPair_tail hp)
      cases cs with
      | nil => simp
      | cons d cs' => simpa [List.getLast?_cons_cons] using hl
    · exact fun h => hc h
    · intro cs1 hc1 he
      subst hc1
      cases cs with
      | nil => simp at hl
      | cons d cs' =>
        simp only [List.cons_append, List.cons.injEq] at he
        obtain ⟨rfl, _⟩ := he
        exact noPair_head hp

/-- a one-line comment that runs to the end of the line -/
theorem C13_line_comment_eol (body s : List Char) (hn : ∀ c ∈ body, c ≠ '\n') (hp : noPair '-' '-' body = true) :
    skipAll ('-' :: '-' :: (body ++ '\n' :: s)) = skipAll s := by
  show skip ((body ++ '\n' :: s).length + 1 + 1) _ = _
  rw [line_step, lineEnd_eol body s hn hp]
  have h2 := skip_ws_append ((body ++ '\n' :: s).length + 1) ['\n'] s (by intro c hc; simp at hc; subst hc; decide)
  simp only [List.singleton_append] at h2
  rw [h2]
  exact skip_ge s _ (by simp only [List.length_append, List.length_cons]; omega)

/-- a one-line comment closed by `--` on the same line -/
theorem C13_line_comment_inline (body s : List Char) (hn : ∀ c ∈ body, c ≠ '\n') (hp : noPair '-' '-' body = true)
    (hl : body.getLast? ≠ some '-') :
    skipAll ('-' :: '-' :: (body ++ '-' :: '-' :: s)) = skipAll s := by
  show skip ((body ++ '-' :: '-' :: s).length + 1 + 1) _ = _
  rw [line_step, lineEnd_inline body s hn hp hl]
  exact skip_ge s _ (by simp only [List.length_append, List.length_cons]; omega)

/-! ### block comments, nested to any depth -/

/-- a stretch of comment text without delimiters that cannot join up with a neighbouring delimiter -/
def Free (body : List Char) : Prop :=
  noPair '/' '*' body = true ∧ noPair '*' '/' body = true ∧ body.getLast? ≠ some '/' ∧ body.getLast? ≠ some '*'

theorem Free_tail {c : Char} {cs : List Char} (h : Free (c :: cs)) (hne : cs ≠ []) : Free cs := by
  obtain ⟨h1, h2, h3, h4⟩ := h
  refine ⟨noPair_tail h1, noPair_tail h2, ?_, ?_⟩
  · cases cs with
    | nil => exact absurd rfl hne
    | cons d cs' => simpa [List.getLast?_cons_cons] using h3
  · cases cs with
    | nil => exact absurd rfl hne
    | cons d cs' => simpa [List.getLast?_cons_cons] using h4

theorem blockEnd_seg : ∀ (body : List Char) (d : Nat) (t : List Char), Free body → blockEnd d (body ++ t) = blockEnd d t := by
  intro body
  induction body with
  | nil => intro d t _; rfl
  | cons c cs ih =>
    intro d t hf
    rw [List.cons_append, blockEnd.eq_5]
    · cases cs with
      | nil => rfl
      | cons e cs' => exact ih d t (Free_tail hf (by simp))
    · intro cs1 hc he
      subst hc
      cases cs with
      | nil => exact hf.2.2.1 (by simp)
      | cons e cs' =>
        simp only [List.cons_append, List.cons.injEq] at he
        obtain ⟨rfl, _⟩ := he
        exact noPair_head hf.1
    · intro cs1 _ hc he
      subst hc
      cases cs with
      | nil => exact hf.2.2.2 (by simp)
      | cons e cs' =>
        simp only [List.cons_append, List.cons.injEq] at he
        obtain ⟨rfl, _⟩ := he
        exact noPair_head hf.2.1
    · intro d' cs1 _ hc he
      subst hc
      cases cs with
      | nil => exact hf.2.2.2 (by simp)
      | cons e cs' =>
        simp only [List.cons_append, List.cons.injEq] at he
        obtain ⟨rfl, _⟩ := he
        exact noPair_head hf.2.1

inductive Piece where
  | seg (body : List Char)
  | opn
  | cls

def render : List Piece → List Char
  | [] => []
  | .seg b :: ps => b ++ render ps
  | .opn :: ps => '/' :: '*' :: render ps
  | .cls :: ps => '*' :: '/' :: render ps

/-- `Closes d ps`: read with `d` comments open, `ps` closes all of them with its last piece and not before -/
inductive Closes : Nat → List Piece → Prop where
  | done : Closes 1 [.cls]
  | seg {d : Nat} {body : List Char} {ps : List Piece} : Free body → Closes d ps → Closes d (.seg body :: ps)
  | opn {d : Nat} {ps : List Piece} : Closes (d + 1) ps → Closes d (.opn :: ps)
  | cls {d : Nat} {ps : List Piece} : 1 ≤ d → Closes d ps → Closes (d + 1) (.cls :: ps)

theorem blockEnd_closes {d : Nat} {ps : List Piece} (h : Closes d ps) (s : List Char) :
    blockEnd d (render ps ++ s) = some s := by
  induction h with
  | done => simp [render, blockEnd]
  | seg hf _ ih => simp only [render, List.append_assoc]; rw [blockEnd_seg _ _ _ hf]; exact ih
  | opn _ ih => simp only [render, List.cons_append, blockEnd.eq_2]; exact ih
  | cls hd _ ih =>
    simp only [render, List.cons_append, blockEnd.eq_4]
    rw [if_neg (by omega)]
    exact ih

/-- a block comment, nested to any depth, is skipped as a whole -/
theorem C13_block_comment (ps : List Piece) (h : Closes 1 ps) (s : List Char) :
    skipAll ('/' :: '*' :: (render ps ++ s)) = skipAll s := by
  show skip ((render ps ++ s).length + 1 + 1) _ = _
  rw [block_step _ _ _ (blockEnd_closes h s)]
  exact skip_ge s _ (by simp only [List.length_append]; omega)

/-! ### any mixture -/

/-- one piece of trivia as it can be placed between two tokens -/
inductive Trivia : List Char → Prop where
  | ws (w : List Char) : (∀ c ∈ w, isWs c = true) → Trivia w
  | lineEol (body : List Char) : (∀ c ∈ body, c ≠ '\n') → noPair '-' '-' body = true → Trivia ('-' :: '-' :: (body ++ ['\n']))
  | lineInline (body : List Char) : (∀ c ∈ body, c ≠ '\n') → noPair '-' '-' body = true → body.getLast? ≠ some '-' →
      Trivia ('-' :: '-' :: (body ++ ['-', '-']))
  | block (ps : List Piece) : Closes 1 ps → Trivia ('/' :: '*' :: render ps)

theorem skip_trivia_one {t : List Char} (h : Trivia t) (s : List Char) : skipAll (t ++ s) = skipAll s := by
  cases h
  case ws hw => exact C13_whitespace _ s hw
  case lineEol body hn hp =>
    have := C13_line_comment_eol body s hn hp
    simpa [List.append_assoc] using this
  case lineInline body hn hp hl =>
    have := C13_line_comment_inline body s hn hp hl
    simpa [List.append_assoc] using this
  case block ps hc =>
    have := C13_block_comment ps hc s
    simpa using this

/-- C13 (scanner): any sequence of white space and comments of the three forms, in front of any text,
    is skipped entirely: the next token is looked for exactly where it would be without them. -/
theorem C13_trivia_skipped : ∀ (ts : List (List Char)), (∀ t ∈ ts, Trivia t) → ∀ (s : List Char),
    skipAll (ts.flatten ++ s) = skipAll s
  | [], _, _ => rfl
  | t :: ts, h, s => by
    simp only [List.flatten_cons, List.append_assoc]
    rw [skip_trivia_one (h t List.mem_cons_self)]
    exact C13_trivia_skipped ts (fun x hx => h x (List.mem_cons_of_mem _ hx)) s

/-- and nothing of a token is eaten: text that starts with neither white space nor a comment opener stays -/
theorem C13_token_kept (c : Char) (cs : List Char) (hw : isWs c = false)
    (h1 : ¬ (c = '/' ∧ cs.head? = some '*')) (h2 : ¬ (c = '-' ∧ cs.head? = some '-')) :
    skipAll (c :: cs) = c :: cs := by
  unfold skipAll
  simp only [List.length_cons, skip, dropWs, hw, Bool.false_eq_true, if_false]
  split
  · next r hr =>
    simp only [List.cons.injEq] at hr
    exact absurd ⟨hr.1, by simp [hr.2]⟩ h1
  · next r hr =>
    simp only [List.cons.injEq] at hr
    exact absurd ⟨hr.1, by simp [hr.2]⟩ h2
  · rfl

/-- non-vacuity: `/* a /* nested */ b */` is a closing piece list; a comment with quotes, braces and keywords -/
example : Closes 1 [.seg " a ".toList, .opn, .seg " nested ".toList, .cls, .seg " END \"x\" { ".toList, .cls] := by
  refine .seg ?_ (.opn (.seg ?_ (.cls (by omega) (.seg ?_ .done)))) <;> (unfold Free; decide)

end Props.C13

import RasnModel.Gen.Names
import RasnModel.Props.C06
/-
  C01 — warning-free compilations yield bindings that type-check (the naming fact it rests on).
  Type-checking itself is rustc's and rasn-derive's business and is decided by `cargo check` (oracle).
  What is logic: a nested anonymous type is hoisted into an item whose name is computed by title-casing
  the name that the referring member already carries (`inner_name`, then `to_rust_title_case` again in
  the generate_* function). The bindings can only resolve if the second title-casing changes nothing.
  Name model: Gen/Names.lean (tied to the code by C16's correspondence).
-/
namespace Props.C01
open Gen.Names Extracted.Names

/-- the name the referring member uses -/
def referredName (parent member : List Char) : List Char := innerName member parent
/-- the name of the hoisted item: the same string title-cased once more -/
def hoistedName (parent member : List Char) : List Char := toTitle (innerName member parent)

/-- no hyphen, no underscore -/
def plain (s : List Char) : Prop := ∀ c ∈ s, c ≠ '_' ∧ c ≠ '-'

theorem hy_plain {c : Char} (h : c ≠ '-') : hy c = c := by simp [hy, h]

theorem foldl_titleStep_plain : ∀ (s acc : List Char), plain s → acc ≠ [] → acc.head? ≠ some '_' →
    s.foldl titleStep acc = s.reverse ++ acc := by
  intro s
  induction s with
  | nil => intro acc _ _ _; rfl
  | cons c t ih =>
    intro acc hp hne hh
    have hc := hp c List.mem_cons_self
    have step : titleStep acc c = c :: acc := by
      cases acc with
      | nil => exact absurd rfl hne
      | cons a r =>
        have : a ≠ '_' := fun e => hh (by simp [e])
        unfold titleStep
        split
        · next h => cases h
        · next h => cases h; exact absurd rfl this
        · rfl
    rw [List.foldl_cons, step, ih (c :: acc) (fun x hx => hp x (List.mem_cons_of_mem _ hx)) (by simp) (by simpa using hc.1)]
    simp

/-- title-casing leaves alone a name without hyphen / underscore that does not start with a lower-case letter -/
theorem titleFold_stable (s : List Char) (hp : plain s) (hf : ∀ c, s.head? = some c → c.isLower = false) :
    titleFold s = s := by
  unfold titleFold
  have hmap : s.map hy = s := by
    rw [List.map_congr_left (g := id)]
    · simp
    · intro c hc; exact hy_plain (hp c hc).2
  rw [hmap]
  cases s with
  | nil => rfl
  | cons c t =>
    have hl : c.isLower = false := hf c rfl
    have h1 : titleStep [] c = [c] := by simp [titleStep, hl]
    rw [List.foldl_cons, h1, foldl_titleStep_plain t [c] (fun x hx => hp x (List.mem_cons_of_mem _ hx)) (by simp)
      (by simpa using (hp c List.mem_cons_self).1)]
    simp

/-- C01 (hoisting), PARTIAL: when the parent's Rust name and the title-cased member name carry no underscore
    (i.e. neither had to be escaped as a keyword) and the parent starts with a capital, the hoisted item and
    the member that refers to it use the same name — for names of any length. -/
theorem C01_hoisted_name_agrees_partial (parent member : List Char)
    (hp : plain parent) (hm : plain (toTitle member))
    (hcap : ∀ c, parent.head? = some c → c.isLower = false) (hne : parent ≠ [])
    (hk : rustKeywords.contains (parent ++ toTitle member) = false) :
    hoistedName parent member = referredName parent member := by
  unfold hoistedName referredName innerName toTitle
  have hs : titleFold (parent ++ (if rustKeywords.contains (titleFold member) = true then 'R' :: '_' :: titleFold member else titleFold member))
      = parent ++ (if rustKeywords.contains (titleFold member) = true then 'R' :: '_' :: titleFold member else titleFold member) := by
    apply titleFold_stable
    · intro c hc
      rcases List.mem_append.mp hc with h | h
      · exact hp c h
      · exact hm c (by simpa [toTitle] using h)
    · intro c hc
      cases parent with
      | nil => exact absurd rfl hne
      | cons a r => simp only [List.cons_append, List.head?_cons, Option.some.injEq] at hc; subst hc; exact hcap a rfl
  simp only [hs]
  have hk' : rustKeywords.contains (parent ++ (if rustKeywords.contains (titleFold member) = true then 'R' :: '_' :: titleFold member else titleFold member)) = false := by
    simpa [toTitle] using hk
  simp only [hk', Bool.false_eq_true, if_false]

/-- FULL statement is false: a type named like a keyword is escaped with `R_`, and the hoisted item loses the underscore -/
theorem C01_keyword_parent_counterexample :
    referredName "R_Self".toList "in".toList = "R_SelfIn".toList ∧ hoistedName "R_Self".toList "in".toList = "RSelfIn".toList := by
  decide

/-- … the same for a member that title-cases to a keyword -/
theorem C01_keyword_member_counterexample :
    referredName "Holder".toList "self".toList = "HolderR_Self".toList ∧ hoistedName "Holder".toList "self".toList = "HolderRSelf".toList := by
  decide

/-- The member's Rust integer type (`int_type_token`, regenerated from source) and the return type of its
    `default = ".."` helper (the assignment path, `integer_constraints` / `int_type`, regenerated too) are
    chosen by two separate tables; a DEFAULT on a constrained INTEGER member only type-checks because they
    agree — for every finite range inside i128 (C06's theorem, restated where C01 depends on it). -/
theorem C01_default_fn_type_agrees (lo hi : Int) (h : lo ≤ hi)
    (hl : Gen.i128Min ≤ lo) (hh : hi ≤ Gen.i128Max) (ext : Bool) :
    Gen.assignmentToken [.range (some lo) (some hi) ext] = Extracted.IntType.intTypeToken (some lo) (some hi) ext :=
  Props.C06.C06_paths_agree_on_simple lo hi h hl hh ext

/-- non-vacuity -/
example : hoistedName "MySeq".toList "inner-part".toList = "MySeqInnerPart".toList := by decide

end Props.C01

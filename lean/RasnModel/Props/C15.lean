import RasnModel.Pv.Alphabet
import RasnModel.Spec.Alphabet
import RasnModel.Driver.C15
/-
  C15 — permitted-alphabet annotations denote exactly the FROM constraint.
  The five character tables and the type ↦ table match are REGENERATED from /repo
  (Extracted/Charsets.lean); `Alpha.*` is the hand model of per_visible.rs' alphabet code
  (Pv/Alphabet.lean); `Spec.Alphabet` is the reference semantics (X.680 §51.7, §50, §41).
-/
namespace Props.C15
open Alpha Spec.Alphabet Driver.C15

-- tables -------------------------------------------------------------------------------------------

/-- the regenerated NumericString / PrintableString tables contain exactly the X.680 §41 characters
    (as sets; the PrintableString table is NOT in code-point order — see C15_printable_order_counterexample) -/
theorem C15_tables_numeric_printable :
    (match Extracted.Charsets.tableOf "NumericString" with
      | .explicit cs => cs.all numericX680.contains && numericX680.all cs.contains && cs.length == numericX680.length
      | _ => false) = true ∧
    (match Extracted.Charsets.tableOf "PrintableString" with
      | .explicit cs => cs.all printableX680.contains && printableX680.all cs.contains && cs.length == printableX680.length
      | _ => false) = true := by decide

/-- VisibleString = ISO 646 cells 2/0–7/14, IA5String = 0–127, everything else the 0..0xFFFE catch-all -/
theorem C15_tables_intervals :
    (match Extracted.Charsets.tableOf "VisibleString" with | .interval 32 126 => true | _ => false) = true ∧
    (match Extracted.Charsets.tableOf "IA5String" with | .interval 0 127 => true | _ => false) = true ∧
    (match Extracted.Charsets.tableOf "BMPString" with | .interval 0 65534 => true | _ => false) = true ∧
    (match Extracted.Charsets.tableOf "UniversalString" with | .interval 0 65534 => true | _ => false) = true := by decide

-- non-known-multiplier types -----------------------------------------------------------------------

/-- string types that are not known-multiplier never get an alphabet annotation -/
theorem C15_non_known_multiplier (t : Table) (cs : List (FromForm × ASet)) (b : Bool) :
    fromAttr t false cs b = some [] ∨ fromAttr t false cs b = none := by
  unfold fromAttr
  split
  · right; rfl
  · left; rfl

-- sorting keeps the set -------------------------------------------------------------------------------

theorem mem_insertByKey (key : Subset → Nat) (x y : Subset) : ∀ l : List Subset, y ∈ insertByKey key x l ↔ y = x ∨ y ∈ l := by
  intro l
  induction l with
  | nil => simp [insertByKey]
  | cons z zs ih =>
    simp only [insertByKey]
    split
    · simp
    · simp only [List.mem_cons, ih]
      constructor
      · rintro (h | h | h)
        · exact Or.inr (Or.inl h)
        · exact Or.inl h
        · exact Or.inr (Or.inr h)
      · rintro (h | h | h)
        · exact Or.inr (Or.inl h)
        · exact Or.inl h
        · exact Or.inr (Or.inr h)

theorem mem_sortByKey (key : Subset → Nat) (y : Subset) (l : List Subset) : y ∈ sortByKey key l ↔ y ∈ l := by
  unfold sortByKey
  suffices ∀ acc, y ∈ l.foldl (fun acc x => insertByKey key x acc) acc ↔ y ∈ acc ∨ y ∈ l by
    simpa using this []
  induction l with
  | nil => intro acc; simp
  | cons x xs ih =>
    intro acc
    simp only [List.foldl_cons, ih, mem_insertByKey, List.mem_cons]
    constructor
    · rintro ((h | h) | h)
      · exact Or.inr (Or.inl h)
      · exact Or.inl h
      · exact Or.inr (Or.inr h)
    · rintro (h | h | h)
      · exact Or.inl (Or.inr h)
      · exact Or.inl (Or.inl h)
      · exact Or.inr h

/-- `finalize` only reorders: the annotation denotes the same set before and after sorting -/
theorem C15_sort_keeps_set (ty : String) (subs : List Subset) (c : Nat) :
    memAttr ty (sortByKey subsetKey subs) c = memAttr ty subs c := by
  simp only [memAttr]
  congr 1
  rw [Bool.eq_iff_iff]
  simp only [List.any_eq_true]
  constructor
  · rintro ⟨s, hs, h⟩; exact ⟨s, (mem_sortByKey _ _ _).mp hs, h⟩
  · rintro ⟨s, hs, h⟩; exact ⟨s, (mem_sortByKey _ _ _).mpr hs, h⟩

-- exactness on Dom: one standalone FROM whose operands are joined by `|` -----------------------------------

/-- a string operand of the partial theorem: not TIME-like, all characters in the table -/
def strOk (t : Table) (s : List Nat) : Bool := !isTString s && s.all t.contains

/-- single strings: the subsets denote exactly the characters of the string (any table) -/
theorem str_exact (ty : String) (t : Table) (s : List Nat) (h : strOk t s = true) (c : Nat) :
    ∃ subs, subsetsOfElem t (.str s false) = .ok subs ∧ memAttr ty subs c = memElem ty (.str s false) c := by
  simp only [strOk, Bool.and_eq_true, Bool.not_eq_true'] at h
  refine ⟨s.map Subset.single, by simp [subsetsOfElem, h.1, h.2], ?_⟩
  simp only [memAttr, memElem]
  congr 1
  rw [Bool.eq_iff_iff]
  simp only [List.any_eq_true, List.mem_map, List.contains_iff_mem]
  constructor
  · rintro ⟨x, ⟨d, hd, rfl⟩, hx⟩; simp only [beq_iff_eq] at hx; rw [hx]; exact hd
  · intro hc; exact ⟨.single c, ⟨c, hc, rfl⟩, by simp⟩

/-- closed ranges on a surrogate-free interval table (VisibleString, IA5String): index and get are
    inverse, so the emitted range is the written one -/
theorem range_exact (ty : String) (lo hi l h : Nat) (hs : hi < 0xD800) (h1 : lo ≤ l) (h2 : l ≤ h) (h3 : h ≤ hi) (c : Nat) :
    ∃ subs, subsetsOfElem (.interval lo hi) (.range (some l) (some h) false) = .ok subs ∧
      memAttr ty subs c = memElem ty (.range (some l) (some h) false) c := by
  have hl : (Table.interval lo hi).index l = some (l - lo) := by
    simp only [Table.index, isSurrogate]
    have e1 : (decide (l < lo) || decide (hi < l) || (decide (0xD800 ≤ l) && decide (l ≤ 0xDFFF))) = false := by
      have a : ¬ l < lo := by omega
      have b : ¬ hi < l := by omega
      have c : ¬ 0xD800 ≤ l := by omega
      simp [a, b, c]
    have e2 : (decide (lo ≤ 0xD800) && decide (0xDFFF < l)) = false := by
      have c : ¬ 0xDFFF < l := by omega
      simp [c]
    simp [e1, e2]
  have hh : (Table.interval lo hi).index h = some (h - lo) := by
    simp only [Table.index, isSurrogate]
    have e1 : (decide (h < lo) || decide (hi < h) || (decide (0xD800 ≤ h) && decide (h ≤ 0xDFFF))) = false := by
      have a : ¬ h < lo := by omega
      have b : ¬ hi < h := by omega
      have c : ¬ 0xD800 ≤ h := by omega
      simp [a, b, c]
    have e2 : (decide (lo ≤ 0xD800) && decide (0xDFFF < h)) = false := by
      have c : ¬ 0xDFFF < h := by omega
      simp [c]
    simp [e1, e2]
  have gl : (Table.interval lo hi).get (l - lo) = some l := by
    simp only [Table.get]
    have e : lo + (l - lo) = l := by omega
    have : ¬ (lo ≤ 0xD800 ∧ 0xD800 ≤ l) := by omega
    simp [e, this]; omega
  have gh : (Table.interval lo hi).get (h - lo) = some h := by
    simp only [Table.get]
    have e : lo + (h - lo) = h := by omega
    have : ¬ (lo ≤ 0xD800 ∧ 0xD800 ≤ h) := by omega
    simp [e, this]; omega
  refine ⟨[.range (some l) (some h)], ?_, ?_⟩
  · simp only [subsetsOfElem, hl, hh, gl, gh]
    have : ¬ (l - lo > h - lo) := by omega
    simp [this]
  · simp [memAttr, memElem]

/-- non-vacuity + the sweep's typical shapes, decided on the regenerated tables -/
example : fromAttr (tableFor "VisibleString") true [(.standalone, .op (.str [97, 98] false) .union (.elem (.range (some 99) (some 100) false)))] =
    some [.single 97, .single 98, .range (some 99) (some 100)] := by decide

-- where the code is wrong: counterexamples (each is a known finding class) ---------------------------------

/-- `^` inside a standalone FROM is flattened into a union: `FROM ("ab" ^ "bc")` ↦ a, b, b, c -/
theorem C15_flatten_counterexample :
    fromAttr (tableFor "IA5String") true [(.standalone, .op (.str [97, 98] false) .inter (.elem (.str [98, 99] false)))] =
      some [.single 97, .single 98, .single 98, .single 99] ∧
    memSpec "IA5String" [⟨.str [97, 98] false, [(.inter, .str [98, 99] false)]⟩] 97 = false := by decide

/-- serial FROM constraints are appended (unioned) instead of intersected -/
theorem C15_serial_counterexample :
    fromAttr (tableFor "IA5String") true [(.standalone, .elem (.str [97, 98] false)), (.standalone, .elem (.str [98, 99] false))] =
      some [.single 97, .single 98, .single 98, .single 99] ∧
    memSpec "IA5String" [⟨.str [97, 98] false, []⟩, ⟨.str [98, 99] false, []⟩] 97 = false := by decide

/-- inside `FROM(..) ^ SIZE(..)` two disjoint ranges are folded to their hull -/
theorem C15_hull_counterexample :
    fromAttr (tableFor "IA5String") true [(.withSize, .op (.range (some 97) none false) .union (.elem (.range none (some 99) false)))] =
      some [.range (some 0) (some 127)] ∧
    True := by decide

/-- a string operand over `0-9+-:.,/CDHMRPSTWYZ` is lexed as a TIME value and contributes nothing -/
theorem C15_time_string_counterexample :
    fromAttr (tableFor "PrintableString") true [(.standalone, .elem (.str [49, 90, 89] false))] = some [] ∧
    memSpec "PrintableString" [⟨.str [49, 90, 89] false, []⟩] 65 = false := by decide

/-- PrintableString ranges follow the table's order (upper, lower, digits, punctuation), not code points:
    `"0".."Z"` is rejected -/
theorem C15_printable_order_counterexample :
    fromAttr (tableFor "PrintableString") true [(.standalone, .elem (.range (some 48) (some 90) false))] = none := by decide

-- whole expressions: unions of any number of exactly-rendered operands --------------------------------------


theorem flatten_nestFrom (e : AElem) : ∀ (rest : List (Pv.Op × AElem)), flatten (nestFrom e rest) = e :: rest.map (·.2) := by
  intro rest
  induction rest generalizing e with
  | nil => rfl
  | cons p r ih => obtain ⟨o, e'⟩ := p; simp only [nestFrom, flatten, ih, List.map_cons]

/-- an operand whose own subsets denote exactly the operand (strings: `str_exact`; closed ranges on a
    surrogate-free interval table: `range_exact`) -/
def GoodElem (ty : String) (t : Table) (e : AElem) : Prop :=
  ∃ subs, subsetsOfElem t e = .ok subs ∧ ∀ c, memAttr ty subs c = memElem ty e c

theorem memAttr_append (ty : String) (a b : List Subset) (c : Nat) :
    memAttr ty (a ++ b) c = (memAttr ty a c || memAttr ty b c) := by
  simp only [memAttr, List.any_append]
  cases baseMem ty c <;> simp

theorem memAttr_nil (ty : String) (c : Nat) : memAttr ty [] c = false := by simp [memAttr]

/-- one step of `subsetsOfFrom`'s fold -/
def flatStep (t : Table) (acc : Res (List Subset)) (e : AElem) : Res (List Subset) :=
  match acc, subsetsOfElem t e with
  | .ok a, .ok b => .ok (a ++ b)
  | .ok a, .none => .ok a
  | .err, _ => .err
  | _, .err => .err
  | .none, x => x

theorem subsetsOfFrom_eq (t : Table) (s : ASet) : subsetsOfFrom t s = (flatten s).foldl (flatStep t) (.ok []) := rfl

/-- the flatten fold over good operands appends their subsets -/
theorem fold_good (ty : String) (t : Table) : ∀ (es : List AElem) (acc : List Subset), (∀ e ∈ es, GoodElem ty t e) →
    ∃ subs, es.foldl (flatStep t) (Res.ok acc) = Res.ok subs ∧
      ∀ c, memAttr ty subs c = (memAttr ty acc c || es.any (fun e => memElem ty e c)) := by
  intro es
  induction es with
  | nil => intro acc _; exact ⟨acc, rfl, fun c => by simp⟩
  | cons e es ih =>
    intro acc h
    obtain ⟨sb, hs, hm⟩ := h e List.mem_cons_self
    obtain ⟨subs, hf, hmem⟩ := ih (acc ++ sb) (fun x hx => h x (List.mem_cons_of_mem _ hx))
    refine ⟨subs, ?_, ?_⟩
    · have : flatStep t (Res.ok acc) e = Res.ok (acc ++ sb) := by simp only [flatStep, hs]
      rw [List.foldl_cons, this]; exact hf
    · intro c
      rw [hmem c, memAttr_append, hm c, List.any_cons, Bool.or_assoc]

/-- the X.680 reading of a chain whose operators are all `|` -/
theorem memChain_union (ty : String) (c : Nat) : ∀ (first : AElem) (rest : List (Pv.Op × AElem)),
    (∀ p ∈ rest, p.1 = Pv.Op.union) →
    memChain ty ⟨first, rest⟩ c = (first :: rest.map (·.2)).any (fun e => memElem ty e c) := by
  intro first rest
  simp only [memChain]
  induction rest generalizing first with
  | nil => intro _; simp [parseF]
  | cons p r ih =>
    intro h
    obtain ⟨o, e⟩ := p
    have ho : o = Pv.Op.union := h (o, e) List.mem_cons_self
    subst ho
    have := ih e (fun q hq => h q (List.mem_cons_of_mem _ hq))
    simp only [parseF, List.any_cons, List.all_cons, List.all_nil, Bool.and_true, List.map_cons] at this ⊢
    rw [this]

/-- C15 (whole expressions), PARTIAL: a FROM constraint that is a union of any number of operands, each of
    which is rendered exactly on its own, is rendered exactly as a whole — the annotation denotes precisely the
    characters the X.680 reading of the constraint permits. -/
theorem C15_union_chain_exact_partial (ty : String) (t : Table) (first : AElem) (rest : List (Pv.Op × AElem))
    (hu : ∀ p ∈ rest, p.1 = Pv.Op.union) (hg : ∀ e ∈ first :: rest.map (·.2), GoodElem ty t e) :
    ∃ subs, subsetsOfFrom t (nestFrom first rest) = .ok subs ∧
      ∀ c, memAttr ty (sortByKey subsetKey subs) c = (baseMem ty c && memChain ty ⟨first, rest⟩ c) := by
  obtain ⟨subs, hf, hm⟩ := fold_good ty t (first :: rest.map (·.2)) [] hg
  refine ⟨subs, ?_, ?_⟩
  · rw [subsetsOfFrom_eq, flatten_nestFrom]; exact hf
  · intro c
    rw [C15_sort_keeps_set, hm c, memAttr_nil, Bool.false_or, memChain_union ty c first rest hu]
    -- every memElem already carries the base-alphabet test
    cases hb : baseMem ty c
    · simp only [Bool.false_and]
      rw [List.any_eq_false]
      intro e _
      simp [memElem, hb]
    · simp




theorem good_of_pointwise (ty : String) (t : Table) (e : AElem)
    (h : ∀ c, ∃ subs, subsetsOfElem t e = .ok subs ∧ memAttr ty subs c = memElem ty e c) : GoodElem ty t e := by
  obtain ⟨subs0, h0, _⟩ := h 0
  refine ⟨subs0, h0, fun c => ?_⟩
  obtain ⟨subs, h1, h2⟩ := h c
  rw [h0] at h1
  cases h1
  exact h2

/-- strings whose characters are in the table (and that the lexer does not take for a TIME value) are good operands -/
theorem good_str (ty : String) (t : Table) (s : List Nat) (h : strOk t s = true) : GoodElem ty t (.str s false) :=
  good_of_pointwise ty t _ (fun c => str_exact ty t s h c)

/-- closed ranges inside a surrogate-free interval table are good operands -/
theorem good_range (ty : String) (lo hi l h : Nat) (hs : hi < 0xD800) (h1 : lo ≤ l) (h2 : l ≤ h) (h3 : h ≤ hi) :
    GoodElem ty (.interval lo hi) (.range (some l) (some h) false) :=
  good_of_pointwise ty _ _ (fun c => range_exact ty lo hi l h hs h1 h2 h3 c)


end Props.C15

import RasnModel.Proofs.Names
import RasnModel.Proofs.LexNames
/-
  C16 — generated identifiers are legal and keep the ASN.1 name recoverable.
  `rustKeywords` is REGENERATED from /repo (Extracted/Names.lean): the table facts below are
  re-decided against today's table on every run.
-/
namespace Props.C16
open Gen.Names Spec.Ident Extracted.Names Proofs.Names

/-- every strict/reserved keyword of edition 2021 and every weak keyword that lexes as an identifier is escaped -/
theorem C16_keywords_complete :
    ∀ k ∈ strictReserved2021 ++ weak2021, k ∈ rustKeywords := by decide

/-- the escape prefixes never produce another keyword -/
theorem C16_prefix_never_keyword :
    ∀ k ∈ rustKeywords, ('r' :: '_' :: k) ∉ strictReserved2021 ∧ ('R' :: '_' :: k) ∉ strictReserved2021 := by decide

theorem cont_of_snakeOut {d : Char} (h : snakeOut d = true) : identCont d = true :=
  all_mem f_snakeA_cont (snakeOut_mem h)

/-- `to_rust_snake_case` of any ASN.1 name is a legal, non-keyword Rust identifier -/
theorem C16_snake_legal (s : List Char) (h : Asn1Ident s) : LegalRustIdent (toSnake s) := by
  cases s with
  | nil => simp [Asn1Ident] at h
  | cons c t =>
    simp only [Asn1Ident] at h
    obtain ⟨hd, r, e, hh, hall⟩ := snake_core c t h.1 h.2.1
    simp only [toSnake, e]
    have hstart := all_mem f_lower_start hh
    simp only [Bool.and_eq_true, bne_iff_ne] at hstart
    split
    · rename_i hk
      simp only [LegalRustIdent]
      refine ⟨by decide, ?_, by simp, ?_⟩
      · intro d hd'
        rcases List.mem_cons.mp hd' with e' | e'
        · rw [e']; decide
        · exact cont_of_snakeOut (hall d e')
      · have hk' : (hd :: r) ∈ rustKeywords := by simpa using hk
        exact (C16_prefix_never_keyword _ hk').1
    · rename_i hk
      simp only [LegalRustIdent]
      refine ⟨hstart.1, fun d hd' => cont_of_snakeOut (hall d (List.mem_cons_of_mem _ hd')), ?_, ?_⟩
      · intro hc; injection hc with h1 _; exact hstart.2 h1
      · exact not_reserved_of_not_kw (by simpa using hk)

/-- snake output is lower-case: only `a–z`, `0–9`, `_` (hyphens removed) -/
theorem C16_snake_chars (s : List Char) (h : Asn1Ident s) : ∀ d ∈ toSnake s, snakeOut d = true := by
  cases s with
  | nil => simp [Asn1Ident] at h
  | cons c t =>
    simp only [Asn1Ident] at h
    obtain ⟨hd, r, e, hh, hall⟩ := snake_core c t h.1 h.2.1
    simp only [toSnake, e]
    split
    · intro d hd'
      rcases List.mem_cons.mp hd' with e' | e'
      · rw [e']; decide
      · rcases List.mem_cons.mp e' with e' | e'
        · rw [e']; decide
        · exact hall d e'
    · exact hall

/-- shape of the snake string: a lower-case letter followed by snake characters -/
theorem snake_shape (s : List Char) (h : Asn1Ident s) :
    ∃ a r, toSnake s = a :: r ∧ a ∈ lowerLetters ∧ ∀ d ∈ r, snakeOut d = true := by
  cases s with
  | nil => simp [Asn1Ident] at h
  | cons c t =>
    simp only [Asn1Ident] at h
    obtain ⟨hd, r, e, hh, hall⟩ := snake_core c t h.1 h.2.1
    simp only [toSnake, e]
    split
    · refine ⟨'r', _, rfl, by decide, ?_⟩
      intro d hd'
      rcases List.mem_cons.mp hd' with e' | e'
      · rw [e']; decide
      · exact hall d e'
    · exact ⟨hd, r, rfl, hh, fun d hd' => hall d (List.mem_cons_of_mem _ hd')⟩

theorem cont_of_constOut {d : Char} (hd : constOut d = true) : identCont d = true := by
  simp only [constOut, Bool.or_eq_true, beq_iff_eq] at hd
  simp only [identCont, isLetter, Bool.or_eq_true, beq_iff_eq]
  rcases hd with (hd | hd) | hd
  · exact Or.inl (Or.inl (Or.inr hd))
  · exact Or.inl (Or.inr hd)
  · exact Or.inr hd

/-- `to_rust_const_case` of any ASN.1 name is a legal identifier in upper snake case -/
theorem C16_const_legal (s : List Char) (h : Asn1Ident s) :
    LegalRustIdent (toConst s) ∧ ∀ d ∈ toConst s, constOut d = true := by
  obtain ⟨a, r, e, ha, hr⟩ := snake_shape s h
  have hau : a.toUpper ∈ upperLetters := contains_mem (all_mem f_upper_of_lower ha)
  have hstart := all_mem f_upper_start hau
  simp only [Bool.and_eq_true, bne_iff_ne] at hstart
  have hchars : ∀ d ∈ (a :: r).map Char.toUpper, constOut d = true ∧ lowerLetters.contains d = false := by
    intro d hd
    rcases List.mem_map.mp hd with ⟨x, hx, ex⟩
    have hxs : snakeOut x = true := by
      rcases List.mem_cons.mp hx with e' | e'
      · rw [e']; simp only [snakeOut, Bool.or_eq_true]; left; left; simpa using ha
      · exact hr x e'
    have := all_mem f_upper_of_snakeA (snakeOut_mem hxs)
    simp only [Bool.and_eq_true, Bool.not_eq_true'] at this
    rw [← ex]; exact this
  simp only [toConst, e]
  refine ⟨?_, fun d hd => (hchars d hd).1⟩
  simp only [List.map_cons, LegalRustIdent]
  refine ⟨hstart.1, ?_, ?_, ?_⟩
  · intro d hd; exact cont_of_constOut (hchars d (by simp only [List.map_cons]; exact List.mem_cons_of_mem _ hd)).1
  · intro e'; injection e' with e1 _; exact hstart.2 e1
  · intro hm
    have := List.all_eq_true.mp f_res_has_lower _ hm
    simp only [List.any_eq_true] at this
    obtain ⟨x, hx, hlow⟩ := this
    have := (hchars x (by simpa using hx)).2
    rw [this] at hlow; cases hlow

/-- `s.map hy` either is `s` (no hyphen) or contains an underscore -/
theorem map_hy_cases : ∀ s : List Char, s.map hy = s ∨ '_' ∈ s.map hy := by
  intro s
  induction s with
  | nil => left; rfl
  | cons c t ih =>
    by_cases hc : c = '-'
    · right; subst hc; simp [hy]
    · rcases ih with e | e
      · left; simp [hy, hc, e]
      · right; simp only [List.map_cons]; exact List.mem_cons_of_mem _ e

/-- `to_rust_enum_identifier` of any ASN.1 name is a legal identifier -/
theorem C16_enum_legal (s : List Char) (h : Asn1Ident s) : LegalRustIdent (toEnumIdent s) := by
  cases s with
  | nil => simp [Asn1Ident] at h
  | cons c t =>
    simp only [Asn1Ident] at h
    have hcl := isLetter_mem h.1
    have hall : ∀ d ∈ c :: t, asnChar d = true := by
      intro d hd
      rcases List.mem_cons.mp hd with e | e
      · rw [e]; exact letter_asnChar h.1
      · exact h.2.1 d e
    have hA := map_hy_A' hall
    have hcont : ∀ d ∈ (c :: t).map hy, identCont d = true := fun d hd => all_mem f_A'_cont (hA d hd)
    have hstart : identStart c = true ∧ c ≠ '_' := by
      simp only [letters, List.mem_append] at hcl
      rcases hcl with hcl | hcl
      · simpa using all_mem f_lower_start hcl
      · simpa using all_mem f_upper_start hcl
    simp only [toEnumIdent]
    split
    · rename_i hk
      simp only [LegalRustIdent]
      refine ⟨by decide, ?_, by simp, ?_⟩
      · intro d hd
        rcases List.mem_cons.mp hd with e | e
        · rw [e]; decide
        · exact hcont d e
      · have hk' : (c :: t) ∈ rustKeywords := by simpa using hk
        have := List.all_eq_true.mp f_Rprefix_hy _ hk'
        simpa using this
    · rename_i hk
      simp only [List.map_cons, hy_letter hcl, LegalRustIdent]
      refine ⟨hstart.1, ?_, ?_, ?_⟩
      · intro d hd
        exact hcont d (by simp only [List.map_cons, hy_letter hcl]; exact List.mem_cons_of_mem _ hd)
      · intro e; injection e with e1 _; exact hstart.2 e1
      · rcases map_hy_cases (c :: t) with e | e
        · simp only [List.map_cons, hy_letter hcl] at e
          rw [e]; exact not_reserved_of_not_kw (by simpa using hk)
        · simp only [List.map_cons, hy_letter hcl] at e
          intro hm
          have h3 := List.all_eq_true.mp f_res_no_underscore _ hm
          have h4 : (c :: List.map hy t).contains '_' = true := by simpa using e
          rw [h4] at h3; cases h3

/-- invariant of the title-case fold (accumulator reversed): non-empty, identifier characters only,
    and its first-written character (last of the reversed list) is an upper- or lower-case letter -/
structure TitleInv (acc : List Char) : Prop where
  ne : acc ≠ []
  cont : ∀ d ∈ acc, identCont d = true
  first : ∀ h, acc.getLast? = some h → h ∈ letters

theorem titleStep_inv (acc : List Char) (c : Char) (hc : c ∈ A') (inv : TitleInv acc) : TitleInv (titleStep acc c) := by
  cases acc with
  | nil => exact absurd rfl inv.ne
  | cons a t =>
    by_cases ha : a = '_'
    · subst ha
      simp only [titleStep]
      -- t is non-empty because the first-written character is a letter, not '_'
      cases t with
      | nil =>
        exact absurd (inv.first '_' (by simp)) (by decide)
      | cons b t' =>
        refine ⟨by simp, ?_, ?_⟩
        · intro d hd
          rcases List.mem_cons.mp hd with e | e
          · rw [e]; exact all_mem f_A'_upper_cont hc
          · exact inv.cont d (List.mem_cons_of_mem _ e)
        · intro h hh
          apply inv.first h
          simpa [List.getLast?_cons_cons] using hh
    · have hstep : titleStep (a :: t) c = c :: a :: t := by
        simp only [titleStep]
        split
        · rename_i heq; cases heq
        · rename_i heq; injection heq with h1 _; exact absurd h1 ha
        · rfl
      rw [hstep]
      refine ⟨by simp, ?_, ?_⟩
      · intro d hd
        rcases List.mem_cons.mp hd with e | e
        · rw [e]; exact all_mem f_A'_cont hc
        · exact inv.cont d e
      · intro h hh
        apply inv.first h
        simpa [List.getLast?_cons_cons] using hh

theorem foldl_title_inv : ∀ (s acc : List Char), (∀ c ∈ s, c ∈ A') → TitleInv acc → TitleInv (s.foldl titleStep acc) := by
  intro s
  induction s with
  | nil => intro acc _ inv; simpa using inv
  | cons c t ih =>
    intro acc hs inv
    simp only [List.foldl_cons]
    exact ih _ (fun x hx => hs x (List.mem_cons_of_mem _ hx)) (titleStep_inv acc c (hs c List.mem_cons_self) inv)

theorem letters_cont {c : Char} (h : c ∈ letters) : identCont c = true ∧ identStart c = true ∧ c ≠ '_' := by
  simp only [letters, List.mem_append] at h
  rcases h with h | h
  · have := all_mem f_lower_start h
    simp only [Bool.and_eq_true, bne_iff_ne] at this
    refine ⟨?_, this.1, this.2⟩
    simp only [identCont, isLetter, Bool.or_eq_true]; left; left; left; simpa using h
  · have := all_mem f_upper_start h
    simp only [Bool.and_eq_true, bne_iff_ne] at this
    refine ⟨?_, this.1, this.2⟩
    simp only [identCont, isLetter, Bool.or_eq_true]; left; left; right; simpa using h

/-- the unescaped title-case string starts with a letter and has identifier characters only -/
theorem title_core (s : List Char) (h : Asn1Ident s) :
    ∃ a r, titleFold s = a :: r ∧ a ∈ letters ∧ ∀ d ∈ r, identCont d = true := by
  cases s with
  | nil => simp [Asn1Ident] at h
  | cons c t =>
    simp only [Asn1Ident] at h
    have hcl := isLetter_mem h.1
    have ht := map_hy_A' h.2.1
    have hfirst := all_mem f_letters_title_first hcl
    have inv0 : TitleInv (titleStep [] c) := by
      simp only [titleStep]
      split
      · rename_i hl; simp only [hl, if_true] at hfirst
        have hm : c.toUpper ∈ letters := by simp only [letters, List.mem_append]; exact Or.inr (contains_mem hfirst)
        exact ⟨by simp, by intro d hd; simp at hd; rw [hd]; exact (letters_cont hm).1, by intro x hx; simp at hx; rw [← hx]; exact hm⟩
      · exact ⟨by simp, by intro d hd; simp at hd; rw [hd]; exact (letters_cont hcl).1, by intro x hx; simp at hx; rw [← hx]; exact hcl⟩
    have inv := foldl_title_inv (t.map hy) _ ht inv0
    simp only [titleFold, List.map_cons, hy_letter hcl, List.foldl_cons]
    generalize (t.map hy).foldl titleStep (titleStep [] c) = acc at inv
    have hne := inv.ne
    have hrev : acc.reverse ≠ [] := by simpa using hne
    cases hr : acc.reverse with
    | nil => exact absurd hr hrev
    | cons a r =>
      refine ⟨a, r, rfl, ?_, ?_⟩
      · apply inv.first a
        have : acc = (a :: r).reverse := by rw [← hr, List.reverse_reverse]
        rw [this]; simp
      · intro d hd
        apply inv.cont d
        have : d ∈ acc.reverse := by rw [hr]; exact List.mem_cons_of_mem _ hd
        simpa using this

/-- `to_rust_title_case` of any ASN.1 name is a legal, non-keyword Rust identifier -/
theorem C16_title_legal (s : List Char) (h : Asn1Ident s) : LegalRustIdent (toTitle s) := by
  obtain ⟨a, r, e, ha, hr⟩ := title_core s h
  have hl := letters_cont ha
  simp only [toTitle, e]
  split
  · rename_i hk
    simp only [LegalRustIdent]
    refine ⟨by decide, ?_, by simp, ?_⟩
    · intro d hd
      rcases List.mem_cons.mp hd with e' | e'
      · rw [e']; decide
      · rcases List.mem_cons.mp e' with e' | e'
        · rw [e']; exact hl.1
        · exact hr d e'
    · have hk' : (a :: r) ∈ rustKeywords := by simpa using hk
      exact (C16_prefix_never_keyword _ hk').2
  · rename_i hk
    simp only [LegalRustIdent]
    refine ⟨hl.2.1, hr, ?_, not_reserved_of_not_kw (by simpa using hk)⟩
    intro e'; injection e' with e1 _; exact hl.2.2 e1

/-- hoisted inner names `Parent ++ Title(member)` are legal when the parent is -/
theorem C16_inner_legal (name parent : List Char) (h : Asn1Ident name) (hp : LegalRustIdent parent)
    (hupper : ∀ a r, toTitle name = a :: r → a ∈ upperLetters) :
    LegalRustIdent (innerName name parent) := by
  have ht := C16_title_legal name h
  simp only [innerName]
  cases parent with
  | nil => simp [LegalRustIdent] at hp
  | cons p ps =>
    cases htt : toTitle name with
    | nil => rw [htt] at ht; simp [LegalRustIdent] at ht
    | cons a r =>
      rw [htt] at ht
      simp only [LegalRustIdent] at hp ht ⊢
      simp only [List.cons_append]
      refine ⟨hp.1, ?_, by simp, ?_⟩
      · intro d hd
        rcases List.mem_append.mp hd with e | e
        · exact hp.2.1 d e
        · rcases List.mem_cons.mp e with e | e
          · rw [e]
            simp only [identStart, identCont, Bool.or_eq_true, beq_iff_eq] at ht ⊢
            rcases ht.1 with x | x
            · exact Or.inl (Or.inl x)
            · exact Or.inr x
          · exact ht.2.1 d e
      · intro hm
        have := List.all_eq_true.mp f_res_tail_no_upper _ hm
        simp only [List.tail_cons, List.all_eq_true, Bool.not_eq_true'] at this
        have hau := hupper a r htt
        have := this a (by simp)
        have hc : upperLetters.contains a = true := by simpa using hau
        rw [hc] at this; cases this

/-- `<snake(parent)>_<snake(field)>_default` is a legal identifier -/
theorem C16_default_fn_legal (parent field : List Char) (hp : Asn1Ident parent) (hf : Asn1Ident field) :
    LegalRustIdent (defaultFnName parent field) := by
  have h1 := C16_snake_legal parent hp
  have h2 := C16_snake_legal field hf
  simp only [defaultFnName]
  cases hs : toSnake parent with
  | nil => rw [hs] at h1; simp [LegalRustIdent] at h1
  | cons a r =>
    rw [hs] at h1
    have h2c : ∀ d ∈ toSnake field, identCont d = true := by
      cases hs2 : toSnake field with
      | nil => rw [hs2] at h2; simp [LegalRustIdent] at h2
      | cons b q =>
        rw [hs2] at h2
        simp only [LegalRustIdent] at h2
        intro d hd
        rcases List.mem_cons.mp hd with e | e
        · rw [e]
          simp only [identStart, identCont, Bool.or_eq_true, beq_iff_eq] at h2 ⊢
          rcases h2.1 with x | x
          · exact Or.inl (Or.inl x)
          · exact Or.inr x
        · exact h2.2.1 d e
    simp only [LegalRustIdent] at h1 ⊢
    simp only [List.cons_append, List.append_assoc]
    refine ⟨h1.1, ?_, by simp, ?_⟩
    · intro d hd
      have hd' : d ∈ r ∨ d = '_' ∨ d ∈ toSnake field ∨ d ∈ ['_','d','e','f','a','u','l','t'] := by
        simpa [List.mem_append, or_assoc] using hd
      rcases hd' with e | e | e | e
      · exact h1.2.1 d e
      · rw [e]; decide
      · exact h2c d e
      · have : ∀ x ∈ ['_','d','e','f','a','u','l','t'], identCont x = true := by decide
        exact this d e
    · intro hm
      have h3 := List.all_eq_true.mp f_res_no_underscore _ hm
      simp at h3

/-- the ASN.1 name is recoverable from what the annotation rule emits -/
theorem C16_recoverable (rendered asn : List Char) :
    rendered = asn ∨ identifierAnnotation rendered asn = some asn := by
  by_cases h : rendered = asn
  · exact Or.inl h
  · right; simp [identifierAnnotation, h]

/-- no hyphen survives any of the renderings -/
theorem C16_no_hyphen (s : List Char) (h : Asn1Ident s) :
    '-' ∉ toSnake s ∧ '-' ∉ toConst s ∧ '-' ∉ toTitle s ∧ '-' ∉ toEnumIdent s := by
  have l1 := C16_snake_legal s h
  have l2 := (C16_const_legal s h).1
  have l3 := C16_title_legal s h
  have l4 := C16_enum_legal s h
  have key : ∀ x : List Char, LegalRustIdent x → '-' ∉ x := by
    intro x hx hm
    cases x with
    | nil => simp [LegalRustIdent] at hx
    | cons a r =>
      simp only [LegalRustIdent] at hx
      rcases List.mem_cons.mp hm with e | e
      · have h1 := hx.1; rw [← e] at h1; revert h1; decide
      · have := hx.2.1 _ e; revert this; decide
  exact ⟨key _ l1, key _ l2, key _ l3, key _ l4⟩

/-- non-vacuity: keywords in every role, case/hyphen mixtures -/
example : Asn1Ident "type".toList ∧ toSnake "type".toList = "r_type".toList ∧ toTitle "self".toList = "R_Self".toList ∧
    toSnake "myType-1A".toList = "my_type_1_a".toList ∧ toTitle "a-b-c".toList = "ABC".toList ∧
    toEnumIdent "Self".toList = "R_Self".toList ∧ toConst "max-Value".toList = "MAX_VALUE".toList := by decide

/-! ### the names the lexer hands on (`Lexer/Names`, tied by the hook `scan_name`) -/
section LexerNames
open Lexer.Names

/-- **domain**: whatever `type_reference`, `identifier` or `value_reference` takes is an `Asn1Ident` — the
    hypothesis of every mangling theorem above, so they apply to every name the lexer hands on -/
theorem C16_lexer_names_in_domain (inp name rest : List Char) :
    (typeReference asn1Keywords inp = some (name, rest) → Asn1Ident name) ∧
    (identifier inp = some (name, rest) → Asn1Ident name) ∧
    (valueReference inp = some (name, rest) → Asn1Ident name) := by
  refine ⟨?_, ?_, ?_⟩
  · intro h
    simp only [typeReference] at h
    split at h
    · rename_i n r hs
      split at h
      · cases h
      · simp only [Option.some.injEq, Prod.mk.injEq] at h
        obtain ⟨h1, h2⟩ := h
        subst h1; subst h2
        exact Proofs.LexNames.scanned_is_Asn1Ident isUpper (fun c hc => by simp [isAlpha, hc]) inp _ _ hs
    · cases h
  · intro h
    exact Proofs.LexNames.scanned_is_Asn1Ident isAlpha (fun c hc => hc) inp name rest h
  · intro h
    exact Proofs.LexNames.scanned_is_Asn1Ident isLower (fun c hc => by simp [isAlpha, hc]) inp name rest h

/-- **nothing is cut short, nothing glued on**: a scanned name is followed by nothing that could continue it
    (not a letter or digit, and no hyphen leading on to one), and name ++ rest is the input -/
theorem C16_scanned_name_whole (first : Char → Bool) (inp name rest : List Char) (h : scanName first inp = some (name, rest)) :
    wfName first name = true ∧ name ++ rest = inp ∧ stops rest = true :=
  Props.Names.scan_sound first inp name rest h

/-- **every name is taken**: an X.680 §12 name of the right kind, followed by nothing or by a character that cannot
    continue it, is scanned whole; a type reference unless it is a reserved word of the regenerated table -/
theorem C16_every_name_is_scanned (name rest : List Char) (hs : stops rest = true) :
    (wfName isAlpha name = true → identifier (name ++ rest) = some (name, rest)) ∧
    (wfName isLower name = true → valueReference (name ++ rest) = some (name, rest)) ∧
    (wfName isUpper name = true → asn1Keywords.contains name = false → typeReference asn1Keywords (name ++ rest) = some (name, rest)) := by
  refine ⟨fun hw => Props.Names.scan_complete isAlpha name rest hw hs, fun hw => Props.Names.scan_complete isLower name rest hw hs, ?_⟩
  intro hw hk
  simp only [typeReference, Props.Names.scan_complete isUpper name rest hw hs, hk]
  simp

/-- the left-to-right reading of a name is the prose of §12.3 (letters, digits, hyphens; no hyphen last, no two in a row) -/
theorem C16_wellformed_is_the_prose (t : List Char) (prev : Char) (h : isAlnum prev = true) : wfTail t = prose prev t :=
  Props.Names.wfTail_iff_prose t prev h

end LexerNames

end Props.C16

import RasnModel.Spec.IntTy
import RasnModel.Gen.IntType
import RasnModel.Proofs.IntType
import RasnModel.Props.C04
/-
  C06 — the chosen Rust integer type can hold every permitted value.
  Property theorems only. `intTypeToken`, `integerConstraintsTail`, `maxRestrictive`,
  `integerTypeToken` are REGENERATED from /repo on every run (Extracted/IntType.lean), so these
  statements are about today's source text.
-/
namespace Props.C06
open Extracted.IntType Spec Gen Proofs.IntType

/-- Component / element path: the token chosen from a folded PER-visible range holds every value in the range. -/
theorem C06_component_token_sound (lo hi v : Int) (ext : Bool) (h1 : lo ≤ v) (h2 : v ≤ hi) :
    holds (intTypeToken (some lo) (some hi) ext) v := by
  unfold intTypeToken
  simp only []
  repeat' split
  all_goals (simp [holds, tokenRange] at *; try omega)

/-- A fixed-width token only for a non-extensible constraint with both bounds finite. -/
theorem C06_component_fixed_only_if (lo hi : Option Int) (ext : Bool)
    (h : intTypeToken lo hi ext ≠ "Integer") : ext = false ∧ lo.isSome ∧ hi.isSome := by
  unfold intTypeToken at h
  cases lo <;> cases hi <;> cases ext <;> simp at h ⊢

/-- every token the component path can emit is a known Rust integer token -/
theorem C06_component_token_known (lo hi : Option Int) (ext : Bool) :
    (tokenRange (intTypeToken lo hi ext)).isSome := by
  unfold intTypeToken
  simp only []
  repeat' split
  all_goals simp [tokenRange]

/-- Assignment path, one constraint: the tail of `integer_constraints` is sound for [min, max]. -/
theorem C06_tail_sound (mn mx v : Int) (ext : Bool) (h1 : mn ≤ v) (h2 : v ≤ mx) :
    holds (integerTypeToken (integerConstraintsTail mn mx ext)) v := by
  unfold integerConstraintsTail
  simp only []
  repeat' split
  all_goals (simp [holds, tokenRange, integerTypeToken] at *; try omega)

theorem C06_tail_fixed_only_if (mn mx : Int) (ext : Bool)
    (h : integerConstraintsTail mn mx ext ≠ IntegerType.Unbounded) : ext = false ∧ mn ≤ mx := by
  unfold integerConstraintsTail at h
  cases ext <;> simp at h ⊢
  omega

/-- what one constraint permits (bounds are i128 literals in the real code) -/
def consPermits : IntCons → Int → Prop
  | .range lo hi _, v => (match lo with | some l => l ≤ v | none => True) ∧ (match hi with | some h => v ≤ h | none => True)
  | .single x _, v => v = x
  | .other, _ => True

def consInI128 : IntCons → Prop
  | .range lo hi _ => (∀ l, lo = some l → i128Min ≤ l ∧ l ≤ i128Max) ∧ (∀ h, hi = some h → i128Min ≤ h ∧ h ≤ i128Max)
  | .single x _ => i128Min ≤ x ∧ x ≤ i128Max
  | .other => True

theorem C06_constraint_sound (c : IntCons) (v : Int) (hc : consInI128 c) (hp : consPermits c v) :
    holds (integerTypeToken (integerConstraints c)) v := by
  cases c with
  | other => simp only [integerConstraints, unpack, none_none]; exact unb_holds v
  | single x ext =>
    simp only [consPermits] at hp
    simp only [consInI128] at hc
    subst hp
    have h1 : min v i128Max = v := by omega
    have h2 : max v i128Min = v := by omega
    simp only [integerConstraints, unpack, h1, h2]
    exact C06_tail_sound v v v ext (Int.le_refl _) (Int.le_refl _)
  | range lo hi ext =>
    simp only [consPermits] at hp
    simp only [consInI128] at hc
    cases lo with
    | none =>
      cases hi with
      | none => simp only [integerConstraints, unpack, none_none]; exact unb_holds v
      | some h =>
        simp only [integerConstraints, unpack, upper_only h ext (hc.2 h rfl).2]; exact unb_holds v
    | some l =>
      cases hi with
      | none => simp only [integerConstraints, unpack, lower_only]; exact unb_holds v
      | some h =>
        have hl := hc.1 l rfl
        have hh := hc.2 h rfl
        have h1 : min l i128Max = l := by omega
        have h2 : max h i128Min = h := by omega
        simp only [integerConstraints, unpack, h1, h2]
        exact C06_tail_sound l h v ext hp.1 hp.2

/-- `max_restrictive` returns one of its arguments -/
theorem C06_maxRestrictive_mem (a b : IntegerType) : maxRestrictive a b = a ∨ maxRestrictive a b = b := by
  cases a <;> cases b <;> decide

/-- Assignment path, serial constraints: a value permitted by every constraint fits the folded type. -/
theorem C06_assignment_sound (cs : List IntCons) (v : Int)
    (hc : ∀ c ∈ cs, consInI128 c) (hp : ∀ c ∈ cs, consPermits c v) :
    holds (assignmentToken cs) v := by
  unfold assignmentToken intType
  suffices ∀ acc, holds (integerTypeToken acc) v →
      holds (integerTypeToken (cs.foldl (fun acc c => maxRestrictive (integerConstraints c) acc) acc)) v by
    exact this _ (by simp [holds, tokenRange, integerTypeToken])
  induction cs with
  | nil => intro acc h; simpa using h
  | cons c cs ih =>
    intro acc h
    simp only [List.foldl_cons]
    apply ih (fun c' hc' => hc c' (List.mem_cons_of_mem _ hc')) (fun c' hc' => hp c' (List.mem_cons_of_mem _ hc'))
    have hcs := C06_constraint_sound c v (hc c (List.mem_cons_self)) (hp c (List.mem_cons_self))
    rcases C06_maxRestrictive_mem (integerConstraints c) acc with e | e <;> rw [e] <;> assumption

/-- a constraint that by itself selects a fixed width is non-extensible with both bounds finite -/
def FiniteNonExt : IntCons → Prop
  | .range (some _) (some _) false => True
  | .single _ false => True
  | _ => False

theorem C06_constraint_fixed_only_if (c : IntCons) (hc : consInI128 c)
    (h : integerConstraints c ≠ IntegerType.Unbounded) : FiniteNonExt c := by
  cases c with
  | other => simp [integerConstraints, unpack, none_none] at h
  | single x ext =>
    have := C06_tail_fixed_only_if _ _ _ h
    rw [this.1]; trivial
  | range lo hi ext =>
    have := C06_tail_fixed_only_if _ _ _ h
    rw [this.1]
    cases lo <;> cases hi
    · simp [integerConstraints, unpack, none_none] at h
    · rename_i hi
      simp only [consInI128] at hc
      simp [integerConstraints, unpack, upper_only hi ext (hc.2 hi rfl).2] at h
    · simp [integerConstraints, unpack, lower_only] at h
    · trivial

/-- A fixed-width assignment type only when the constraint that determined it is non-extensible
    with both bounds finite. -/
theorem C06_assignment_fixed_only_if (cs : List IntCons) (hc : ∀ c ∈ cs, consInI128 c)
    (h : intType cs ≠ IntegerType.Unbounded) :
    ∃ c ∈ cs, integerConstraints c = intType cs ∧ FiniteNonExt c := by
  unfold intType at h ⊢
  suffices ∀ acc, cs.foldl (fun acc c => maxRestrictive (integerConstraints c) acc) acc ≠ IntegerType.Unbounded →
      (cs.foldl (fun acc c => maxRestrictive (integerConstraints c) acc) acc = acc) ∨
      ∃ c ∈ cs, integerConstraints c = cs.foldl (fun acc c => maxRestrictive (integerConstraints c) acc) acc ∧
        FiniteNonExt c by
    rcases this _ h with e | e
    · exact absurd e h
    · exact e
  clear h
  induction cs with
  | nil => intro acc _; left; rfl
  | cons c cs ih =>
    intro acc hne
    simp only [List.foldl_cons] at hne ⊢
    have hc' : ∀ c' ∈ cs, consInI128 c' := fun c' m => hc c' (List.mem_cons_of_mem _ m)
    rcases ih hc' _ hne with e | ⟨c', hm, e1, e2⟩
    · rcases C06_maxRestrictive_mem (integerConstraints c) acc with m | m
      · right
        refine ⟨c, List.mem_cons_self, by rw [e, m], ?_⟩
        have hcne : integerConstraints c ≠ IntegerType.Unbounded := by
          rw [← m, ← e]; exact hne
        exact C06_constraint_fixed_only_if c (hc c List.mem_cons_self) hcne
      · left; rw [e, m]
    · right; exact ⟨c', List.mem_cons_of_mem _ hm, e1, e2⟩

/-- FULL statement (false, see counterexample): "a fixed-width type is used only when the
    constraint is non-extensible": `intType cs ≠ Unbounded → ∀ c ∈ cs, c carries no marker`.
    The assignment path keeps the most restrictive per-constraint width and forgets the marker of
    the other serial constraints (finding class `C06_serial_ext_ignored`). -/
theorem C06_serial_ext_counterexample :
    ¬ (∀ cs : List IntCons, intType cs ≠ IntegerType.Unbounded →
        ∀ c ∈ cs, c ≠ IntCons.single 32768 true) := by
  intro h
  exact h [.single 32768 false, .single 32768 true] (by decide) (.single 32768 true) (by simp) rfl

/-- The two selection routines agree on a single finite non-extensible range inside i128. -/
theorem C06_paths_agree_on_simple (lo hi : Int) (h : lo ≤ hi)
    (hl : i128Min ≤ lo) (hh : hi ≤ i128Max) (ext : Bool) :
    assignmentToken [.range (some lo) (some hi) ext] = intTypeToken (some lo) (some hi) ext := by
  have h1 : min lo i128Max = lo := by omega
  have h2 : max hi i128Min = hi := by omega
  have hm : ∀ t, maxRestrictive t IntegerType.Unbounded = t := by intro t; cases t <;> decide
  simp only [assignmentToken, intType, List.foldl_cons, List.foldl_nil, hm, integerConstraints, unpack, h1, h2]
  unfold integerConstraintsTail intTypeToken
  cases ext
  · simp only []
    repeat' split
    all_goals (simp [integerTypeToken] at *; try omega)
  · simp [integerTypeToken]

/-- non-vacuity: a boundary pair on each side -/
example : intTypeToken (some 0) (some 256) false = "u16" ∧ assignmentToken [.range (some (-129)) (some 127) false] = "i16" := by
  decide

/-! ### constraints with set operators: the component path is the PER-visible fold followed by `int_type_token` -/

open Pv Spec.Subtype in
/-- the token chosen for what the fold returns -/
def foldedToken (r : Pv.Elem) : String :=
  intTypeToken (Pv.elemPv false r).min (Pv.elemPv false r).max (Pv.elemPv false r).ext

open Pv Spec.Subtype in
theorem token_of_interval_sound (lo hi : Option Int) (ext : Bool) (v : Int) (h : (⟨lo, hi⟩ : Iv).mem v) :
    holds (intTypeToken lo hi ext) v := by
  cases lo with
  | none => simp [intTypeToken, holds, tokenRange]
  | some l =>
    cases hi with
    | none => simp [intTypeToken, holds, tokenRange]
    | some u =>
      simp only [Iv.mem, Iv.memB, lowerOk, upperOk, Bool.and_eq_true, decide_eq_true_eq] at h
      exact C06_component_token_sound l u v ext h.1 h.2

open Pv Spec.Subtype in
/-- PARTIAL (C04's Dom: unions, then intersections, at most one EXCEPT, non-empty intersections): for a
    subtype expression of any length on a component, the Rust integer type chosen from the folded
    PER-visible bound can represent every value the expression permits. -/
theorem C06_set_expression_sound_partial (c : Chain) (h : Props.C04.Dom c) (v : Int) (hv : denote (parse c) v) :
    ∃ r, fold (nest c) = some r ∧ holds (foldedToken r) v := by
  obtain ⟨r, hr, hm⟩ := Props.C04.C04_never_excludes_partial c h v hv
  refine ⟨r, hr, ?_⟩
  cases r with
  | single x e => exact token_of_interval_sound (some x) (some x) e v hm
  | range lo hi e => exact token_of_interval_sound lo hi e v hm

open Pv Spec.Subtype in
/-- … and it is a fixed-width type only if the folded bound is finite on both sides and not extensible -/
theorem C06_set_expression_fixed_only_if (r : Pv.Elem) (h : foldedToken r ≠ "Integer") :
    (Pv.elemPv false r).ext = false ∧ (Pv.elemPv false r).min.isSome ∧ (Pv.elemPv false r).max.isSome :=
  C06_component_fixed_only_if _ _ _ h

/- non-vacuity: `(250..300 | 0..10)` is in Dom, 300 is permitted, the token is u16 -/
example : Props.C04.Dom ⟨.range (some 250) (some 300) false, [(.union, .range (some 0) (some 10) false)]⟩ := by decide
example : (Pv.fold (Pv.nest ⟨.range (some 250) (some 300) false, [(.union, .range (some 0) (some 10) false)]⟩)).map foldedToken = some "u16" := by decide

end Props.C06

import RasnModel.Ts.Shape
import RasnModel.Proofs.Struct
import RasnModel.Ts.Values
/-
  C18 — TypeScript declarations have the JER shape of each type.
  Spec / model: Ts/Shape.lean. The tie is the harness's structural TypeScript parser: its parse tree of
  every generated declaration is compared with `modelDecl` (correspondence) and with `specDecl` (oracle).
-/
namespace Props.C18
open IR Lexer Ts

theorem primTs_not_union (p : String) : isUnion (primTs p) = false := by
  unfold primTs
  repeat' split
  all_goals rfl

theorem appendArr_of_not_union (t : Ty) (h : isUnion t = false) : appendArr t = .arr t := by
  cases t <;> first | rfl | (simp [isUnion] at h)

mutual
theorem model_eq_spec : ∀ (t : SrcType), Plain t = true → modelTy t = specTy t
  | .prim p, _ => by simp only [modelTy, specTy]
  | .ref r, _ => by simp only [modelTy, specTy]
  | .seq s root marker adds, h => by
    simp only [Plain, Bool.and_eq_true] at h
    simp only [modelTy, specTy, comps_eq root h.1, adds_eq adds h.2]
  | .choice root m adds, h => by
    simp only [Plain, Bool.and_eq_true] at h
    simp only [modelTy, specTy, alts_eq root h.1, addAlts_eq adds h.2]
  | .enumerated root m adds, _ => by simp only [modelTy, specTy]
  | .seqOf s (.enumerated root m adds) t, _ => by simp only [modelTy, specTy]
  | .seqOf s (.choice root m adds) t, h => by
    simp only [Plain] at h
    have := model_eq_spec (.choice root m adds) (by simpa only [Plain] using h)
    simp only [modelTy, specTy] at this ⊢
    rw [this]
  | .seqOf s (.prim p) t, _ => by
    simp only [modelTy, specTy]
    exact appendArr_of_not_union _ (primTs_not_union p)
  | .seqOf s (.ref r) t, _ => by simp only [modelTy, specTy]; rfl
  | .seqOf s (.seq s' root m adds) t, h => by
    simp only [Plain] at h
    have := model_eq_spec (.seq s' root m adds) (by simpa only [Plain] using h)
    simp only [modelTy] at this ⊢
    rw [this]
    simp only [specTy]
    rfl
  | .seqOf s (.seqOf s' e t') t, h => by
    simp only [Plain] at h
    have := model_eq_spec (.seqOf s' e t') (by simpa only [Plain] using h)
    have e1 : modelTy (.seqOf s (.seqOf s' e t') t) = appendArr (modelTy (.seqOf s' e t')) := by
      simp only [modelTy]
    rw [e1, this]
    simp only [specTy]
    rfl
theorem comp_eq : ∀ (c : SrcComp), PlainComp c = true → modelComp c = [specComp c]
  | .mk n tg (.seq s root marker adds) o, h => by
    simp only [PlainComp, Bool.and_eq_true, Bool.not_eq_true'] at h
    have := model_eq_spec (.seq s root marker adds) h.2
    simp only [modelTy, specTy] at this
    simp only [modelComp, h.1, Bool.false_eq_true, if_false, specComp, specTy]
    rw [Ty.obj.injEq] at this
    rw [this.1]
  | .mk n tg (.prim p) o, h => by simp only [modelComp, specComp, modelTy, specTy]
  | .mk n tg (.ref r) o, h => by simp only [modelComp, specComp, modelTy, specTy]
  | .mk n tg (.choice root m adds) o, h => by
    simp only [PlainComp, Bool.and_eq_true] at h
    simp only [modelComp, specComp, model_eq_spec _ h.2]
  | .mk n tg (.enumerated root m adds) o, h => by simp only [modelComp, specComp, modelTy, specTy]
  | .mk n tg (.seqOf s e t) o, h => by
    simp only [PlainComp, Bool.and_eq_true] at h
    simp only [modelComp, specComp, model_eq_spec _ h.2]
theorem comps_eq : ∀ (cs : List SrcComp), PlainComps cs = true → modelComps cs = specComps cs
  | [], _ => rfl
  | c :: cs, h => by
    simp only [PlainComps, Bool.and_eq_true] at h
    simp only [modelComps, specComps, comp_eq c h.1, comps_eq cs h.2, List.singleton_append]
theorem add_eq : ∀ (a : SrcAdd), PlainAdd a = true → modelAdd a = specAdd a
  | .comp c, h => by
    simp only [PlainAdd] at h
    simp only [modelAdd, specAdd, comp_eq c h]
  | .group v cs, h => by
    simp only [PlainAdd] at h
    simp only [modelAdd, specAdd, Proofs.Struct.isGroupName_group, if_true, comps_eq cs h]
theorem adds_eq : ∀ (as : List SrcAdd), PlainAdds as = true → modelAdds as = specAdds as
  | [], _ => rfl
  | a :: as, h => by
    simp only [PlainAdds, Bool.and_eq_true] at h
    simp only [modelAdds, specAdds, add_eq a h.1, adds_eq as h.2]
theorem alt_eq : ∀ (c : SrcComp), PlainComp c = true → modelAlt c = specAlt c
  | .mk n tg t o, h => by
    simp only [PlainComp, Bool.and_eq_true] at h
    simp only [modelAlt, specAlt, model_eq_spec t h.2]
theorem alts_eq : ∀ (cs : List SrcComp), PlainComps cs = true → modelAlts cs = specAlts cs
  | [], _ => rfl
  | c :: cs, h => by
    simp only [PlainComps, Bool.and_eq_true] at h
    simp only [modelAlts, specAlts, alt_eq c h.1, alts_eq cs h.2]
theorem addAlt_eq : ∀ (a : SrcAdd), PlainAdd a = true → modelAddAlt a = specAddAlt a
  | .comp c, h => by
    simp only [PlainAdd] at h
    simp only [modelAddAlt, specAddAlt, alt_eq c h]
  | .group v cs, h => by
    simp only [PlainAdd] at h
    simp only [modelAddAlt, specAddAlt, alts_eq cs h]
theorem addAlts_eq : ∀ (as : List SrcAdd), PlainAdds as = true → modelAddAlts as = specAddAlts as
  | [], _ => rfl
  | a :: as, h => by
    simp only [PlainAdds, Bool.and_eq_true] at h
    simp only [modelAddAlts, specAddAlts, addAlt_eq a h.1, addAlts_eq as h.2]
end

/-- C18 (shape): for every type of the supported notation, at any nesting depth, what the TypeScript
    backend renders — read with TypeScript's own precedence — is the JER shape: members in order with `?`
    exactly for OPTIONAL / DEFAULT, arrays for SEQUENCE OF / SET OF (of the whole element type), unions of
    single-key objects for CHOICE, unions of the original enumeral names, an index signature exactly for
    extensible SEQUENCE / SET, version-group components as ordinary members. -/
theorem C18_shape (t : SrcType) (h : Plain t = true) : modelTy t = specTy t := model_eq_spec t h

/-- the declaration of a type assignment: same name mangling, same template choice, JER shape -/
theorem C18_declaration (name : String) (t : SrcType) (h : Plain t = true) : modelDecl name t = specDecl name t := by
  unfold modelDecl specDecl declWith
  split
  · rfl
  · rfl
  · rw [C18_shape t h]

/-- clause by clause, on the spec: `?` exactly for OPTIONAL and DEFAULT -/
theorem C18_optional_iff (n : String) (tg : Option Tag) (t : SrcType) (o : Opt) :
    specComp (.mk n tg t o) = .mk (mangle n) (o != .required) (specTy t) := by simp only [specComp]

/-- index signature exactly for extensible SEQUENCE / SET -/
theorem C18_index_signature_iff (s : Bool) (root : List SrcComp) (marker : Bool) (adds : List SrcAdd) :
    specTy (.seq s root marker adds) = .obj (specComps root ++ specAdds adds) marker := by simp only [specTy]

/-- SEQUENCE OF / SET OF is an array of the element's shape -/
theorem C18_array (s : Bool) (e : SrcType) (t : Option Tag) : specTy (.seqOf s e t) = .arr (specTy e) := by
  simp only [specTy]

/-- what the code did before fix 68ab74e, as a theorem about `appendArr`: appending `[]` to a union
    makes an array of the LAST alternative only -/
theorem C18_unparenthesised_array_counterexample :
    appendArr (mkUnion [.lit "p", .lit "q"]) = .union [.lit "p", .arr (.lit "q")] := rfl

/-! ### list values (`Ts/Values`): "braces, brackets and parentheses are balanced" for constants -/

/-- every SEQUENCE OF / SET OF value is rendered with balanced brackets when its elements are — any number of
    elements, the empty list included, nested to any depth (apply it element by element) -/
theorem C18_list_value_balanced (xs : List (List Char)) (h : ∀ x, x ∈ xs → Ts.Values.balanced x = true) :
    Ts.Values.balanced (Ts.Values.renderList xs) = true :=
  Ts.Values.renderList_balanced xs h

/-- the arm before fix `e19183e`: the empty list value is `]` -/
theorem C18_old_list_value_counterexample :
    Ts.Values.renderListOld [] = [']'] ∧ Ts.Values.balanced (Ts.Values.renderListOld []) = false :=
  Ts.Values.renderListOld_counterexample

end Props.C18

import RasnModel.Proofs.Pipeline
/-
  C11 — the result is a deterministic function of the set of definitions.
  Skeleton model: Io/Pipeline.lean. Everything after `Validator::new` reads the definitions only
  through the BTreeMap keyed by bare name, so permuting assignments, modules or sources (all are
  permutations of the flattened list; the header travels with each definition) cannot change the
  result as long as bare names are distinct. PARTIAL: thread interleavings and allocator behaviour
  are not expressible; absence of shared mutable state is pinned by the regenerated inventory of
  statics / env reads / hashed containers / unsafe (obligation `inventory:global`).
-/
namespace Props.C11
open Pipe Proofs.SortedMap Proofs.Pipeline

variable {β : Type}

/-- PARTIAL (Dom = distinct bare names): the compilation result does not depend on the order in
    which definitions reach the compiler — any permutation, any number of definitions. -/
theorem C11_perm_partial (validate : Def β → Bool) (gen : BState → Def β → Option String) (st : BState)
    (ds ds' : List (Def β)) (hp : ds.Perm ds') (hn : (ds.map (·.name)).Nodup) :
    compile validate gen st ds' = compile validate gen st ds := by
  have hk : (SMap.keys (ds.map fun d => (d.name, d))).Nodup := by
    have e : SMap.keys (ds.map fun d => (d.name, d)) = ds.map (·.name) := by
      simp only [SMap.keys, List.map_map]; rfl
    rw [e]; exact hn
  have h1 : (indexW ds).1 = (indexW ds').1 := by
    rw [indexW_fst, indexW_fst]
    unfold index
    exact ofList_eq_of_perm _ _ (hp.map _) hk
  have h2 : (indexW ds).2 = (indexW ds').2 := by
    rw [indexW_snd_nil ds hn, indexW_snd_nil ds' ((hp.map _).nodup_iff.mp hn)]
  simp only [compile, h1, h2]

/-- FULL statement (false, see counterexample): without `Nodup`. `Validator::new` keys by bare name and a
    later definition replaces an earlier one, so with `M1.A` and `M2.A` the order decides which survives and
    which is reported as replaced (finding class C11_bare_name_collision, shared with C12). -/
theorem C11_perm_counterexample :
    let a : Def Unit := ⟨"A", ⟨"M1", 0, false⟩, ()⟩
    let b : Def Unit := ⟨"A", ⟨"M2", 0, false⟩, ()⟩
    compile (fun _ => true) (fun _ d => some d.hdr.name) ⟨0, false⟩ [a, b] ≠
    compile (fun _ => true) (fun _ d => some d.hdr.name) ⟨0, false⟩ [b, a] := by
  decide

/-- the model is a function: repeatability is definitional; the content of this clause is the
    correspondence run (same input compiled repeatedly, on many threads, after other compilations) -/
theorem C11_pure (validate : Def β → Bool) (gen : BState → Def β → Option String) (st : BState) (ds : List (Def β)) :
    compile validate gen st ds = compile validate gen st ds := rfl

/-- non-vacuity -/
example : (([⟨"A", ⟨"M", 0, false⟩, ()⟩, ⟨"B", ⟨"M", 0, false⟩, ()⟩] : List (Def Unit)).map (·.name)).Nodup := by decide

end Props.C11

import RasnModel.Gen.Struct
import RasnModel.Spec.Struct
/-
  C03 — tags and tagging mode follow X.680 under the module's tagging environment.
  `TaggingEnvironment`, `envAdd` (impl Add) and `formatTagExplicit` (the test in format_tag) are
  REGENERATED from /repo on every run; `headerEnv` (TAGS clause ↦ environment), `kwEnv`
  (tag keyword ↦ environment) and the placement of tags are the hand model.
  Spec: X.680 §31.2.7 (Spec/Struct.lean `explicitSpec`), compared modulo what rasn makes of a
  tagged CHOICE / open type (`effective`).
-/
namespace Props.C03
open IR Gen.Struct Spec.Struct Extracted.Tagging

/-- class and number of every written tag are kept — any class, number, keyword, module default, depth -/
theorem C03_tag_preserved (env : TEnv) (fl : Bool) (t : Tag) :
    (tagAt env fl (some t)).map (fun f => (f.cls, f.num)) = some (t.cls, t.num) := rfl

/-- no tag is invented -/
theorem C03_no_tag_invented (env : TEnv) (fl : Bool) : tagAt env fl none = none := rfl

/-- The finite core of §31.2.7, decided over the whole table: for every module default WITH a TAGS
    clause, every keyword and every kind of tagged type, the rendered marking is effectively the
    one X.680 prescribes. (12 × 2 points; lifted to every class / number / position / depth by
    `C03_explicit_iff_partial`, because `tagAt` is the same function at every depth.) -/
theorem C03_table : ∀ d ∈ [TagDefault.explicit, TagDefault.implicit, TagDefault.automatic],
    ∀ kw ∈ [TagKw.none, TagKw.implicit, TagKw.explicit], ∀ choiceOrOpen ∈ [true, false],
      effective (formatTagExplicit (envAdd (headerEnv d) (kwEnv kw))) choiceOrOpen = explicitSpec d kw choiceOrOpen := by
  decide

/-- Dom of the partial theorem: the module has a TAGS clause -/
def HasTagsClause (d : TagDefault) : Prop := d ≠ TagDefault.none

/-- PARTIAL (Dom = module has a TAGS clause): at every position and depth, the explicit marking of
    a rendered tag is effectively the one §31.2.7 prescribes. -/
theorem C03_explicit_iff_partial (sctx : SCtx) (fl : Bool) (t : Tag) (ty : SrcType) (h : HasTagsClause sctx.default) :
    ∀ mf ∈ tagAt (headerEnv sctx.default) fl (some t), ∀ sf ∈ specTag sctx (some t) ty,
      mf.cls = sf.cls ∧ mf.num = sf.num ∧ effective mf.explicit sf.relaxed = sf.explicit := by
  intro mf hm sf hs
  simp only [tagAt, specTag, Option.map_some, Option.mem_def, Option.some.injEq] at hm hs
  subst hm; subst hs
  refine ⟨rfl, rfl, ?_⟩
  simp only [tagFact]
  have hd : sctx.default = .explicit ∨ sctx.default = .implicit ∨ sctx.default = .automatic := by
    cases hdd : sctx.default <;> simp_all [HasTagsClause]
  have := C03_table sctx.default (by rcases hd with h | h | h <;> simp [h]) t.kw (by cases t.kw <;> simp)
    (isChoiceOrOpen sctx ty) (by cases isChoiceOrOpen sctx ty <;> simp)
  exact this

/-- FULL statement (false, see counterexample): the same without `HasTagsClause`.
    X.680: a module without TAGS clause has EXPLICIT TAGS; `environments`/`ModuleHeader::from`
    yield Implicit. Finding class `C03_no_tags_clause_is_implicit`; the unit test
    `lexer::module_header::tests::parses_iri_value` pins `Implicit`, so it is recorded, not fixed. -/
theorem C03_no_tags_clause_counterexample :
    ¬ (∀ kw choiceOrOpen, effective (formatTagExplicit (envAdd (headerEnv .none) (kwEnv kw))) choiceOrOpen =
        explicitSpec .none kw choiceOrOpen) := by
  intro h
  exact absurd (h .none false) (by decide)

/-- the element tag of SEQUENCE OF / SET OF never reaches the bindings: whatever the tag, the model
    (mirroring `generate_sequence_or_set_of`, `tag: None`) yields the items of the untagged notation.
    Finding class `C03_element_tag_dropped`; the snapshot test `tagged_prefix_type` pins the output
    without the tag, so it is recorded, not fixed. -/
theorem C03_element_tag_dropped_counterexample (ctx : Ctx) (rec : Rec) (fl : Bool) (n : String) (tag : Option Tag)
    (s : Bool) (e : SrcType) (t : Tag) :
    genLevel ctx rec fl n tag (.seqOf s e (some t)) = genLevel ctx rec fl n tag (.seqOf s e none) := rfl

/-- automatic tagging in the model (SEQUENCE / SET): exactly when the environment is Automatic and no member carries a
    tag, a version group counting through its components -/
theorem C03_automatic_iff (ctx : Ctx) (members : List SrcComp) :
    automaticTags ctx members = true ↔
      ctx.env = TaggingEnvironment.Automatic ∧ ∀ m ∈ members, m.tag = none ∧ groupTagged m = false := by
  simp only [automaticTags, Bool.and_eq_true, beq_iff_eq, Bool.not_eq_true', List.any_eq_false, Bool.or_eq_true, not_or]
  constructor
  · rintro ⟨h1, h2⟩
    refine ⟨h1, fun m hm => ?_⟩
    have := h2 m hm
    refine ⟨?_, by simpa using this.2⟩
    cases hmt : m.tag with
    | none => rfl
    | some x => rw [hmt] at this; simp at this
  · rintro ⟨h1, h2⟩
    refine ⟨h1, fun m hm => ?_⟩
    rw [(h2 m hm).1, (h2 m hm).2]; simp

/-- a lexed version group is tagged exactly when one of its components is -/
theorem groupTagged_group (cs : List SrcComp) :
    groupTagged (Lexer.groupMember cs) = cs.any (fun c => c.tag.isSome) := by
  simp [groupTagged, Lexer.groupMember, SrcComp.name, SrcComp.ty]

/-- **C03 (automatic tagging), FULL since fix `377113c`**: for every SEQUENCE / SET body — root, marker, additions,
    version groups with any components — the generator's decision is the reference one (AUTOMATIC TAGS ∧ none of the
    type's own components tagged, the components of `[[ ]]` groups included: X.680 25.3 speaks of the
    ComponentTypeLists). `hnames`: no source component is called like the lexer's group wrapper — true of every
    X.680 identifier (no underscore, `C16_lexer_names_in_domain`). -/
theorem C03_automatic_spec (ctx : Ctx) (sctx : SCtx) (root : List SrcComp) (marker : Bool) (adds : List SrcAdd)
    (henv : ctx.env = headerEnv sctx.default)
    (hnames : ∀ c, c ∈ root ∨ SrcAdd.comp c ∈ adds → c.name.startsWith Lexer.extGroupPrefix = false) :
    automaticTags ctx (Lexer.assembleBody root marker adds).1 = automaticSpec sctx root adds := by
  have hplain : ∀ c, c.name.startsWith Lexer.extGroupPrefix = false → groupTagged c = false := by
    intro c h; simp [groupTagged, h]
  have hR : ∀ (l : List SrcComp), (∀ c ∈ l, c.name.startsWith Lexer.extGroupPrefix = false) →
      (l.any fun c => c.tag.isSome || groupTagged c) = (l.any fun c => c.tag.isSome) := by
    intro l hl
    induction l with
    | nil => rfl
    | cons c t ih =>
      simp only [List.any_cons]
      rw [hplain c (hl c List.mem_cons_self), Bool.or_false, ih (fun x hx => hl x (List.mem_cons_of_mem _ hx))]
  have hA : ∀ (l : List SrcAdd), (∀ c, SrcAdd.comp c ∈ l → c.name.startsWith Lexer.extGroupPrefix = false) →
      ((l.map Lexer.lexAdd).any fun c => c.tag.isSome || groupTagged c) = ((l.flatMap addComps).any fun c => c.tag.isSome) := by
    intro l hl
    induction l with
    | nil => rfl
    | cons a t ih =>
      simp only [List.map_cons, List.any_cons, List.flatMap_cons, List.any_append]
      rw [ih (fun x hx => hl x (List.mem_cons_of_mem _ hx))]
      congr 1
      cases a with
      | comp c =>
        simp only [Lexer.lexAdd, addComps, List.any_cons, List.any_nil, Bool.or_false]
        rw [hplain c (hl c List.mem_cons_self), Bool.or_false]
      | group v cs =>
        have h1 : (Lexer.lexAdd (.group v cs)).tag = none := rfl
        simp only [h1, addComps, Option.isSome_none, Bool.false_or]
        exact groupTagged_group cs
  have hany : ((Lexer.assembleBody root marker adds).1.any fun c => c.tag.isSome || groupTagged c) =
      ((ownComponents root adds).any fun c => c.tag.isSome) := by
    simp only [Lexer.assembleBody, Lexer.assemble, ownComponents, List.any_append, Lexer.lexAdds]
    rw [hR root (fun c hc => hnames c (Or.inl hc)), hA adds (fun c hc => hnames c (Or.inr hc))]
  simp only [automaticTags, automaticSpec, hany, henv]
  have e1 : (TaggingEnvironment.Explicit == TaggingEnvironment.Automatic) = false := by decide
  have e2 : (TaggingEnvironment.Implicit == TaggingEnvironment.Automatic) = false := by decide
  have e3 : (TaggingEnvironment.Automatic == TaggingEnvironment.Automatic) = true := by decide
  have d1 : (TagDefault.explicit == TagDefault.automatic) = false := by decide
  have d2 : (TagDefault.implicit == TagDefault.automatic) = false := by decide
  have d3 : (TagDefault.none == TagDefault.automatic) = false := by decide
  have d4 : (TagDefault.automatic == TagDefault.automatic) = true := by decide
  cases sctx.default <;> simp only [headerEnv, e1, e2, e3, d1, d2, d3, d4]

/-- the decision as it was before the fix: `A ::= SEQUENCE { x BOOLEAN, ..., [[ a [7] BOOLEAN ]] }` under AUTOMATIC TAGS
    was tagged automatically although one of its components carries a tag -/
theorem C03_old_group_tag_counterexample :
    let a : SrcComp := .mk "a" (some ⟨.context, 7, .none⟩) (.prim "BOOLEAN") .required
    let x : SrcComp := .mk "x" none (.prim "BOOLEAN") .required
    automaticTagsFlat ⟨.Automatic, false⟩ (Lexer.assembleBody [x] true [.group none [a]]).1 = true ∧
    automaticSpec ⟨.automatic, false, []⟩ [x] [.group none [a]] = false := by
  refine ⟨?_, ?_⟩ <;> rfl

/-- non-vacuity of `hnames`: ASN.1 identifiers do not begin like the lexer's group wrapper -/
example : ("a".startsWith Lexer.extGroupPrefix = false) ∧ ("x".startsWith Lexer.extGroupPrefix = false) := by decide

/-- non-vacuity: the four defaults on `[5] T`, untagged CHOICE under IMPLICIT, explicit keyword under IMPLICIT -/
example : (tagAt (headerEnv .explicit) true (some ⟨.context, 5, .none⟩)).map (·.explicit) = some true ∧
    (tagAt (headerEnv .implicit) false (some ⟨.context, 5, .none⟩)).map (·.explicit) = some false ∧
    (tagAt (headerEnv .automatic) false (some ⟨.application, 5, .explicit⟩)).map (·.explicit) = some true ∧
    HasTagsClause .automatic := by
  refine ⟨rfl, rfl, rfl, by simp [HasTagsClause]⟩

end Props.C03

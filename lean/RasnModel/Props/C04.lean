import RasnModel.Proofs.Subtype
/-
  C04 — emitted value and size bounds equal the PER-visible effective constraint.
  Model: Pv/Fold.lean (right-nested association of the lexer + fold_constraint_set and friends,
  integer operands); Spec: Spec/Subtype.lean (X.680 §50 precedence, X.691 §10.3.21).
-/
namespace Props.C04
open Pv Spec.Subtype Proofs.Subtype

-- spec-internal soundness: what the notation permits lies inside the hull -----------------------------

theorem lowerOk_max (a b : Option Int) (v : Int) : lowerOk (optMax a b) v = (lowerOk a v && lowerOk b v) := by
  cases a <;> cases b <;> simp [lowerOk, optMax]
  · rename_i x y; by_cases h1 : x ≤ v <;> by_cases h2 : y ≤ v <;> simp [h1, h2] <;> omega
theorem upperOk_min (a b : Option Int) (v : Int) : upperOk (optMin a b) v = (upperOk a v && upperOk b v) := by
  cases a <;> cases b <;> simp [upperOk, optMin]
  · rename_i x y; by_cases h1 : v ≤ x <;> by_cases h2 : v ≤ y <;> simp [h1, h2] <;> omega

theorem mem_meet (a b : Iv) (v : Int) : (a.meet b).memB v = (a.memB v && b.memB v) := by
  simp only [Iv.meet, Iv.memB, lowerOk_max, upperOk_min]
  cases lowerOk a.lo v <;> cases lowerOk b.lo v <;> cases upperOk a.hi v <;> cases upperOk b.hi v <;> rfl

theorem mem_join_left (a b : Iv) (v : Int) (h : a.memB v = true) : (a.join b).memB v = true := by
  cases a with | mk al ah =>
  cases b with | mk bl bh =>
  cases al <;> cases ah <;> cases bl <;> cases bh <;>
    simp [Iv.join, Iv.memB, joinLo, joinHi, lowerOk, upperOk] at h ⊢ <;> omega

theorem mem_join_right (a b : Iv) (v : Int) (h : b.memB v = true) : (a.join b).memB v = true := by
  cases a with | mk al ah =>
  cases b with | mk bl bh =>
  cases al <;> cases ah <;> cases bl <;> cases bh <;>
    simp [Iv.join, Iv.memB, joinLo, joinHi, lowerOk, upperOk] at h ⊢ <;> omega

theorem mem_nonempty (a : Iv) (v : Int) (h : a.memB v = true) : a.nonempty = true := by
  cases a with | mk al ah =>
  cases al <;> cases ah <;> simp [Iv.memB, Iv.nonempty, lowerOk, upperOk] at h ⊢; omega

theorem elemMem_iv (e : Elem) (v : Int) : elemMem e v = (elemIv e).memB v := by
  cases e with
  | single x _ =>
    simp only [elemMem, elemIv, Iv.memB, lowerOk, upperOk]
    by_cases h : v = x
    · subst h; simp
    · have : ¬ (x ≤ v ∧ v ≤ x) := by omega
      by_cases h1 : x ≤ v <;> by_cases h2 : v ≤ x <;> simp [h, h1, h2] <;> omega
  | range lo hi _ => rfl

theorem group_mem (grp : List Factor) (v : Int) (h : grp.all (fun f => elemMem f.elem v) = true) :
    (groupIv grp).memB v = true := by
  induction grp with
  | nil => rfl
  | cons f t ih =>
    simp only [List.all_cons, Bool.and_eq_true] at h
    simp only [groupIv, mem_meet, Bool.and_eq_true]
    exact ⟨by rw [← elemMem_iv]; exact h.1, ih h.2⟩

/-- X.691 §10.3.21 in the spec: dropping the EXCEPT parts only enlarges the set -/
theorem C04_spec_pv_superset (g : Groups) (v : Int) (h : denote g v) : pvDenote g v := by
  simp only [denote, pvDenote, denoteB, pvDenoteB, List.any_eq_true, List.all_eq_true, Bool.and_eq_true] at h ⊢
  obtain ⟨grp, hg, hall⟩ := h
  exact ⟨grp, hg, fun f hf => (hall f hf).1⟩

/-- … and the hull contains the PER-visible set -/
theorem C04_spec_hull_contains (g : Groups) (v : Int) (h : pvDenote g v) : ∃ iv, hull g = some iv ∧ iv.mem v := by
  simp only [pvDenote, pvDenoteB, List.any_eq_true] at h
  obtain ⟨grp, hg, hall⟩ := h
  induction g with
  | nil => cases hg
  | cons g0 gs ih =>
    simp only [hull]
    rcases List.mem_cons.mp hg with e | e
    · subst e
      have hm := group_mem grp v hall
      rw [mem_nonempty _ v hm]
      simp only [if_true]
      cases hull gs with
      | none => exact ⟨_, rfl, hm⟩
      | some h => exact ⟨_, rfl, mem_join_left _ _ v hm⟩
    · obtain ⟨iv, hiv, hmem⟩ := ih e
      rw [hiv]
      by_cases hn : (groupIv g0).nonempty = true
      · simp only [hn, if_true]; exact ⟨_, rfl, mem_join_right _ _ v hmem⟩
      · simp only [hn]; exact ⟨iv, rfl, hmem⟩

-- model vs spec on Dom -------------------------------------------------------------------------------

theorem groupIv_single (f : Factor) : groupIv [f] = elemIv f.elem := by
  cases hf : elemIv f.elem with | mk lo hi =>
  cases lo <;> cases hi <;> simp [groupIv, Iv.meet, hf, optMax, optMin]

theorem domU_fold : ∀ (rest : List (Op × Elem)) (f : Factor), domU rest = true → allNonempty (parseF f rest) = true →
    ∃ r, fold (nestFrom f.elem rest) = some r ∧ hull (parseF f rest) = some (ivOf r) ∧ (ivOf r).nonempty = true := by
  intro rest
  induction rest with
  | nil =>
    intro f _ hne
    simp only [parseF, allNonempty, List.all_cons, List.all_nil, Bool.and_true] at hne
    rw [groupIv_single] at hne
    refine ⟨f.elem, rfl, ?_, hne⟩
    simp only [parseF, hull, groupIv_single, hne, if_true]
  | cons oe r ih =>
    intro f hd hne
    obtain ⟨o, e⟩ := oe
    cases o with
    | union =>
      have hr : domU r = true := by simpa [domU] using hd
      simp only [parseF, allNonempty, List.all_cons, Bool.and_eq_true] at hne
      obtain ⟨r', hf', hh, hn'⟩ := ih ⟨e, []⟩ hr hne.2
      have hfn : (elemIv f.elem).nonempty = true := by have := hne.1; rw [groupIv_single] at this; exact this
      refine ⟨unionElem f.elem r', ?_, ?_, ?_⟩
      · simp only [nestFrom, fold]; rw [hf']
      · simp only [parseF, hull, hh, groupIv_single, hfn, if_true]
        rw [unionElem_join _ _ hfn hn']
      · rw [unionElem_join _ _ hfn hn']; exact join_nonempty _ _ hfn hn'
    | inter =>
      have hi : domI ((Op.inter, e) :: r) = true := by simpa [domU] using hd
      obtain ⟨grp, hp, _, hfold⟩ := domI_fold _ f hi
      rw [hp] at hne ⊢
      simp only [allNonempty, List.all_cons, List.all_nil, Bool.and_true] at hne
      obtain ⟨r', hr', hiv⟩ := hfold hne
      exact ⟨r', hr', by simp only [hull, hne, if_true, hiv], by rw [hiv]; exact hne⟩
    | except =>
      have hi : domI ((Op.except, e) :: r) = true := by simpa [domU] using hd
      obtain ⟨grp, hp, _, hfold⟩ := domI_fold _ f hi
      rw [hp] at hne ⊢
      simp only [allNonempty, List.all_cons, List.all_nil, Bool.and_true] at hne
      obtain ⟨r', hr', hiv⟩ := hfold hne
      exact ⟨r', hr', by simp only [hull, hne, if_true, hiv], by rw [hiv]; exact hne⟩

/-- Dom of the partial theorems: `… | … | … ^ … ^ … [EXCEPT x]` with every intersection non-empty
    (an empty set is illegal notation) -/
def Dom (c : Chain) : Prop := domU c.rest = true ∧ allNonempty (parse c) = true
instance (c : Chain) : Decidable (Dom c) := by unfold Dom; infer_instance

/-- PARTIAL (Dom): the folded element's interval is exactly the hull of the PER-visible set —
    for chains of any length, any integers, MIN/MAX anywhere. -/
theorem C04_exact_partial (c : Chain) (h : Dom c) :
    ∃ r, fold (nest c) = some r ∧ hull (parse c) = some (elemIv r) := by
  obtain ⟨r, h1, h2, _⟩ := domU_fold c.rest ⟨c.first, []⟩ h.1 h.2
  exact ⟨r, h1, h2⟩

/-- PARTIAL (Dom): the emitted bound never excludes a value the ASN.1 constraint permits. -/
theorem C04_never_excludes_partial (c : Chain) (h : Dom c) (v : Int) (hv : denote (parse c) v) :
    ∃ r, fold (nest c) = some r ∧ (elemIv r).mem v := by
  obtain ⟨r, h1, h2⟩ := C04_exact_partial c h
  obtain ⟨iv, hiv, hm⟩ := C04_spec_hull_contains _ v (C04_spec_pv_superset _ v hv)
  rw [h2] at hiv
  cases hiv
  exact ⟨r, h1, hm⟩

/-- FULL statements (false, see counterexamples): the same without `domU`.
    `(1..5 ^ 3..4 | 10..20)`: right-nesting gives 1..5 ^ (3..4 | 10..20) = 3..5 and excludes 15
    (finding class C04_no_operator_precedence). -/
theorem C04_precedence_counterexample :
    let c : Chain := ⟨.range (some 1) (some 5) false, [(.inter, .range (some 3) (some 4) false), (.union, .range (some 10) (some 20) false)]⟩
    denote (parse c) 15 ∧ fold (nest c) = some (.range (some 3) (some 5) false) ∧ ¬ (elemIv (.range (some 3) (some 5) false)).mem 15 := by
  decide

/-- `(1..5 EXCEPT 3 | 10..20)`: EXCEPT drops everything to its right; 15 is permitted and excluded
    (finding class C04_except_drops_what_follows). -/
theorem C04_except_tail_counterexample :
    let c : Chain := ⟨.range (some 1) (some 5) false, [(.except, .single 3 false), (.union, .range (some 10) (some 20) false)]⟩
    denote (parse c) 15 ∧ fold (nest c) = some (.range (some 1) (some 5) false) ∧ ¬ (elemIv (.range (some 1) (some 5) false)).mem 15 := by
  decide

-- extensibility ---------------------------------------------------------------------------------------

theorem interElem_ext (a b r : Elem) (h : interElem a b = some r) : r.ext = (a.ext || b.ext) := by
  cases a <;> cases b <;> simp only [interElem] at h
  · split at h
    · cases h
    · cases h; simp [Elem.ext]
  all_goals (cases h; simp [Elem.ext, Bool.or_comm])

theorem unionElem_ext (a b : Elem) : (unionElem a b).ext = (a.ext || b.ext) := by
  cases a <;> cases b <;> simp [unionElem, Elem.ext]

theorem orExt_ext (e : Elem) (m : Bool) : (e.orExt m).ext = (e.ext || m) := by
  cases e <;> rfl

/-- The folded element is flagged extensible exactly when some element of the chain carries the
    marker — every chain, every operator (FULL since the `fix:` commit for the marker after EXCEPT). -/
theorem C04_ext_iff : ∀ (rest : List (Op × Elem)) (e r : Elem), fold (nestFrom e rest) = some r →
    r.ext = (e.ext || rest.any (fun oe => oe.2.ext)) := by
  intro rest
  induction rest with
  | nil => intro e r h; simp only [nestFrom, fold] at h; cases h; simp
  | cons oe t ih =>
    intro e r h
    obtain ⟨o, e'⟩ := oe
    simp only [nestFrom, fold] at h
    cases hf : fold (nestFrom e' t) with
    | none => rw [hf] at h; cases h
    | some f =>
      rw [hf] at h
      have hfe := ih e' f hf
      simp only [List.any_cons]
      cases o with
      | inter => simp only at h; rw [interElem_ext _ _ _ h, hfe]
      | union => simp only at h; cases h; rw [unionElem_ext, hfe]
      | except => simp only at h; cases h; rw [orExt_ext, hfe]

-- serial constraints ------------------------------------------------------------------------------------

theorem optMaxNoneLow_eq (a b : Option Int) : optMaxNoneLow a b = optMax a b := by
  cases a <;> cases b <;> rfl
theorem optMinNoneHigh_eq (a b : Option Int) : optMinNoneHigh a b = optMin a b := by
  cases a <;> cases b <;> rfl

/-- serial constraints are accumulated by intersection; extensibility and the size flag are sticky -/
theorem C04_serial_inter (a b : PvRange) :
    (⟨(a.addAssign b).min, (a.addAssign b).max⟩ : Iv) = (⟨a.min, a.max⟩ : Iv).meet ⟨b.min, b.max⟩ ∧
    (a.addAssign b).ext = (a.ext || b.ext) ∧ (a.addAssign b).isSize = (a.isSize || b.isSize) := by
  simp [PvRange.addAssign, Iv.meet, optMaxNoneLow_eq, optMinNoneHigh_eq]

/-- non-vacuity: a five-operand chain inside Dom -/
example : Dom ⟨.single 1 false, [(.union, .range (some 5) none false), (.union, .range none (some 9) false),
    (.inter, .range (some 2) (some 30) false), (.except, .single 7 true)]⟩ := by
  decide

end Props.C04

import RasnModel.Proofs.Pipeline
/-
  C10 — no definition is lost silently; warnings are local; Err carries nothing.
  Skeleton model: Io/Pipeline.lean with the per-definition work (`validate`, `generate_tld`) abstract.
  The arms of the generators that return an empty token stream without a warning are pinned by the
  regenerated inventory (obligation `inventory:silent`, reviewed in reviewed/inventory.json).
-/
namespace Props.C10
open Pipe Proofs.SortedMap Proofs.Pipeline

variable {β : Type}

theorem filter_partition_perm {α : Type} (p : α → Bool) (l : List α) :
    (l.filter p ++ l.filter (fun x => !p x)).Perm l := by
  induction l with
  | nil => simp
  | cons a t ih =>
    cases hp : p a
    · simp only [List.filter_cons, hp, Bool.false_eq_true, if_false, Bool.not_false, if_true]
      exact (List.perm_middle).trans (List.Perm.cons a ih)
    · simp only [List.filter_cons, hp, if_true, Bool.not_true, Bool.false_eq_true, if_false, List.cons_append]
      exact List.Perm.cons a ih

/-- FULL: every definition is the subject of exactly one event — it is represented in its module's
    bindings, or it is the subject of a generator warning, of a validator warning, or of the warning that it
    was replaced by a later definition of the same bare name. Nothing is lost, nothing is duplicated; any
    number of modules and definitions, any names (equal ones included). -/
theorem C10_accounting (validate : Def β → Bool) (gen : BState → Def β → Option String) (st : BState)
    (ds : List (Def β)) :
    ((compile validate gen st ds).map Ev.subject).Perm (ds.map (·.name)) := by
  simp only [compile, generateAll, List.map_append, List.map_map]
  rw [generateAll_subjects]
  simp only [List.map_nil, List.nil_append]
  have h1 := (groupByModule_perm (((indexW ds).1.map (·.2)).filter validate)).map (·.name)
  have h2 : ((((indexW ds).1.map (·.2)).filter fun d => !validate d).map (Ev.subject ∘ fun d => Ev.valWarn d.name)) =
      (((indexW ds).1.map (·.2)).filter fun d => !validate d).map (·.name) := by
    apply List.map_congr_left; intro d _; rfl
  have h3 : ((indexW ds).2.map (Ev.subject ∘ fun d => Ev.replWarn d.hdr.name d.name)) = (indexW ds).2.map (·.name) := by
    apply List.map_congr_left; intro d _; rfl
  rw [h2, h3]
  refine ((List.Perm.append_right _ h1).append_right _).trans ?_
  -- valid ++ replaced ++ invalid  ~  (valid ++ invalid) ++ replaced  ~  map ++ replaced  ~  ds
  rw [List.append_assoc]
  refine (List.Perm.append_left _ List.perm_append_comm).trans ?_
  rw [← List.append_assoc, ← List.map_append, ← List.map_append]
  exact (((filter_partition_perm validate _).append_right _).trans (indexW_perm ds)).map _

/-- the corollary the first version of this file proved under the hypothesis of distinct names -/
theorem C10_accounting_distinct (validate : Def β → Bool) (gen : BState → Def β → Option String) (st : BState)
    (ds : List (Def β)) (_hn : (ds.map (·.name)).Nodup) :
    ((compile validate gen st ds).map Ev.subject).Perm (ds.map (·.name)) := C10_accounting validate gen st ds

/-- two modules defining the same bare name: the earlier definition is not represented, and a warning says so
    (before fix `a96216a` it vanished without any event: finding class C10_bare_name_collision, now `fixed`). -/
theorem C10_collision_reported :
    let a : Def Unit := ⟨"A", ⟨"M1", 0, false⟩, ()⟩
    let b : Def Unit := ⟨"A", ⟨"M2", 0, false⟩, ()⟩
    (compile (fun _ => true) (fun _ d => some d.hdr.name) ⟨0, false⟩ [a, b]) =
      [Ev.emitted "M2" "A" "M2", Ev.replWarn "M1" "A"] := by
  decide

/-- one definition's event, given the state its module is generated with -/
def evOf (gen : BState → Def β → Option String) (d : Def β) : Ev :=
  match gen ⟨d.hdr.tag, d.hdr.ext⟩ d with
  | some t => .emitted d.hdr.name d.name t
  | none => .genWarn d.hdr.name d.name

/-- all definitions of one module carry the module's header -/
def HeadersConsistent (ds : List (Def β)) : Prop :=
  ∀ d ∈ ds, ∀ d' ∈ ds, d.hdr.name = d'.hdr.name → d.hdr = d'.hdr

/-- Locality: the event of a definition is a function of that definition alone (`gen` may inspect
    what the definition refers to, but nothing else flows between definitions in the skeleton):
    replacing, adding or removing other definitions — including ones that only produce warnings —
    cannot alter it. -/
theorem C10_local (gen : BState → Def β → Option String) (st : BState) (tlds : List (Def β))
    (hc : ∀ d ∈ tlds, ∀ d' ∈ tlds, d.hdr = d'.hdr) :
    (generateModule gen st tlds).2 = tlds.map (evOf gen) := by
  cases tlds with
  | nil => rfl
  | cons d t =>
    simp only [generateModule]
    apply List.map_congr_left
    intro x hx
    have := hc x hx d List.mem_cons_self
    simp only [evOf, this]
    rfl

/-- non-vacuity: three definitions in two modules, one of them invalid, one a generator warning -/
example : compile (fun d : Def Nat => d.body != 1) (fun _ d => if d.body == 2 then none else some "t") ⟨0, false⟩
    [⟨"A", ⟨"M1", 0, false⟩, 0⟩, ⟨"B", ⟨"M1", 0, false⟩, 1⟩, ⟨"C", ⟨"M2", 1, true⟩, 2⟩] =
    [Ev.emitted "M1" "A" "t", Ev.genWarn "M2" "C", Ev.valWarn "B"] := by decide

/-- **every event of the fold names its definition** (since fix `5af954a`), for any generator whose errors, when
    they name a definition at all, name the one at hand -/
theorem C10_generator_events_name_their_definition (gen : Def β → GenOut) (tlds : List (Def β))
    (h : ∀ x n, gen x = .err (some n) → n = x.name) :
    moduleSubjects warnSubject gen tlds = tlds.map (fun x => some x.name) := by
  unfold moduleSubjects
  apply List.map_congr_left
  intro x _
  cases hg : gen x with
  | ok t => rfl
  | err e =>
    cases e with
    | none => rfl
    | some n => simp [warnSubject, h x n hg]

/-- the fold as it was: a generator error without a subject leaves a definition that no event names -/
theorem C10_old_fold_counterexample :
    let d : Def Unit := ⟨"v", ⟨"M", 0, false⟩, ()⟩
    moduleSubjects warnSubjectOld (fun _ => GenOut.err none) [d] = [none] ∧
    moduleSubjects warnSubject (fun _ => GenOut.err none) [d] = [some "v"] := by
  decide


end Props.C10

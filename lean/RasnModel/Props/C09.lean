import RasnModel.Link.ComponentsOf
import RasnModel.Link.Params
import RasnModel.Proofs.Params
/-
  C09 — notations defined by expansion compile like their hand-expanded form (COMPONENTS OF part).
  Value parameters of parameterized types: the linker's scope extension (Link/Params) against X.683's
  simultaneous substitution, for every module, template and argument list — names of formal parameters
  that coincide with names of constants included (second part of this file).
  Value references / named numbers in constraints, type parameters, selection types and class field types
  are decided by the oracle (sugared module vs hand-expanded module), see DESIGN.md.
-/
namespace Props.C09
open Link

theorem foldl_push (ms : List String) : ∀ (acc : Linked), (ms.foldl push acc) = ⟨acc.members ++ ms, acc.ext.map (· + ms.length)⟩ := by
  induction ms with
  | nil => intro acc; cases acc with | mk m e => cases e <;> simp [Option.map]
  | cons m ms ih =>
    intro acc
    rw [List.foldl_cons, ih]
    cases acc with
    | mk mem e =>
      cases e <;> simp [push, Option.map, Nat.add_assoc, Nat.add_comm 1]

theorem comps_of_noOf : ∀ (is : List Item), noOf is = true → ofs is = []
  | [], _ => rfl
  | .comp _ :: is, h => by simpa [ofs] using comps_of_noOf is (by simpa [noOf] using h)
  | .of _ :: _, h => by simp [noOf] at h

theorem comps_length_noOf : ∀ (is : List Item), noOf is = true → (comps is).length = is.length
  | [], _ => rfl
  | .comp _ :: is, h => by simp only [comps, List.length_cons, comps_length_noOf is (by simpa [noOf] using h)]
  | .of _ :: _, h => by simp [noOf] at h

theorem take_root (is : List Item) (x : List String) (h : noOf is = true) : (comps is ++ x).take is.length = comps is := by
  rw [← comps_length_noOf is h]
  simp

theorem flatMap_noOf (g : String → List String) : ∀ (is : List Item), noOf is = true →
    (is.flatMap fun | .comp n => [n] | .of r => g r) = comps is
  | [], _ => rfl
  | .comp n :: is, h => by
    simp only [List.flatMap_cons, comps, List.singleton_append]
    rw [flatMap_noOf g is (by simpa [noOf] using h)]
  | .of _ :: _, h => by simp [noOf] at h

theorem comps_nil_flatMap (g : String → List String) : ∀ (is : List Item), comps is = [] →
    (is.flatMap fun | .comp n => [n] | .of r => g r) = (ofs is).flatMap g
  | [], _ => rfl
  | .comp n :: is, h => by simp [comps] at h
  | .of r :: is, h => by
    simp only [List.flatMap_cons, ofs]
    rw [comps_nil_flatMap g is (by simpa [comps] using h)]

theorem tail_flatMap (g : String → List String) : ∀ (is : List Item), tailForm is = true →
    (is.flatMap fun | .comp n => [n] | .of r => g r) = comps is ++ (ofs is).flatMap g
  | [], _ => rfl
  | .comp n :: is, h => by
    have ih := tail_flatMap g is (by simpa [tailForm] using h)
    simp only [List.flatMap_cons, comps, ofs, List.cons_append, List.nil_append, ih]
  | .of r :: is, h => by
    have hc : comps is = [] := by simpa [tailForm] using h
    simp only [List.flatMap_cons, comps, ofs, hc, List.nil_append]
    rw [comps_nil_flatMap g is hc]

/-- the fold of the linker with an accumulator that has no extension index is an append -/
theorem fold_no_ext (g : String → List String) : ∀ (rs : List String) (ms : List String),
    (rs.foldl (fun (acc : Linked) r => (g r).foldl push acc) ⟨ms, none⟩) = ⟨ms ++ rs.flatMap g, none⟩ := by
  intro rs
  induction rs with
  | nil => intro ms; simp
  | cons r rs ih =>
    intro ms
    rw [List.foldl_cons, foldl_push]
    simp only [Option.map]
    rw [ih]
    simp [List.append_assoc]

theorem mem_lookup {env : Env} {r : String} {t : SrcSeq} (h : env.lookup r = some t) : (r, t) ∈ env := by
  induction env with
  | nil => simp [List.lookup] at h
  | cons p ps ih =>
    obtain ⟨k, v⟩ := p
    simp only [List.lookup] at h
    split at h
    · next hk =>
      have : r = k := by simpa using hk
      cases h; subst this; exact List.mem_cons_self
    · exact List.mem_cons_of_mem _ (ih h)

/-- C09 (COMPONENTS OF), PARTIAL: in an environment where every SEQUENCE either has no COMPONENTS OF or
    has no extension marker and its COMPONENTS OF come last, the root members the linker produces — through
    reference chains of any length, whatever the names — are exactly the X.680 §25.5 expansion. -/
theorem C09_components_of_partial : ∀ (f : Nat) (env : Env) (vis : List String) (s : SrcSeq),
    DomEnv env = true → DomSeq s = true → rootOf (model f env vis s) = specRoot f env vis s := by
  intro f
  induction f with
  | zero =>
    intro env vis s _ hs
    simp only [model, specRoot, rootOf, lexExt, lexMembers]
    simp only [DomSeq, Bool.or_eq_true, Bool.and_eq_true] at hs
    cases he : s.ext with
    | none => simp only [Option.map, Option.getD, comps, List.append_nil]
    | some e =>
      rcases hs with ⟨hnone, _⟩ | ⟨h1, _⟩
      · simp [he] at hnone
      · simp only [Option.map, Option.getD]
        exact take_root s.root (comps e) h1
  | succ f ih =>
    intro env vis s henv hs
    -- the per-reference contribution is the same function on both sides
    let g : String → List String := fun r =>
      if vis.contains r then [] else
      match env.lookup r with
      | none => []
      | some t => specRoot f env (r :: vis) t
    have hg : ∀ r, (if vis.contains r then ([] : List String) else
        match env.lookup r with
        | none => []
        | some t => rootOf (model f env (r :: vis) t)) = g r := by
      intro r
      simp only [g]
      split
      · rfl
      · cases hl : env.lookup r with
        | none => rfl
        | some t =>
          have hm := mem_lookup hl
          have hd : DomSeq t = true := by
            have := List.all_eq_true.mp henv (r, t) hm
            simpa using this
          simp only [ih env (r :: vis) t henv hd]
    have hstep : ∀ (acc : Linked) (r : String),
        (if vis.contains r then acc else
          match env.lookup r with
          | none => acc
          | some t => (rootOf (model f env (r :: vis) t)).foldl push acc) = (g r).foldl push acc := by
      intro acc r
      rw [← hg r]
      split
      · rfl
      · cases env.lookup r <;> rfl
    have hmodel : model (f + 1) env vis s = (lexOfs s).foldl (fun acc r => (g r).foldl push acc) ⟨lexMembers s, lexExt s⟩ := by
      simp only [model]
      congr 1
      funext acc r
      exact hstep acc r
    have hspec : specRoot (f + 1) env vis s = s.root.flatMap fun | .comp n => [n] | .of r => g r := rfl
    rw [hmodel, hspec]
    simp only [DomSeq, Bool.or_eq_true, Bool.and_eq_true] at hs
    rcases hs with ⟨hnone, htail⟩ | ⟨h1, h2⟩
    · have he : s.ext = none := by
        cases h : s.ext with
        | none => rfl
        | some _ => simp [h] at hnone
      simp only [lexOfs, lexMembers, lexExt, he, Option.getD, Option.map, ofs, comps, List.append_nil]
      rw [fold_no_ext, tail_flatMap g s.root htail]
      rfl
    · simp only [lexOfs, comps_of_noOf _ h1, comps_of_noOf _ h2, List.append_nil, List.foldl_nil]
      rw [flatMap_noOf g s.root h1]
      simp only [rootOf, lexExt, lexMembers]
      cases he : s.ext with
      | none => simp [Option.map, Option.getD, comps]
      | some e =>
        simp only [Option.map, Option.getD]
        exact take_root s.root (comps e) h1

/-- FULL statement is false: COMPONENTS OF in the middle — the copied components are appended at the end -/
theorem C09_position_counterexample :
    let inner : SrcSeq := ⟨[.comp "i1", .comp "i2"], none⟩
    let mid : SrcSeq := ⟨[.comp "m1", .of "Inner", .comp "m2"], none⟩
    let env : Env := [("Inner", inner)]
    rootOf (model 2 env [] mid) = ["m1", "m2", "i1", "i2"] ∧ specRoot 2 env [] mid = ["m1", "i1", "i2", "m2"] := by
  decide

/-- … and with an extension marker in the referencing type: the first-extension index counts the
    COMPONENTS OF entry itself and is advanced once per copy, while the copies are appended behind the
    additions — so every addition ends up among the root members -/
theorem C09_marker_counterexample :
    let base : SrcSeq := ⟨[.comp "b1"], none⟩
    let user : SrcSeq := ⟨[.comp "u1", .of "Base"], some [.comp "x1"]⟩
    let env : Env := [("Base", base)]
    model 2 env [] user = ⟨["u1", "x1", "b1"], some 3⟩ ∧ rootOf (model 2 env [] user) = ["u1", "x1", "b1"]
      ∧ specRoot 2 env [] user = ["u1", "b1"] := by
  decide

/-- only the ROOT components of the referenced type are copied -/
theorem C09_only_root_copied :
    let base : SrcSeq := ⟨[.comp "id"], some [.comp "note", .comp "flag"]⟩
    let user : SrcSeq := ⟨[.comp "first", .of "Base"], none⟩
    rootOf (model 2 [("Base", base)] [] user) = ["first", "id"] := by
  decide

/-- a cycle of COMPONENTS OF terminates in both (the reference already being expanded is skipped) -/
theorem C09_cycle_terminates :
    let a : SrcSeq := ⟨[.comp "a1", .of "B"], none⟩
    let b : SrcSeq := ⟨[.comp "b1", .of "A"], none⟩
    let env : Env := [("A", a), ("B", b)]
    rootOf (model 5 env ["A"] a) = ["a1", "b1"] ∧ specRoot 5 env ["A"] a = ["a1", "b1"] := by
  decide

/-- non-vacuity of the domain: a chain of three through names that sort both ways -/
example : DomEnv [("Zeta", ⟨[.comp "z", .of "Alpha"], none⟩), ("Alpha", ⟨[.comp "a"], some [.comp "x"]⟩), ("Mid", ⟨[.comp "m", .of "Zeta"], none⟩)] = true := by decide

/-! ### value parameters of parameterized types (model `Link/Params`) -/
section Params
open Link.Params Proofs.Params

/-- every definition of the module resolves to a number within |module| steps (no dangling names, no cycles) -/
def ClosedModule (m : Scope) : Prop := ∀ x v, lookup m x = some v → ∃ k, follow m m.length v = .lit k
/-- every argument resolves to a number in the module's scope -/
def ClosedArgs (m : Scope) (args : List Val) : Prop := ∀ a ∈ args, ∃ k, follow m (fuelOf m) a = .lit k
/-- every reference in the body is a formal parameter or a definition of the module -/
def BoundBody (m : Scope) (t : Template) : Prop := ∀ x, Val.ref x ∈ t.body → x ∈ t.formals ∨ (lookup m x).isSome = true

/-- what one place of the body becomes in an instance = what it becomes in the hand-expanded definition -/
theorem place_eq (m : Scope) (t : Template) (args : List Val)
    (hm : ClosedModule m) (ha : ClosedArgs m args) (hl : t.formals.length = args.length) (v : Val)
    (hv : ∀ x, v = .ref x → x ∈ t.formals ∨ (lookup m x).isSome = true) :
    follow (instanceScope m t args) (fuelOf (instanceScope m t args)) v =
      follow m (fuelOf m) (substVal t args v) := by
  cases v with
  | lit n => simp [substVal]
  | ref x =>
    simp only [fuelOf, follow, substVal]
    by_cases hx : x ∈ t.formals
    · obtain ⟨a, hain, hza⟩ := lookup_zip_of_mem t.formals args x hx hl
      obtain ⟨k, hk⟩ := ha a hain
      have h1 : lookup (instanceScope m t args) x = some (.lit k) := by
        unfold instanceScope
        rw [lookup_append, lookup_zip_map, hza]
        simp [hk]
      rw [h1, hza]
      simp only [follow_lit, Option.getD_some]
      exact hk.symm
    · have hz : lookup (t.formals.zip args) x = none := lookup_zip_of_not_mem _ _ _ hx
      rcases hv x rfl with h | h
      · exact absurd h hx
      · obtain ⟨v', hv'⟩ := Option.isSome_iff_exists.mp h
        obtain ⟨k, hk⟩ := hm x v' hv'
        have hk1 : follow m (m.length + 1) v' = .lit k := follow_mono m _ _ _ hk
        have h1 : lookup (instanceScope m t args) x = some (.lit k) := by
          unfold instanceScope
          rw [lookup_append, lookup_zip_of_not_mem _ _ _ hx, lookup_hide_of_not_mem _ _ _ hx, lookup_resolveChains, hv']
          simp [fuelOf, hk1]
        rw [h1, hz]
        simp only [follow_lit, Option.getD_none, follow, hv']
        exact hk.symm

/-- C09_value_parameters: for EVERY module whose constants resolve, EVERY template and EVERY list of
    resolvable arguments — whatever the names of the formal parameters, names of constants of the module
    included — the bounds of an instance as the linker computes them (scope extension) are the bounds of
    the hand-expanded definition (simultaneous substitution, then an ordinary definition of the module). -/
theorem C09_value_parameters (m : Scope) (t : Template) (args : List Val)
    (hm : ClosedModule m) (ha : ClosedArgs m args) (hb : BoundBody m t) (hl : t.formals.length = args.length) :
    instantiate m t args = expanded m t args := by
  unfold instantiate expanded substitute
  rw [List.map_map]
  apply List.map_congr_left
  intro v hv
  simp only [Function.comp]
  exact place_eq m t args hm ha hl v (fun x e => hb x (e ▸ hv))

/-- C09_value_parameters_template_first: the same when the template itself was linked before it is
    instantiated (it is, whenever its name is popped earlier from the linker's sorted key list): linking
    the template leaves its formal parameters alone, also those named like a constant. -/
theorem C09_value_parameters_template_first (m : Scope) (t : Template) (args : List Val)
    (hm : ClosedModule m) (ha : ClosedArgs m args) (hb : BoundBody m t) (hl : t.formals.length = args.length) :
    instantiate m (linkTemplate m t) args = expanded m t args := by
  rw [← C09_value_parameters m t args hm ha hb hl]
  unfold instantiate linkTemplate
  simp only [List.map_map]
  have hs : instanceScope m { formals := t.formals, body := t.body.map (follow (hide t.formals (resolveChains m)) (fuelOf m)) } args
      = instanceScope m t args := rfl
  rw [hs]
  apply List.map_congr_left
  intro v hv
  simp only [Function.comp]
  cases v with
  | lit n => simp
  | ref x =>
    by_cases hx : x ∈ t.formals
    · have : follow (hide t.formals (resolveChains m)) (fuelOf m) (.ref x) = .ref x := by
        simp [fuelOf, follow, lookup_hide_of_mem _ _ _ hx]
      rw [this]
    · rcases hb x hv with h | h
      · exact absurd h hx
      · obtain ⟨v', hv'⟩ := Option.isSome_iff_exists.mp h
        obtain ⟨k, hk⟩ := hm x v' hv'
        have hk1 : follow m (m.length + 1) v' = .lit k := follow_mono m _ _ _ hk
        have h1 : follow (hide t.formals (resolveChains m)) (fuelOf m) (.ref x) = .lit k := by
          simp [fuelOf, follow, lookup_hide_of_not_mem _ _ _ hx, lookup_resolveChains, hv', hk1]
        have h2 := place_eq m t args hm ha hl (.ref x) (fun y e => hb y (e ▸ hv))
        rw [h1, h2]
        simp only [follow_lit, substVal, lookup_zip_of_not_mem _ _ _ hx, Option.getD_none, fuelOf, follow, hv']
        exact hk.symm

/-- the three witnesses of the defects repaired by 1c2f179 / fe8e34c, on the algorithm as it was:
    (1) `T { INTEGER : maxSize }`, `U ::= T { maxSize }`, `maxSize INTEGER ::= 64`: the argument refers to itself, the bound is lost;
    (2) `Tpl { n, m }`, `Inst ::= Tpl { m, 3 }`, `m INTEGER ::= 7`: the first argument picks up the second one;
    (3) `g INTEGER ::= m`, `T { m }` with body bound `g`, `U ::= T { 3 }`: the constant's reference is redirected to the parameter;
    and a template linked in the full scope has the constant substituted for its parameter. -/
theorem C09_old_scoping_counterexamples :
    instantiateOld [("maxSize", .lit 64)] ⟨["maxSize"], [.ref "maxSize"]⟩ [.ref "maxSize"] = [.ref "maxSize"] ∧
    expanded [("maxSize", .lit 64)] ⟨["maxSize"], [.ref "maxSize"]⟩ [.ref "maxSize"] = [.lit 64] ∧
    instantiateOld [("m", .lit 7)] ⟨["n", "m"], [.ref "n", .ref "m"]⟩ [.ref "m", .lit 3] = [.lit 3, .lit 3] ∧
    expanded [("m", .lit 7)] ⟨["n", "m"], [.ref "n", .ref "m"]⟩ [.ref "m", .lit 3] = [.lit 7, .lit 3] ∧
    instantiateOld [("m", .lit 7), ("g", .ref "m")] ⟨["m"], [.ref "g", .ref "m"]⟩ [.lit 3] = [.lit 3, .lit 3] ∧
    expanded [("m", .lit 7), ("g", .ref "m")] ⟨["m"], [.ref "g", .ref "m"]⟩ [.lit 3] = [.lit 7, .lit 3] ∧
    (linkTemplateOld [("m", .lit 7)] ⟨["m"], [.ref "m"]⟩).body = [.lit 7] ∧
    (linkTemplate [("m", .lit 7)] ⟨["m"], [.ref "m"]⟩).body = [.ref "m"] := by
  decide

/-- non-vacuity: the third witness meets every hypothesis of C09_value_parameters, and the repaired
    algorithm gives the expanded bounds on it -/
example : instantiate [("m", .lit 7), ("g", .ref "m")] ⟨["m"], [.ref "g", .ref "m"]⟩ [.lit 3] = [.lit 7, .lit 3] := by decide
example : ClosedArgs [("m", .lit 7), ("g", .ref "m")] [.lit 3] := by
  intro a ha; simp at ha; subst ha; exact ⟨3, by simp⟩

end Params

end Props.C09

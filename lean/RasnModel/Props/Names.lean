import RasnModel.Lexer.Names
/-
  The names C16 / C01 quantify over are exactly what the lexer's scanners take (used by C16, C13).
-/
namespace Props.Names
open Lexer.Names

theorem scanTail_append : ∀ (inp : List Char), (scanTail inp).1 ++ (scanTail inp).2 = inp
  | [] => rfl
  | c :: cs => by
    unfold scanTail
    split
    · simp [scanTail_append cs]
    · split
      · cases cs with
        | nil => simp
        | cons d ds =>
          simp only
          split
          · rename_i hc _
            have : c = '-' := by simpa using hc
            simp [this, scanTail_append ds]
          · simp
      · simp

/-- what the scanner takes behind the first character is a well-formed tail -/
theorem scanTail_wf : ∀ (inp : List Char), wfTail (scanTail inp).1 = true
  | [] => rfl
  | c :: cs => by
    unfold scanTail
    split
    · rename_i h
      show wfTail (c :: (scanTail cs).1) = true
      unfold wfTail
      simp only [h, ↓reduceIte]
      exact scanTail_wf cs
    · split
      · cases cs with
        | nil => rfl
        | cons d ds =>
          simp only
          split
          · rename_i h2
            show wfTail ('-' :: d :: (scanTail ds).1) = true
            unfold wfTail
            have hd : isAlnum '-' = false := by decide
            simp only [hd, Bool.false_eq_true, ↓reduceIte, beq_self_eq_true, h2, Bool.true_and]
            exact scanTail_wf ds
          · rfl
      · rfl

/-- … and the scanner stops only where no name can go on -/
theorem scanTail_stops : ∀ (inp : List Char), stops (scanTail inp).2 = true
  | [] => rfl
  | c :: cs => by
    unfold scanTail
    split
    · exact scanTail_stops cs
    · rename_i hc
      split
      · rename_i hh
        have e : c = '-' := by simpa using hh
        cases cs with
        | nil => simp [stops, hc]
        | cons d ds =>
          simp only
          split
          · exact scanTail_stops ds
          · rename_i hd
            simp [stops, hc, hd]
      · rename_i hh
        simp [stops, hc, hh]

/-- **soundness**: a scanned name is a name of X.680 §12 of the kind asked for, the input is name ++ rest,
    and the rest cannot continue the name -/
theorem scan_sound (first : Char → Bool) (inp name rest : List Char) (h : scanName first inp = some (name, rest)) :
    wfName first name = true ∧ name ++ rest = inp ∧ stops rest = true := by
  cases inp with
  | nil => simp [scanName] at h
  | cons c cs =>
    simp only [scanName] at h
    split at h
    · rename_i hf
      simp only [Option.some.injEq, Prod.mk.injEq] at h
      obtain ⟨h1, h2⟩ := h
      subst h1; subst h2
      refine ⟨?_, ?_, scanTail_stops cs⟩
      · simp [wfName, hf, scanTail_wf cs]
      · simp [scanTail_append cs]
    · cases h

/-- a well-formed tail followed by something that stops it is taken whole -/
theorem scanTail_complete : ∀ (t rest : List Char), wfTail t = true → stops rest = true → scanTail (t ++ rest) = (t, rest)
  | [], rest, _, hs => by
    cases rest with
    | nil => rfl
    | cons c cs =>
      simp only [stops, Bool.and_eq_true, Bool.not_eq_eq_eq_not, Bool.not_true] at hs
      obtain ⟨h1, h2⟩ := hs
      simp only [List.nil_append]
      unfold scanTail
      simp only [h1, Bool.false_eq_true, ↓reduceIte]
      split
      · rename_i hc
        cases cs with
        | nil => rfl
        | cons d ds =>
          simp only
          have : isAlnum d = false := by
            simp only [hc, Bool.true_and] at h2
            simpa using h2
          simp [this]
      · rfl
  | c :: cs, rest, hw, hs => by
    unfold wfTail at hw
    simp only [List.cons_append]
    unfold scanTail
    split at hw
    · rename_i h
      simp [h, scanTail_complete cs rest hw hs]
    · rename_i h
      split at hw
      · rename_i hc
        cases cs with
        | nil => simp at hw
        | cons d ds =>
          simp only [Bool.and_eq_true] at hw
          simp only [h, Bool.false_eq_true, ↓reduceIte, hc, List.cons_append, hw.1]
          have e : c = '-' := by simpa using hc
          simp [e, scanTail_complete ds rest hw.2 hs]
      · cases hw

/-- **completeness**: every name of X.680 §12 of the kind asked for, followed by nothing or by a character that
    cannot continue it, is scanned whole — so the names the mangling theorems quantify over are the names
    the lexer hands on -/
theorem scan_complete (first : Char → Bool) (name rest : List Char) (hw : wfName first name = true) (hs : stops rest = true) :
    scanName first (name ++ rest) = some (name, rest) := by
  cases name with
  | nil => simp [wfName] at hw
  | cons c cs =>
    simp only [wfName, Bool.and_eq_true] at hw
    simp [scanName, hw.1, scanTail_complete cs rest hw.2 hs]

/-- the left-to-right reading agrees with the prose of §12.3 (letters, digits, hyphens; no hyphen last, no two
    hyphens in a row), for a tail standing behind a letter or digit -/
theorem wfTail_iff_prose : ∀ (t : List Char) (prev : Char), isAlnum prev = true → (wfTail t = prose prev t)
  | [], prev, hp => by
    have : prev ≠ '-' := by intro e; subst e; revert hp; decide
    simp [wfTail, prose, this]
  | c :: cs, prev, hp => by
    have hne : prev ≠ '-' := by intro e; subst e; revert hp; decide
    unfold wfTail
    simp only [prose]
    split
    · rename_i h
      simp [h, wfTail_iff_prose cs c h]
    · rename_i h
      split
      · rename_i hc
        have e : c = '-' := by simpa using hc
        subst e
        cases cs with
        | nil => simp [prose, hne]
        | cons d ds =>
          simp only [prose]
          by_cases hd : isAlnum d = true
          · simp [hd, hne, wfTail_iff_prose ds d hd]
          · simp [hd, hne]
      · rename_i hc
        simp [h, hc]

/- non-vacuity and the two corner cases (tests, evaluated by the compiler): a trailing hyphen and a double hyphen
   are left to the next token -/
#guard scanName isUpper "Ab-C1 ::=".toList == some ("Ab-C1".toList, " ::=".toList)
#guard scanName isLower "a- b".toList == some ("a".toList, "- b".toList)
#guard scanName isLower "a--b".toList == some ("a".toList, "--b".toList)
#guard scanName isUpper "x".toList == none
#guard wfName isUpper "Ab-C1".toList && !wfName isUpper "Ab-".toList && !wfName isLower "a--b".toList && stops " ::=".toList

end Props.Names

import RasnModel.Proofs.Struct
import RasnModel.Props.C02
/-
  C05 — extension markers, additions and addition groups are preserved.
  Model: Lexer/Assemble.lean (members = root ++ additions, index of first addition = root.length,
  `[[ ]]` ↦ one synthetic member) and Gen/Struct.lean (marks chosen by comparing the member index
  with the stored index; #[non_exhaustive] from marker or EXTENSIBILITY IMPLIED).
  Spec: Spec/Struct.lean (a component is an addition iff written after the marker).
-/
namespace Props.C05
open IR Lexer Gen.Struct Spec.Struct Proofs.Struct

/-- #[non_exhaustive] exactly when a marker is present or the module says EXTENSIBILITY IMPLIED -/
theorem C05_ext_iff {α : Type} (root adds : List α) (marker implied : Bool) :
    nonExhaustive (assemble root marker adds).2 implied (assemble root marker adds).1.length = (marker || implied) := by
  cases marker <;> cases implied <;> simp [nonExhaustive, assemble]

/-- Index arithmetic, SEQUENCE/SET: the marks chosen by index comparison are exactly "none on the
    root, addition / addition-group on what follows the marker" — any root length (incl. 0), any
    number of additions and groups. -/
theorem C05_additions_exact (mk : Option Nat → Nat → SrcComp → FieldF)
    (hmk : ∀ e i c, (mk e i c).ext = extAnnotation i e (isGroupName c.name))
    (root : List SrcComp) (adds : List SrcAdd) (marker : Bool)
    (hn : ∀ a ∈ adds, addNamesOk a = true) :
    (fieldsOf (mk (assembleBody root marker adds).2) (assembleBody root marker adds).1).map (·.ext) =
      if marker then root.map (fun _ => ExtF.none) ++ adds.map addExt
      else (root ++ lexAdds adds).map (fun _ => ExtF.none) := by
  simp only [fieldsOf, assembleBody, assemble, List.map_map]
  have hfun : ∀ e, ((fun f : FieldF => f.ext) ∘ fun (x : SrcComp × Nat) => mk e x.2 x.1) =
      fun (ci : SrcComp × Nat) => extAnnotation ci.2 e (isGroupName ci.1.name) := by
    intro e; funext x; simp [hmk]
  cases marker with
  | false => simp only [if_false, Bool.false_eq_true, hfun]; exact ext_none (fun c => isGroupName c.name) _ 0
  | true =>
    simp only [if_true, hfun, List.zipIdx_append, List.map_append, Nat.zero_add]
    rw [ext_before (fun c => isGroupName c.name) root.length root 0 (by omega),
      ext_after (fun c => isGroupName c.name) root.length (lexAdds adds) root.length (Nat.le_refl _), lexAdds_ext adds hn]

theorem fieldOf_ext (env : TEnv) (fl : Bool) (parent : String) (e : Option Nat) (i : Nat) (c : SrcComp) :
    (fieldOf env fl parent e i c).ext = extAnnotation i e (isGroupName c.name) := rfl

theorem variantOf_ext (env : TEnv) (fl : Bool) (parent : String) (e : Option Nat) (i : Nat) (c : SrcComp) :
    (variantOf env fl parent e i c).ext = extAnnotation i e (isGroupName c.name) := rfl

/-- ENUMERATED: items after the marker, and only those, are extension additions -/
theorem C05_enum_additions (root adds : List String) (marker : Bool) :
    (enumVariants (assemble root marker adds).1 (assemble root marker adds).2).map (·.ext) =
      if marker then root.map (fun _ => ExtF.none) ++ adds.map (fun _ => ExtF.addition)
      else (root ++ adds).map (fun _ => ExtF.none) := by
  simp only [enumVariants, assemble, List.map_map]
  have hfun : ∀ e, ((fun f : FieldF => f.ext) ∘ fun (x : String × Nat) =>
      ({ name := enumIdS x.1, ty := "", tag := none, ext := extAnnotation x.2 e false, hasDefault := false,
         identifier := identAnn (enumIdS x.1) x.1 } : FieldF)) =
      fun (ci : String × Nat) => extAnnotation ci.2 e false := by
    intro e; funext x; rfl
  cases marker with
  | false => simp only [if_false, Bool.false_eq_true, hfun]; exact enum_none _ 0
  | true =>
    simp only [if_true, hfun, List.zipIdx_append, List.map_append, Nat.zero_add]
    rw [enum_before root.length root 0 (by omega), enum_after root.length adds root.length (Nat.le_refl _)]

/-- A `[[ v: c1 … ck ]]` group becomes ONE member: an optional field of the hoisted addition-group
    struct, which holds exactly the grouped components in order. -/
theorem C05_group (env : TEnv) (fl : Bool) (parent : String) (e : Option Nat) (i : Nat) (v : Option Nat) (cs : List SrcComp) :
    (lexAdd (.group v cs)).ty = SrcType.seq false cs false [] ∧
    (fieldOf env fl parent e i (lexAdd (.group v cs))).ty =
      "Option<" ++ innerNameS (groupMember cs).name parent ++ ">" ∧
    (∀ k, e = some k → k ≤ i → (fieldOf env fl parent e i (lexAdd (.group v cs))).ext = ExtF.group) := by
  have hg := isGroupName_group cs
  have hty : (groupMember cs).ty = SrcType.seq false cs false [] := rfl
  refine ⟨rfl, ?_, ?_⟩
  · simp only [fieldOf, lexAdd, hg, Bool.or_true, if_true, memberTypeName, hty, needsUnnesting]
  · intro k hk hki
    simp only [fieldOf, lexAdd, hg, extAnnotation, hk]
    simp [hki]

theorem specAdd_ext (sctx : SCtx) (mk : SCtx → String → ExtF → SrcComp → FieldF) (hmk : ∀ c x p e, (mk c p e x).ext = e)
    (n : String) (a : SrcAdd) : (specAddField sctx mk n a).ext = addExt a := by
  cases a with
  | comp c => simp [specAddField, addExt, hmk]
  | group v cs => simp [specAddField, addExt, groupField]

/-- the C05 facts of the model's SEQUENCE/SET/CHOICE/ENUMERATED item equal the spec's, at one level -/
theorem C05_level_head (ctx : Ctx) (sctx : SCtx) (himp : ctx.implied = sctx.implied)
    (recG : Rec) (recS : SRec) (fl : Bool) (name : String) (tag : Option Tag) (ty : SrcType)
    (hn : match ty with
          | .seq _ _ _ adds | .choice _ _ adds => ∀ a ∈ adds, addNamesOk a = true
          | _ => True)
    (hm : match ty with
          | .seq _ _ marker adds | .choice _ marker adds => marker = false → adds = []
          | .enumerated _ marker adds => marker = false → adds = []
          | _ => True) :
    ((genLevel ctx recG fl name tag ty).head?.map projC05) = ((specLevel sctx recS name tag ty).head?.map projC05) ∨
    (∃ s e t, ty = .seqOf s e t) := by
  cases ty with
  | seq isSet root marker adds =>
    left
    have := C05_additions_exact (fun e i c => fieldOf ctx.env fl (titleS name) e i c) (fun e i c => fieldOf_ext _ _ _ e i c) root adds marker hn
    simp only [genLevel, specLevel, List.head?_cons, Option.map_some, projC05, structItem, Option.some.injEq, Prod.mk.injEq]
    refine ⟨by simp only [assembleBody]; rw [C05_ext_iff, himp], ?_⟩
    rw [this]
    have hs := specAdd_ext sctx specField (fun _ _ _ _ => rfl) (titleS name)
    cases marker with
    | true => simp [List.map_append, List.map_map, specField, Function.comp_def, hs]
    | false => have := hm rfl; subst this; simp [lexAdds, List.map_map, specField, Function.comp_def]
  | choice root marker adds =>
    left
    have := C05_additions_exact (fun e i c => variantOf ctx.env fl (titleS name) e i c) (fun e i c => variantOf_ext _ _ _ e i c) root adds marker hn
    simp only [genLevel, specLevel, List.head?_cons, Option.map_some, projC05, choiceItem, Option.some.injEq, Prod.mk.injEq]
    refine ⟨by simp only [assembleBody]; rw [C05_ext_iff, himp], ?_⟩
    rw [this]
    have hs := specAdd_ext sctx specVariant (fun _ _ _ _ => rfl) (titleS name)
    cases marker with
    | true => simp [List.map_append, List.map_map, specVariant, Function.comp_def, hs]
    | false => have := hm rfl; subst this; simp [lexAdds, List.map_map, specVariant, Function.comp_def]
  | enumerated root marker adds =>
    left
    have := C05_enum_additions root adds marker
    simp only [genLevel, specLevel, List.head?_cons, Option.map_some, projC05, enumItem, Option.some.injEq, Prod.mk.injEq]
    refine ⟨by rw [C05_ext_iff, himp], ?_⟩
    rw [this]
    cases marker with
    | true => simp [List.map_append, List.map_map, specEnumVariant, Function.comp_def]
    | false => have := hm rfl; subst this; simp [List.map_map, specEnumVariant, Function.comp_def]
  | seqOf s e t => right; exact ⟨s, e, t, rfl⟩
  | prim p => left; simp [genLevel, specLevel, projC05, newtypeItem, specNewtype]
  | ref n => left; simp [genLevel, specLevel, projC05, newtypeItem, specNewtype]

/-- non-vacuity: marker first, marker last, a group with a version number -/
example :
    (fieldsOf (fieldOf .Automatic true "T" (assembleBody [] true [.comp (.mk "a" none (.prim "BOOLEAN") .required)]).2)
      (assembleBody [] true [.comp (.mk "a" none (.prim "BOOLEAN") .required)]).1).map (·.ext) = [ExtF.addition] ∧
    (fieldsOf (fieldOf .Automatic true "T" (assembleBody [.mk "a" none (.prim "BOOLEAN") .required] true
        [.group (some 2) [.mk "b" none (.prim "NULL") .required]]).2)
      (assembleBody [.mk "a" none (.prim "BOOLEAN") .required] true
        [.group (some 2) [.mk "b" none (.prim "NULL") .required]]).1).map (·.ext) = [ExtF.none, ExtF.group] := by
  decide

end Props.C05

namespace Props.C05
open IR Lexer Gen.Struct Spec.Struct Proofs.Struct

/-- well-formedness of the notation, one level: additions only after a marker, user names are ASN.1
    identifiers (never the internal group prefix), and the same for every nested type -/
def wfLevel (rec : SrcType → Bool) : SrcType → Bool
  | .seq _ root marker adds | .choice root marker adds =>
    (marker || adds.isEmpty) && adds.all addNamesOk && root.all (fun c => rec c.ty) &&
    adds.all (fun a => match a with
      | .comp c => rec c.ty
      | .group _ cs => rec (.seq false cs false []))
  | .enumerated _ marker adds => marker || adds.isEmpty
  | .seqOf _ e _ => rec e
  | _ => true

def wf : Nat → SrcType → Bool
  | 0 => fun _ => true
  | f + 1 => wfLevel (wf f)

theorem level_all (ctx : Ctx) (sctx : SCtx) (himp : ctx.implied = sctx.implied) (recG : Rec) (recS : SRec) (wfr : SrcType → Bool)
    (hrec : ∀ fl n t t' ty, wfr ty = true → (recG fl n t ty).map projC05 = (recS n t' ty).map projC05)
    (fl : Bool) (name : String) (tag tag' : Option Tag) (ty : SrcType) (hw : wfLevel wfr ty = true) :
    (genLevel ctx recG fl name tag ty).map projC05 = (specLevel sctx recS name tag' ty).map projC05 := by
  have nested_eq : ∀ (parent : String) (root : List SrcComp) (adds : List SrcAdd),
      root.all (fun c => wfr c.ty) = true →
      adds.all (fun a => match a with | .comp c => wfr c.ty | .group _ cs => wfr (.seq false cs false [])) = true →
      (nestedGen recG parent (root ++ lexAdds adds)).map projC05 =
        (root.flatMap (nestedOf recS parent) ++ adds.flatMap (nestedAdd recS parent)).map projC05 := by
    intro parent root adds hr ha
    simp only [nestedGen, List.flatMap_append, List.map_append, List.map_flatMap, lexAdds, List.flatMap_map]
    congr 1
    · apply flatMap_congr'
      intro c hc
      have := List.all_eq_true.mp hr c hc
      simp only [nestedOf]
      by_cases hu : needsUnnesting c.ty = true
      · simp only [hu, if_true]; exact hrec _ _ _ _ _ this
      · simp only [hu, if_false]; rfl
    · apply flatMap_congr'
      intro a ha'
      have := List.all_eq_true.mp ha a ha'
      cases a with
      | comp c =>
        simp only [lexAdd, nestedAdd, nestedOf]
        by_cases hu : needsUnnesting c.ty = true
        · simp only [hu, if_true]; exact hrec _ _ _ _ _ this
        · simp only [hu, if_false]; rfl
      | group v cs =>
        have hty : (groupMember cs).ty = SrcType.seq false cs false [] := rfl
        simp only [lexAdd, nestedAdd, hty, needsUnnesting, if_true]
        exact hrec _ _ _ _ _ this
  cases ty with
  | seq isSet root marker adds =>
    simp only [wfLevel, Bool.and_eq_true, Bool.or_eq_true, List.isEmpty_iff] at hw
    obtain ⟨⟨⟨hm, hn⟩, hr⟩, ha⟩ := hw
    have hn' : ∀ a ∈ adds, addNamesOk a = true := List.all_eq_true.mp hn
    have hm' : marker = false → adds = [] := by
      intro h
      cases hm with
      | inl h' => rw [h] at h'; cases h'
      | inr h' => exact h'
    have hh := C05_level_head ctx sctx himp recG recS fl name tag (.seq isSet root marker adds) hn' hm'
    rcases hh with hh | ⟨_, _, _, h⟩
    · simp only [genLevel, specLevel, List.head?_cons, Option.map_some, Option.some.injEq] at hh
      simp only [genLevel, specLevel, List.map_cons, assembleBody, assemble]
      -- the head's C05 facts do not depend on the tag argument
      have hh' : projC05 (structItem ctx fl (titleS name) tag isSet (assembleBody root marker adds).1 (assembleBody root marker adds).2) =
          projC05 ({ name := titleS name, kind := .struct, isSet := isSet, nonExhaustive := marker || sctx.implied,
                     automaticTags := automaticSpec sctx root adds, tag := specTag sctx tag' (.seq isSet root marker adds),
                     fields := root.map (specField sctx (titleS name) .none) ++ adds.map (specAddField sctx specField (titleS name)) } : ItemF) := by
        rw [hh]; rfl
      simp only [assembleBody, assemble] at hh'
      rw [hh', nested_eq _ root adds hr ha]
    · cases h
  | choice root marker adds =>
    simp only [wfLevel, Bool.and_eq_true, Bool.or_eq_true, List.isEmpty_iff] at hw
    obtain ⟨⟨⟨hm, hn⟩, hr⟩, ha⟩ := hw
    have hn' : ∀ a ∈ adds, addNamesOk a = true := List.all_eq_true.mp hn
    have hm' : marker = false → adds = [] := by
      intro h
      cases hm with
      | inl h' => rw [h] at h'; cases h'
      | inr h' => exact h'
    have hh := C05_level_head ctx sctx himp recG recS fl name tag (.choice root marker adds) hn' hm'
    rcases hh with hh | ⟨_, _, _, h⟩
    · simp only [genLevel, specLevel, List.head?_cons, Option.map_some, Option.some.injEq] at hh
      simp only [genLevel, specLevel, List.map_cons, assembleBody, assemble]
      have hh' : projC05 (choiceItem ctx fl (titleS name) tag (assembleBody root marker adds).1 (assembleBody root marker adds).2) =
          projC05 ({ name := titleS name, kind := .choice, isSet := false, nonExhaustive := marker || sctx.implied,
                     automaticTags := automaticSpec sctx root adds, tag := specTag sctx tag' (.choice root marker adds),
                     fields := root.map (specVariant sctx (titleS name) .none) ++ adds.map (specAddField sctx specVariant (titleS name)) } : ItemF) := by
        rw [hh]; rfl
      simp only [assembleBody, assemble] at hh'
      rw [hh', nested_eq _ root adds hr ha]
    · cases h
  | enumerated root marker adds =>
    simp only [wfLevel, Bool.or_eq_true, List.isEmpty_iff] at hw
    have hm' : marker = false → adds = [] := by
      intro h
      cases hw with
      | inl h' => rw [h] at h'; cases h'
      | inr h' => exact h'
    have hh := C05_level_head ctx sctx himp recG recS fl name tag (.enumerated root marker adds) trivial hm'
    rcases hh with hh | ⟨_, _, _, h⟩
    · simp only [genLevel, specLevel, List.head?_cons, Option.map_some, Option.some.injEq] at hh
      simp only [genLevel, specLevel, List.map_cons, List.map_nil]
      congr 1
    · cases h
  | seqOf s e t =>
    simp only [wfLevel] at hw
    simp only [genLevel, specLevel, List.map_append, List.map_cons, List.map_nil]
    congr 1
    cases e with
    | ref n => rfl
    | prim p => exact hrec _ _ _ _ _ hw
    | seq a b c d => exact hrec _ _ _ _ _ hw
    | choice a b c => exact hrec _ _ _ _ _ hw
    | enumerated a b c => exact hrec _ _ _ _ _ hw
    | seqOf a b c => exact hrec _ _ _ _ _ hw
  | prim p => simp [genLevel, specLevel, projC05, newtypeItem, specNewtype]
  | ref n => simp [genLevel, specLevel, projC05, newtypeItem, specNewtype]

/-- C05 at every nesting depth: for every well-formed type, every item the generator emits (the
    type itself and everything hoisted out of it, to any depth) has exactly the extensibility facts
    the reference semantics prescribes. -/
theorem C05_all_depths (ctx : Ctx) (sctx : SCtx) (himp : ctx.implied = sctx.implied) :
    ∀ (fuel : Nat) (fl : Bool) (name : String) (tag tag' : Option Tag) (ty : SrcType), wf fuel ty = true →
      (genItems ctx fuel fl name tag ty).map projC05 = (specItems sctx fuel name tag' ty).map projC05 := by
  intro fuel
  induction fuel with
  | zero => intro _ _ _ _ _ _; rfl
  | succ f ih =>
    intro fl name tag tag' ty hw
    exact level_all ctx sctx himp (genItems ctx f) (specItems sctx f) (wf f)
      (fun fl n t t' ty h => ih fl n t t' ty h) fl name tag tag' ty hw

end Props.C05

namespace Props.C05
open IR Lexer Gen.Struct Spec.Struct Proofs.Struct

/-- the named marks are determined by the positional marks (C05) and the field names (C02) -/
def combine (c2 : ItemKind × Bool × List (String × String × Bool)) (c5 : Bool × List ExtF) : Bool × List (String × ExtF) :=
  (c5.1, (c2.2.2.map (·.1)).zip c5.2)

theorem zip_names (l : List FieldF) :
    l.map (fun f => (f.name, f.ext)) = ((l.map fun f => (f.name, f.ty, f.hasDefault)).map (·.1)).zip (l.map (·.ext)) := by
  induction l with
  | nil => rfl
  | cons a t ih => simp only [List.map_cons, List.zip_cons_cons, ih]

theorem projC05n_eq (i : ItemF) : projC05n i = combine (projC02 i) (projC05 i) := by
  simp only [projC05n, combine, projC02, projC05, zip_names]

theorem map_combine {α β γ δ : Type} (f : α → β) (g : α → γ) (c : γ → β → δ) :
    ∀ (l1 l2 : List α), l1.map f = l2.map f → l1.map g = l2.map g →
      l1.map (fun x => c (g x) (f x)) = l2.map (fun x => c (g x) (f x)) := by
  intro l1
  induction l1 with
  | nil => intro l2 h _; cases l2 with
    | nil => rfl
    | cons b t => simp at h
  | cons a t ih =>
    intro l2 hf hg
    cases l2 with
    | nil => simp at hf
    | cons b t2 =>
      simp only [List.map_cons, List.cons.injEq] at hf hg ⊢
      exact ⟨by rw [hf.1, hg.1], ih t2 hf.2 hg.2⟩

/-- C05 by name, at every nesting depth: in every item the generator emits, the *named* components
    that carry an extension mark are exactly the ones written after the marker (positional marks from
    `C05_all_depths`, names in order from `C02_all_depths`). A generator that kept the marks by
    position but permuted the components under them would satisfy the former and not this. -/
theorem C05_named_all_depths (ctx : Ctx) (sctx : SCtx) (himp : ctx.implied = sctx.implied)
    (fuel : Nat) (fl : Bool) (name : String) (tag tag' : Option Tag) (ty : SrcType)
    (hw : wf fuel ty = true) (hw2 : Props.C02.wf fuel ty = true) :
    (genItems ctx fuel fl name tag ty).map projC05n = (specItems sctx fuel name tag' ty).map projC05n := by
  have h5 := C05_all_depths ctx sctx himp fuel fl name tag tag' ty hw
  have h2 := Props.C02.C02_all_depths ctx sctx fuel fl name tag tag' ty hw2
  have := map_combine projC05 projC02 combine _ _ h5 h2
  simpa only [← projC05n_eq] using this

/-- list equality of the named marks gives the order-insensitive comparison the driver applies -/
theorem sameC05n_of_eq (o e : ItemF) (h : projC05n o = projC05n e) : sameC05n o e = true := by
  simp only [projC05n, Prod.mk.injEq] at h
  obtain ⟨h1, h2⟩ := h
  have hl : o.fields.length = e.fields.length := by simpa using congrArg List.length h2
  simp only [sameC05n, h1, hl, beq_self_eq_true, Bool.true_and, List.all_eq_true, List.any_eq_true, Bool.and_eq_true, beq_iff_eq]
  intro f hf
  have : (f.name, f.ext) ∈ e.fields.map (fun f => (f.name, f.ext)) := List.mem_map.mpr ⟨f, hf, rfl⟩
  rw [← h2] at this
  obtain ⟨g, hg, hge⟩ := List.mem_map.mp this
  simp only [Prod.mk.injEq] at hge
  exact ⟨g, hg, hge.1, hge.2⟩

end Props.C05

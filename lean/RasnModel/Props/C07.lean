import RasnModel.Lexer.Values
import RasnModel.Spec.Values
import RasnModel.Proofs.Values
import RasnModel.Proofs.GenValues
import RasnModel.Proofs.TsStrings
import RasnModel.Proofs.Octets
import RasnModel.Proofs.Lines
/-
  C07 — value assignments and DEFAULTs denote the source abstract value (leaf conversions).
  `hexToBools` and `wellKnown` are REGENERATED from /repo on every run. Composite values
  (CHOICE / SEQUENCE / SET / SEQUENCE OF, nested to any depth, through chains of type references,
  with DEFAULTs filled in) are modelled in `Link/Values` (the composite arms of `link_with_type`,
  `link_struct_like`, `link_array_like`) and proved against the relational reading `Denotes` at
  the end of this file. The rendering of a linked composite value as a Rust expression (the composite arms of
  `value_to_tokens`, `Gen/Values`) is proved to keep the value in the section `Rendering`; the leaf arms are
  evaluated symbolically by the harness (PARTIAL: no Lean model of the leaf literals' printing).
-/
namespace Props.C07
open Lexer.Values Spec.Values Extracted.Values

/-- the regenerated hex-digit table: every digit denotes its value, most significant bit first -/
theorem C07_hex_digit : ∀ c ∈ hexDigits, hexToBools c = natToBits 4 (hexVal c) := by decide

theorem flatMap_hex (s : List Char) (h : ∀ c ∈ s, c ∈ hexDigits) : s.flatMap hexToBools = hstringBits s := by
  induction s with
  | nil => rfl
  | cons c t ih =>
    simp only [List.flatMap_cons, hstringBits]
    rw [C07_hex_digit c (h c List.mem_cons_self)]
    congr 1
    exact ih (fun x hx => h x (List.mem_cons_of_mem _ hx))

theorem hstringBits_length (s : List Char) : (hstringBits s).length = 4 * s.length := by
  induction s with
  | nil => rfl
  | cons c t ih =>
    simp only [hstringBits, List.flatMap_cons, List.length_append, List.length_cons]
    have : (natToBits 4 (hexVal c)).length = 4 := by simp [natToBits]
    rw [this]
    simp only [hstringBits] at ih
    omega

/-- hstring of any length: four bits per digit, bit for bit the digits' values -/
theorem C07_hstring (s : List Char) (h : ∀ c ∈ s, c ∈ hexDigits) :
    bitStringValue 'H' s = hstringBits s ∧ (bitStringValue 'H' s).length = 4 * s.length := by
  have e : bitStringValue 'H' s = s.flatMap hexToBools := by simp [bitStringValue]
  rw [e, flatMap_hex s h]
  exact ⟨rfl, hstringBits_length s⟩

/-- bstring: one bit per digit -/
theorem C07_bstring (s : List Char) : bitStringValue 'B' s = bstringBits s := by
  simp [bitStringValue, bstringBits]

/-- one octet: the recursive `is_bit_set` expansion is the MSB-first binary expansion (all 256 values) -/
theorem C07_octet_bits : ∀ b ∈ List.range 256, isBitSet 8 b 128 = natToBits 8 b := by decide +kernel

/-- … and folding a chunk back gives the octet (all 256 values) -/
theorem C07_chunk_roundtrip : ∀ b ∈ List.range 256, chunkValue (natToBits 8 b) = b := by decide +kernel

/-- octet strings of any length convert to the MSB-first bit string -/
theorem C07_octets_to_bits (o : List Nat) (h : ∀ b ∈ o, b < 256) : octetsToBits o = octetBits o := by
  induction o with
  | nil => rfl
  | cons b t ih =>
    simp only [octetsToBits, octetBits, List.flatMap_cons]
    rw [C07_octet_bits b (List.mem_range.mpr (h b List.mem_cons_self))]
    congr 1
    exact ih (fun x hx => h x (List.mem_cons_of_mem _ hx))

theorem natToBits8_length (b : Nat) : (natToBits 8 b).length = 8 := by simp [natToBits]

/-- bits → octets inverts octets → bits (any length; fuel = number of octets + 1 suffices) -/
theorem C07_octets_bits_roundtrip (o : List Nat) (h : ∀ b ∈ o, b < 256) :
    bitsToOctets (o.length + 1) (octetsToBits o) = some o := by
  rw [C07_octets_to_bits o h]
  induction o with
  | nil => simp [bitsToOctets, octetBits]
  | cons b t ih =>
    have hb : b ∈ List.range 256 := List.mem_range.mpr (h b List.mem_cons_self)
    have hl := natToBits8_length b
    simp only [octetBits, List.flatMap_cons, List.length_cons]
    rw [bitsToOctets]
    have hne : (natToBits 8 b ++ List.flatMap (natToBits 8) t).isEmpty = false := by
      cases hn : natToBits 8 b with
      | nil => rw [hn] at hl; simp at hl
      | cons x xs => rfl
    simp only [hne, if_false, Bool.false_eq_true]
    have hd : (natToBits 8 b ++ List.flatMap (natToBits 8) t).drop 8 = List.flatMap (natToBits 8) t := by
      rw [List.drop_append_of_le_length (by omega)]
      simp [List.drop_of_length_le (by omega : (natToBits 8 b).length ≤ 8)]
    have ht : (natToBits 8 b ++ List.flatMap (natToBits 8) t).take 8 = natToBits 8 b := by
      rw [List.take_append_of_le_length (by omega)]
      exact List.take_of_length_le (by omega)
    rw [hd, ht, C07_chunk_roundtrip b hb]
    have := ih (fun x hx => h x (List.mem_cons_of_mem _ hx))
    simp only [octetBits] at this
    rw [this]; rfl

theorem nodup_map_inj {α β : Type} (f : α → β) : ∀ (l : List α), (l.map f).Nodup → ∀ a ∈ l, ∀ b ∈ l, f a = f b → a = b := by
  intro l
  induction l with
  | nil => intro _ a ha; cases ha
  | cons x xs ih =>
    intro hn a ha b hb hab
    simp only [List.map_cons, List.nodup_cons, List.mem_map, not_exists, not_and] at hn
    rcases List.mem_cons.mp ha with e1 | e1 <;> rcases List.mem_cons.mp hb with e2 | e2
    · rw [e1, e2]
    · subst e1; exact absurd hab.symm (hn.1 b e2)
    · subst e2; exact absurd hab (hn.1 a e1)
    · exact ih hn.2 a e1 b e2 hab

/-- named-bit lists: with distinct positions, bit `i` is one exactly when a listed name denotes `i` -/
theorem C07_named_bits (highest : Nat) (names : List String) (dv : List (String × Int))
    (hd : (dv.map (·.2)).Nodup) (hn : (dv.map (·.1)).Nodup) :
    namedBitsToBits (Int.ofNat highest) names dv =
      namedBits highest names (fun n => (dv.find? (fun d => d.1 == n)).map (·.2)) := by
  simp only [namedBitsToBits, namedBits]
  have e : (Int.ofNat highest + 1).toNat = highest + 1 := by
    show ((highest : Int) + 1).toNat = highest + 1
    omega
  rw [e]
  apply List.map_congr_left
  intro i _
  rw [Bool.eq_iff_iff]
  simp only [List.any_eq_true, beq_iff_eq]
  constructor
  · rintro ⟨n, hn', he⟩
    refine ⟨n, hn', ?_⟩
    -- n is the first name at position i, so looking n up gives i
    simp only [firstNameAt] at he
    cases hf : dv.find? (fun d => d.2 == Int.ofNat i) with
    | none => rw [hf] at he; simp at he
    | some d =>
      rw [hf] at he
      simp only [Option.map_some, Option.some.injEq] at he
      have hmem := List.mem_of_find?_eq_some hf
      have hp := List.find?_some hf
      simp only [beq_iff_eq] at hp
      -- the entry found by name is the same entry, by distinctness of names
      cases hg : dv.find? (fun d => d.1 == n) with
      | none =>
        have := List.find?_eq_none.mp hg d hmem
        simp [he] at this
      | some d' =>
        have hmem' := List.mem_of_find?_eq_some hg
        have hp' := List.find?_some hg
        simp only [beq_iff_eq] at hp'
        have : d' = d := by
          have h1 : d'.1 = d.1 := by rw [hp', he]
          exact nodup_map_inj (·.1) dv hn d' hmem' d hmem h1
        simp [this, hp]
  · rintro ⟨n, hn', he⟩
    refine ⟨n, hn', ?_⟩
    cases hg : dv.find? (fun d => d.1 == n) with
    | none => rw [hg] at he; simp at he
    | some d' =>
      rw [hg] at he
      simp only [Option.map_some, Option.some.injEq] at he
      have hmem' := List.mem_of_find?_eq_some hg
      have hp' := List.find?_some hg
      simp only [beq_iff_eq] at hp'
      simp only [firstNameAt]
      cases hf : dv.find? (fun d => d.2 == Int.ofNat i) with
      | none =>
        have := List.find?_eq_none.mp hf d' hmem'
        simp [he] at this
      | some d =>
        have hmem := List.mem_of_find?_eq_some hf
        have hp := List.find?_some hf
        simp only [beq_iff_eq] at hp
        have : d = d' := by
          have h2 : d.2 = d'.2 := by rw [hp, he]
          exact nodup_map_inj (·.2) dv hd d hmem d' hmem' h2
        simp [this, hp']

/-- cstring: unescaping inverts the doubling of quotation marks, for every string -/
theorem C07_cstring_unescape : ∀ s : List Char, unescape (escape s) = s := by
  intro s
  induction s with
  | nil => rfl
  | cons c t ih =>
    by_cases h : c = '"'
    · subst h; simp only [escape, unescape]; rw [ih]
    · have e1 : escape (c :: t) = c :: escape t := by simp [escape, h]
      rw [e1]
      have e2 : unescape (c :: escape t) = c :: unescape (escape t) := by
        cases het : escape t with
        | nil => simp [unescape]
        | cons d r => simp [unescape, h]
      rw [e2, ih]

/-- the regenerated well-known arc table equals X.660's, for every standard name at root and second level -/
theorem C07_oid_wellknown :
    (∀ n ∈ standardNames, ∀ r ∈ [none, some 0, some 1, some 2], rootArc n ≠ none → wellKnown (some n) r = rootArc n) ∧
    (∀ n ∈ standardNames, ∀ r ∈ [0, 1], rootArc n = none → wellKnown (some n) (some r) = secondArc r n) := by
  decide

/-- numbers given in the notation are kept; nothing is resolved without a name -/
theorem C07_oid_numbers_kept (arcs : List Arc) (h : ∀ a ∈ arcs, a.number.isSome) :
    resolveArcs arcs = arcs.map (fun a => ResolvedArc.num (a.number.getD 0)) := by
  simp only [resolveArcs]
  apply List.map_congr_left
  intro a ha
  have := h a ha
  cases hn : a.number with
  | none => rw [hn] at this; simp at this
  | some n => simp

/-- non-vacuity: 'A5'H, '1011'B, octet 165, named bits { urgent(7), ack(2), syn(0) } with { urgent, syn } -/
example : bitStringValue 'H' ['A', '5'] = [true, false, true, false, false, true, false, true] ∧
    octetsToBits [165] = [true, false, true, false, false, true, false, true] ∧
    namedBitsToBits 7 ["urgent", "syn"] [("urgent", 7), ("ack", 2), ("syn", 0)] =
      [true, false, false, false, false, false, false, true] ∧
    resolveArcs [⟨some "iso", none⟩, ⟨some "standard", none⟩, ⟨none, some 8571⟩] = [.num 1, .num 0, .num 8571] := by
  decide

/-! ### composite values (`Link/Values`) -/
section Composite
open Link.Values

mutual
/-- **every value that links denotes what the notation denotes**: for every governing type (any
    nesting, any chain of references, any DEFAULTs) and every value notation (any depth, fields in
    any order), if `link_with_type` succeeds, the linked value — one entry per component in
    declaration order, DEFAULTs filled in, list elements in order, the named alternative — is the
    abstract value X.680 gives the notation. -/
theorem C07_composite_denotes : ∀ (v : SVal) (ty : VTy) (l : LVal), link ty v = some l → Denotes ty v (absL l)
  | .atom a, ty, l, h => by
    simp only [link] at h
    split at h
    · rename_i sup hs
      cases h
      simp only [absL_wrap, absL]
      exact .atom (core_of_strip hs)
    · cases h
  | .choice a v, ty, l, h => by
    simp only [link] at h
    split at h
    · rename_i sup alts hs
      split at h
      · rename_i aty ha
        cases hi : link aty v with
        | none => simp [hi] at h
        | some i =>
          simp [hi] at h
          subst h
          simp only [absL_wrap, absL]
          exact .choice (core_of_strip hs) ha (C07_composite_denotes v aty i hi)
      · cases h
    · cases h
  | .braces fs, ty, l, h => by
    simp only [link] at h
    split at h
    · rename_i sup ms hs
      split at h
      · rename_i given hg
        cases ho : assemble given ms with
        | none => simp [ho] at h
        | some out =>
          simp [ho] at h
          subst h
          simp only [absL_wrap, absL]
          exact .record (core_of_strip hs) (linkGiven_names ms fs given hg)
            (assemble_denotes ms fs given (C07_given_denotes fs ms given hg) (linkGiven_none ms fs given hg) ms out ho)
      · cases h
    · rename_i sup e hs
      cases hx : linkElems e fs with
      | none => simp [hx] at h
      | some xs =>
        simp [hx] at h
        subst h
        simp only [absL_wrap, absL]
        exact .list (core_of_strip hs) (C07_elems_denote fs e xs hx)
    · cases h
/-- list elements: each denotes its notation, in order -/
theorem C07_elems_denote : ∀ (fs : List SField) (e : VTy) (xs : List LVal), linkElems e fs = some xs →
    DenotesAll e fs (absList xs)
  | [], e, xs, h => by
    simp only [linkElems] at h; cases h; exact .nil
  | .mk n v :: rest, e, xs, h => by
    simp only [linkElems] at h
    split at h
    · rename_i l r hl hr
      cases h
      simp only [absList]
      exact .cons (C07_composite_denotes v e l hl) (C07_elems_denote rest e r hr)
    · cases h
/-- what the second loop of `link_struct_like` finds under a name is the linked form of a field given
    under that name, read with the type of the component of that name -/
theorem C07_given_denotes : ∀ (fs : List SField) (ms : List VMember) (given : List (Option String × LVal)),
    linkGiven ms fs = some given → ∀ n lv, findGiven given n = some lv →
    ∃ v gty, SField.mk (some n) v ∈ fs ∧ findMember ms (some n) = some gty ∧ Denotes gty v (absL lv)
  | [], ms, given, h, n, lv, hf => by
    simp only [linkGiven] at h; cases h; simp [findGiven] at hf
  | .mk n' v' :: rest, ms, given, h, n, lv, hf => by
    simp only [linkGiven] at h
    split at h
    · rename_i mty hm
      split at h
      · rename_i l r hl hr
        cases h
        simp only [findGiven] at hf
        split at hf
        · rename_i heq
          cases hf
          have e : n' = some n := by simpa using heq
          subst e
          exact ⟨v', mty, List.mem_cons_self, hm, C07_composite_denotes v' mty lv hl⟩
        · obtain ⟨v, gty, hmem, hty, hd⟩ := C07_given_denotes rest ms r hr n lv hf
          exact ⟨v, gty, List.mem_cons_of_mem _ hmem, hty, hd⟩
      · cases h
    · cases h
end

/-- **the reading is a function**: a notation that names no component twice (hereditarily) denotes at most one
    abstract value under a governing type — `Denotes` determines *the* value, it does not merely allow one -/
theorem C07_reading_is_a_function (v : SVal) (hw : wfVal v) (ty : VTy) (x y : AbsVal)
    (hx : Denotes ty v x) (hy : Denotes ty v y) : x = y :=
  denotes_unique v hw ty x y hx hy

/-- **exactness**: whatever abstract value the notation denotes, a value that links denotes that one -/
theorem C07_composite_exact (v : SVal) (hw : wfVal v) (ty : VTy) (l : LVal) (x : AbsVal)
    (hl : link ty v = some l) (hx : Denotes ty v x) : absL l = x :=
  denotes_unique v hw ty _ _ (C07_composite_denotes v ty l hl) hx

/-- with pairwise distinct component names (X.680 §25.10) "the component called n" is the member
    itself, so a given value is read with its own member's type -/
theorem C07_component_of_name (pre post : List VMember) (n : String) (t : VTy) (d : Option LVal)
    (h : ∀ m, m ∈ pre → m.name ≠ n) : findMember (pre ++ .mk n t d :: post) (some n) = some t :=
  findMember_self pre n t d post h

/-- a linked SEQUENCE / SET value has exactly one entry per component, in declaration order, whatever
    the order of the fields in the notation -/
theorem C07_struct_one_entry_per_component (given : List (Option String × LVal)) :
    ∀ (ms : List VMember) (out : List LField), assemble given ms = some out →
      out.map (fun f => match f with | .mk n _ => n) = ms.map VMember.name
  | [], out, h => by simp only [assemble] at h; cases h; rfl
  | .mk n t d :: ms, out, h => by
    simp only [assemble] at h
    split at h
    · rename_i v rest hv hr
      cases h
      simp [VMember.name, C07_struct_one_entry_per_component given ms rest hr]
    · cases h

/-- a given field wins over the DEFAULT; without one the DEFAULT is taken; without either the value is
    rejected (reported, never invented) -/
theorem C07_default_only_when_absent (given : List (Option String × LVal)) (n : String) (t : VTy) (d : Option LVal)
    (ms : List VMember) (out : List LField) (h : assemble given (.mk n t d :: ms) = some out) :
    ∃ v rest, out = .mk n v :: rest ∧
      ((∃ g, findGiven given n = some g ∧ v = g) ∨ (findGiven given n = none ∧ d = some v)) := by
  simp only [assemble] at h
  split at h
  · rename_i v rest hv hr
    cases h
    refine ⟨v, rest, rfl, ?_⟩
    cases hf : findGiven given n with
    | some g => left; simp [hf, Option.orElse] at hv; exact ⟨g, rfl, hv.symm⟩
    | none => right; simp [hf, Option.orElse] at hv; exact ⟨rfl, hv⟩
  · cases h

/-- a required component without a value is rejected -/
theorem C07_missing_required_rejected (given : List (Option String × LVal)) (n : String) (t : VTy) (ms : List VMember)
    (h : findGiven given n = none) : assemble given (.mk n t none :: ms) = none := by
  simp [assemble, h, Option.orElse]

/-- outside the domain (X.680 forbids it): of two fields given under one name the first is taken, silently -/
theorem C07_duplicate_field_first_wins :
    (link (.seq [.mk "a" .leaf none]) (.braces [.mk (some "a") (.atom (.int 1)), .mk (some "a") (.atom (.int 2))])).map absL
      = some (.record [.mk "a" (.atom (.int 1))]) := by
  simp [link, strip, linkGiven, findMember, assemble, findGiven, wrap, absL, absFields, Option.orElse]

/-- non-vacuity: `{ z { q FALSE, p 2 }, y FALSE }` under
    `Sq ::= SEQUENCE { x INTEGER DEFAULT 7, y BOOLEAN, z Inner }`, `Inner ::= SEQUENCE { p INTEGER, q BOOLEAN DEFAULT TRUE }`
    links (fields out of order, one DEFAULT filled in, through two type references) -/
example :
    let inner : VTy := .named "Inner" (.seq [.mk "p" .leaf none, .mk "q" .leaf (some (.atom (.bool true)))])
    let sq : VTy := .named "Sq" (.seq [.mk "x" .leaf (some (.atom (.int 7))), .mk "y" .leaf none, .mk "z" inner none])
    (link sq (.braces [.mk (some "z") (.braces [.mk (some "q") (.atom (.bool false)), .mk (some "p") (.atom (.int 2))]),
        .mk (some "y") (.atom (.bool false))])).map absL
      = some (.record [.mk "x" (.atom (.int 7)), .mk "y" (.atom (.bool false)),
          .mk "z" (.record [.mk "p" (.atom (.int 2)), .mk "q" (.atom (.bool false))])]) := by
  simp [link, strip, linkGiven, findMember, assemble, findGiven, wrap, absL, absFields, Option.orElse]

end Composite

/-! ### Rendering: the composite arms of `Rasn::value_to_tokens` (`Gen/Values`) -/
section Rendering
open Link.Values Gen.Values

/-- **C07 (rendering keeps the value).** For every governing type, every type name handed in, every linked value
    (any depth, any chain of references): the expression the composite arms build — newtype wrappers around
    `T::new(..)` / `T::alt(..)` / `vec![..]` — denotes the linked value: arguments in the order of the fields,
    elements in order, the alternative under its Rust spelling, the wrappers transparent. -/
theorem C07_rendering_keeps_value (title enumId : String → String) (ty : VTy) (tn : Option String) (l : LVal) (r : RExpr)
    (h : render title enumId ty tn l = some r) : evalR r = pos enumId (absL l) :=
  evalR_render title enumId l ty tn r h

/-- **C07 end to end for composite values**: source notation → linker → generator. Whatever links and renders is
    an expression denoting (positionally) an abstract value the notation denotes under its governing type; with
    `C07_reading_is_a_function` that is *the* value for every notation that names no component twice. -/
theorem C07_rendered_denotes (title enumId : String → String) (ty : VTy) (tn : Option String) (v : SVal) (l : LVal) (r : RExpr)
    (hl : link ty v = some l) (hr : render title enumId ty tn l = some r) :
    ∃ x, Denotes ty v x ∧ evalR r = pos enumId x :=
  ⟨absL l, C07_composite_denotes v ty l hl, evalR_render title enumId l ty tn r hr⟩

/-- the same for the glue of `generate_value` around a value assignment `v N ::= …` (the value linked with the body
    of `N`, the newtype of `N` put around it) -/
theorem C07_assignment_rendering_keeps_value (title enumId : String → String) (name : Option String) (body : VTy) (v : SVal)
    (l : LVal) (r : RExpr) (hl : link body v = some l) (hr : renderAssignment title enumId name body l = some r) :
    ∃ x, Denotes body v x ∧ evalR r = pos enumId x :=
  ⟨absL l, C07_composite_denotes v body l hl, evalR_renderAssignment title enumId name body l r hr⟩

/-- the wrappers of a reference chain appear in chain order, the first reference outermost (`nester` pops from the
    end): `v A ::= 5` with `A ::= B`, `B ::= C`, `C ::= INTEGER` is `A(B(C(5)))` (a struct value takes the last name
    for its constructor instead: `C07_old_nested_struct_counterexample`) -/
theorem C07_wrappers_in_chain_order (title : String → String) (a b : String) (s : RExpr) :
    nest title [a, b] s = .wrap (title a) (.wrap (title b) s) := rfl

theorem C07_wrappers_compose (title : String → String) (p q : List String) (s : RExpr) :
    nest title (p ++ q) s = nest title p (nest title q s) := nest_append title p q s

/-- a SEQUENCE / SET value is never rendered without a type name (the generator answers with a warning that names
    the definition; C10 accounts for it) -/
theorem C07_struct_value_needs_type_name (title enumId : String → String) (ty : VTy) (fs : List LField) :
    render title enumId ty none (.struct fs) = none := by
  simp [render]

/-- one constructor argument per component of the governing SEQUENCE / SET -/
theorem C07_struct_one_argument_per_component (title enumId : String → String) (ms : List VMember) (fs : List LField) (rs : List RExpr)
    (h : renderFields title enumId ms fs = some rs) : rs.length = ms.length := by
  have := renderFields_length title enumId ms fs rs h
  omega

/-- elements of a list value are rendered without a type name, so a SEQUENCE value directly inside a list is refused -/
theorem C07_struct_inside_list_refused (title enumId : String → String) (e : VTy) (fs : List LField) (rest : List LVal) :
    renderElems title enumId e (.struct fs :: rest) = none := by
  simp [renderElems, render]

/-- non-vacuity: `v A ::= { y FALSE, z { p 2 } }` with `A ::= Sq`, `Sq ::= SEQUENCE { x INTEGER DEFAULT 7, y BOOLEAN, z Inner }`,
    `Inner ::= SEQUENCE { p INTEGER }` links (with the body of `A`) and renders as `A(Sq::new(7, false, Inner::new(2)))` -/
example :
    let inner : VTy := .named "Inner" (.seq [.mk "p" .leaf none])
    let body : VTy := .named "Sq" (.seq [.mk "x" .leaf (some (.atom (.int 7))), .mk "y" .leaf none, .mk "z" inner none])
    (link body (.braces [.mk (some "y") (.atom (.bool false)), .mk (some "z") (.braces [.mk (some "p") (.atom (.int 2))])])).bind
        (renderAssignment id id (some "A") body)
      = some (.wrap "A" (.new "Sq" [.lit (.int 7), .lit (.bool false), .new "Inner" [.lit (.int 2)]])) := by
  simp [link, strip, linkGiven, findMember, assemble, findGiven, wrap, Option.orElse, render, renderFields, core, tyName,
    renderAssignment, wrapName, nest]

/-- the arm as it was before fix `9a8438f`: the struct's own name was put around the value like a newtype, and the
    constructor was named after the type name handed in — `f Alias DEFAULT { p 1 }` with `Alias ::= Base`,
    `Base ::= SEQUENCE { p INTEGER }` gave `Alias(Base(Alias::new(1)))`, which names a constructor that does not exist -/
theorem C07_old_nested_struct_counterexample :
    (nest id ["Alias", "Base"] (.new "Alias" [.lit (.int 1)])) = .wrap "Alias" (.wrap "Base" (.new "Alias" [.lit (.int 1)])) ∧
    render id id (.named "Alias" (.named "Base" (.seq [.mk "p" .leaf none]))) (some "Alias")
        (.nested ["Alias", "Base"] (.struct [.mk "p" (.atom (.int 1))]))
      = some (.wrap "Alias" (.new "Base" [.lit (.int 1)])) := by
  refine ⟨rfl, ?_⟩
  simp [render, renderFields, core, strip, tyName, nest]

end Rendering

/-! ### character string constants of the TypeScript backend (`Ts/Strings`) -/
section TsStrings
open Ts.Strings

/-- **C07 (TypeScript strings).** For every character string — quotes, backslashes, line breaks, any other
    character, any length — the literal `string_literal` prints reads back, as an ECMAScript double-quoted literal,
    as exactly that string, and ends exactly at its closing quote (whatever follows). -/
theorem C07_ts_string_literal_exact (s rest : List Char) : readLiteral (stringLiteral s ++ rest) = some (s, rest) :=
  readLiteral_stringLiteral s rest

/-- the ninth-round seed as a counterexample: escaping `"` before `\` turns the string `"` into a literal that reads
    as a backslash and ends early -/
theorem C07_ts_chained_escape_counterexample :
    readLiteral ('"' :: (escapeChained ['"'] ++ ['"'])) = some (['\\'], ['"']) := by decide

example : stringLiteral ['a', '"', '\\', '\n'] = ['"', 'a', '\\', '"', '\\', '\\', '\\', 'n', '"'] := by decide

end TsStrings

/-! ### OCTET STRING values given as bstring / hstring of any length -/
section Octets
open Spec.Values

/-- **C07 (octet strings, any number of bits).** For every bit list the bstring / hstring scanner can hand over —
    whether or not it fills its last octet — the linker's conversion yields exactly the octets X.680 23.3 gives the
    notation (bits taken eight at a time, zero bits added at the end). FULL since fix `f216731`. -/
theorem C07_octet_value_exact (f : Nat) (bits : List Bool) (h : bits.length ≤ 8 * f) :
    bitsToOctets (f + 1) bits = some (octetsOfBits (f + 1) bits) :=
  bitsToOctets_padded f bits h

/-- the conversion as it was: `'F'H` for an OCTET STRING was refused (and the value stayed a BIT STRING constant behind a
    warning that names no definition), where X.680 reads the octet F0 -/
theorem C07_old_partial_octet_counterexample :
    bitsToOctetsOld 2 (bitStringValue 'H' ['F']) = none ∧ octetsOfBits 2 (hstringBits ['F']) = [240] := by decide

example : bitsToOctets 3 (bitStringValue 'H' ['A', 'B', 'C']) = some [171, 192] := by decide

end Octets

/-! ### character strings written over several lines (`Lexer/Lines`) -/
section Lines
open Lexer.Lines

/-- **C07 (strings over several lines).** However a character string is broken over lines — any spacing before each
    line break, any end-of-line character (LF, CR, VT, FF; CR LF is two of them around an empty line), any indentation
    behind it, blank lines included, any number of lines — the lexer's joining yields the concatenation of the lines
    (X.680 12.14.1), provided the line texts themselves do not begin or end in spacing where they meet a line break. -/
theorem C07_multiline_string_exact (l0 : List Char) (bs : List Break) (h0 : noNl l0) (he : endOk l0)
    (hb : ∀ b ∈ bs, BreakOk b) : joinLines (layout l0 bs) = content l0 bs :=
  joinLines_layout l0 bs h0 he hb

/-- a string written on one line is left alone, spacing at its edges included -/
theorem C07_one_line_string_untouched (s : List Char) (h : noNl s) : joinLines s = s :=
  joinLines_one_line s h

/-- the lexer as it was (a TODO in the source): line break and indentation stayed in the value -/
theorem C07_old_multiline_counterexample :
    layout ['a'] [⟨[' '], '\n', [' ', ' '], ['b']⟩] ≠ content ['a'] [⟨[' '], '\n', [' ', ' '], ['b']⟩] := by decide

/-- non-vacuity: `"ab <LF>    cd<CR><LF>  e"` stands for `abcde` -/
example : joinLines (layout ['a', 'b'] [⟨[' '], '\n', [' ', ' ', ' ', ' '], ['c', 'd']⟩, ⟨[], '\r', [], []⟩, ⟨[], '\n', [' ', ' '], ['e']⟩])
    = ['a', 'b', 'c', 'd', 'e'] := by decide

end Lines

end Props.C07

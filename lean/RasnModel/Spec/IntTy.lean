/-
  Spec for C06: which integers a Rust integer type token can represent.
  Written from the Rust reference (machine integer ranges), not from the compiler.
-/
namespace Spec

/-- The machine range of a Rust integer type token; `none` = not a known token. -/
def tokenRange : String → Option (Option (Int × Int))
  | "u8" => some (some (0, 255))
  | "u16" => some (some (0, 65535))
  | "u32" => some (some (0, 4294967295))
  | "u64" => some (some (0, 18446744073709551615))
  | "i8" => some (some (-128, 127))
  | "i16" => some (some (-32768, 32767))
  | "i32" => some (some (-2147483648, 2147483647))
  | "i64" => some (some (-9223372036854775808, 9223372036854775807))
  | "Integer" => some none
  | _ => none

/-- `holds tok v`: the Rust type named `tok` can represent `v`. Unknown tokens hold nothing. -/
def holds (tok : String) (v : Int) : Prop :=
  match tokenRange tok with
  | some none => True
  | some (some (lo, hi)) => lo ≤ v ∧ v ≤ hi
  | none => False

instance (tok : String) (v : Int) : Decidable (holds tok v) := by
  unfold holds; split <;> infer_instance

def isFixed (tok : String) : Bool := tok != "Integer"

/-- A constraint as the property sees it: optional finite bounds and an extension marker.
    `none` = MIN / MAX / absent. -/
structure Bounds where
  lo : Option Int
  hi : Option Int
  ext : Bool
  deriving Repr, DecidableEq

def Bounds.permits (b : Bounds) (v : Int) : Prop :=
  (match b.lo with | some l => l ≤ v | none => True) ∧
  (match b.hi with | some h => v ≤ h | none => True)

/-- The executable oracle used on the implementation's output:
    the token is known; it is either arbitrary precision, or the constraint is non-extensible
    with both bounds finite and both bounds representable (hence everything between). -/
def tokenOk (tok : String) (b : Bounds) : Bool :=
  match tokenRange tok with
  | none => false
  | some none => true
  | some (some (l, h)) =>
    match b.lo, b.hi with
    | some lo, some hi => !b.ext && decide (l ≤ lo) && decide (hi ≤ h)
    | _, _ => false

/-- literal fits its declared type -/
def literalOk (tok : String) (v : Int) : Bool := decide (holds tok v)

end Spec

import RasnModel.Pv.Alphabet
/-
  Spec for C15, from X.680 §51.7 (PermittedAlphabet: the characters occurring in the permitted
  values), §50 (set operators with precedence), §41 (alphabets of the restricted string types;
  ranges follow the canonical order, which for these types is code-point order), and X.691 §10.3.21 /
  §30.1 (known-multiplier types). Membership-based, so that it runs on probe characters.
-/
namespace Spec.Alphabet
open _root_.Alpha

/-- the six known-multiplier string types (X.691 §30.1 / 3.7.16) -/
def knownMultiplier : String → Bool
  | "NumericString" | "PrintableString" | "VisibleString" | "IA5String" | "BMPString" | "UniversalString" => true
  | _ => false

/-- X.680 §41 Table 10: PrintableString -/
def printableX680 : List Nat :=
  (List.range 26).map (· + 65) ++ (List.range 26).map (· + 97) ++ (List.range 10).map (· + 48) ++
  [32, 39, 40, 41, 43, 44, 45, 46, 47, 58, 61, 63]

/-- X.680 §41 Table 9: NumericString -/
def numericX680 : List Nat := 32 :: (List.range 10).map (· + 48)

/-- base alphabet membership of the known-multiplier types, by code point -/
def baseMem : String → Nat → Bool
  | "NumericString", c => numericX680.contains c
  | "PrintableString", c => printableX680.contains c
  | "VisibleString", c => 32 ≤ c && c ≤ 126
  | "IA5String", c => c ≤ 127
  | "BMPString", c => c ≤ 0xFFFF && !isSurrogate c
  | _, c => c ≤ 0x10FFFF && !isSurrogate c

def memElem (ty : String) (e : AElem) (c : Nat) : Bool :=
  baseMem ty c && (match e with
    | .str s _ => s.contains c
    | .range lo hi _ => (match lo with | some l => decide (l ≤ c) | none => true) &&
                        (match hi with | some h => decide (c ≤ h) | none => true))

structure Factor where
  elem : AElem
  excl : List AElem
  deriving Repr, Inhabited

/-- the chain as written inside `FROM( … )` -/
structure Chain where
  first : AElem
  rest : List (Pv.Op × AElem)
  deriving Repr, Inhabited

/-- X.680 §50 precedence (same reading as Spec.Subtype.parseF) -/
def parseF (f : Factor) : List (Pv.Op × AElem) → List (List Factor)
  | [] => [[f]]
  | (.union, e) :: r => [f] :: parseF ⟨e, []⟩ r
  | (.inter, e) :: r =>
    match parseF ⟨e, []⟩ r with
    | g :: gs => (f :: g) :: gs
    | [] => [[f]]
  | (.except, x) :: r => parseF { f with excl := f.excl ++ [x] } r

/-- is `c` in the permitted alphabet of one FROM constraint -/
def memChain (ty : String) (ch : Chain) (c : Nat) : Bool :=
  (parseF ⟨ch.first, []⟩ ch.rest).any fun grp =>
    grp.all fun f => memElem ty f.elem c && f.excl.all (fun x => !memElem ty x c)

/-- serial FROM constraints intersect; without any FROM constraint the alphabet is the base alphabet -/
def memSpec (ty : String) (chains : List Chain) (c : Nat) : Bool :=
  baseMem ty c && chains.all (fun ch => memChain ty ch c)

/-- how rasn reads `from(..)`: single characters and inclusive code-point ranges, within the type's alphabet -/
def memAttr (ty : String) (subs : List Subset) (c : Nat) : Bool :=
  baseMem ty c && subs.any fun s => match s with
    | .single d => c == d
    | .range lo hi => (match lo with | some l => decide (l ≤ c) | none => true) &&
                      (match hi with | some h => decide (c ≤ h) | none => true)

/-- every character named by the annotation belongs to the base alphabet -/
def withinBase (ty : String) (subs : List Subset) : Bool :=
  subs.all fun s => match s with
    | .single d => baseMem ty d
    | .range lo hi => (lo.map (baseMem ty)).getD true && (hi.map (baseMem ty)).getD true

end Spec.Alphabet

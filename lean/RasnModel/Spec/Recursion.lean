import RasnModel.IR.Src
/-
  Spec for the "recursive components are boxed" clause of C02 (and the finite-size clause of C01):
  the graph "item → items stored inline in its fields" must be acyclic. A field stores its type
  inline unless it is wrapped in Box, SequenceOf, SetOf (heap indirection).
-/
namespace Spec.Rec
open IR

/-- strip `Option<` … `>` wrappers; `none` when the type sits behind SequenceOf / SetOf -/
def inlineTarget (ty : String) : Option String :=
  if (ty.splitOn "SequenceOf<").length > 1 || (ty.splitOn "SetOf<").length > 1 || (ty.splitOn "Vec<").length > 1 then none
  else
    let cs := ty.toList
    let t := if ty.startsWith "Option<" && ty.endsWith ">" then String.ofList ((cs.drop 7).take (cs.length - 8)) else ty
    some t

/-- inline edges of one item -/
def edges (i : ItemF) : List String :=
  i.fields.filterMap fun f => if f.boxed then none else inlineTarget f.ty

def succs (items : List ItemF) (n : String) : List String :=
  match items.find? (fun i => i.name == n) with
  | some i => (edges i).filter (fun t => items.any (fun j => j.name == t))
  | none => []

/-- is `target` reachable from `from` in ≤ fuel steps -/
def reach (items : List ItemF) : Nat → List String → String → Bool
  | 0, _, _ => false
  | fuel + 1, frontier, target =>
    let next := (frontier.flatMap (succs items)).eraseDups
    next.contains target || reach items fuel next target

/-- items lying on an inline cycle -/
def cyclic (items : List ItemF) : List String :=
  (items.filter fun i => reach items (items.length + 1) [i.name] i.name).map (·.name)

end Spec.Rec

/-
  Spec for C07's leaf notations, from X.680 §12.10–12.14 (bstring, hstring, cstring), §22.7
  (named bits), §23 (octet strings), §32 + X.660 (OBJECT IDENTIFIER arcs).
-/
namespace Spec.Values

def hexDigits : List Char := ['0','1','2','3','4','5','6','7','8','9','A','B','C','D','E','F']

/-- value of a hexadecimal digit (X.680 §12.12: upper-case digits only) -/
def hexVal (c : Char) : Nat := (hexDigits.idxOf? c).getD 0

/-- `n` as `w` bits, most significant first -/
def natToBits : Nat → Nat → List Bool
  | 0, _ => []
  | w + 1, n => decide (n / 2 ^ w % 2 = 1) :: natToBits w n

def bitsToNat (bits : List Bool) : Nat := bits.foldl (fun acc b => 2 * acc + (if b then 1 else 0)) 0

/-- X.680 §23.3 (OCTET STRING value notation): the bits of a bstring / hstring are taken eight at a time; when they
    do not fill the last octet they are read "as if" zero bits followed (`fuel` ≥ number of octets) -/
def octetsOfBits : Nat → List Bool → List Nat
  | 0, _ => []
  | f + 1, bits =>
    if bits.isEmpty then []
    else bitsToNat ((bits.take 8) ++ List.replicate (8 - (bits.take 8).length) false) :: octetsOfBits f (bits.drop 8)

/-- §12.12: each hstring digit denotes four bits, most significant first -/
def hstringBits (s : List Char) : List Bool := s.flatMap fun c => natToBits 4 (hexVal c)

/-- §12.10: each bstring digit is one bit -/
def bstringBits (s : List Char) : List Bool := s.map (· == '1')

/-- §23 / §22: an octet is eight bits, most significant first -/
def octetBits (bytes : List Nat) : List Bool := bytes.flatMap (natToBits 8)

/-- §22.7 named-bit list: bit `i` is one exactly when some listed name denotes position `i`;
    the value has `highest + 1` bits (trailing zero bits are not significant) -/
def namedBits (highest : Nat) (names : List String) (pos : String → Option Int) : List Bool :=
  (List.range (highest + 1)).map fun (i : Nat) => names.any fun n => pos n == some (Int.ofNat i)

/-- §12.14: a cstring's characters, with each pair of quotation marks standing for one -/
def escape : List Char → List Char
  | '"' :: rest => '"' :: '"' :: escape rest
  | c :: rest => c :: escape rest
  | [] => []

/-- X.660 / X.680 Annex: arcs that have standard names, by position -/
def rootArc : String → Option Nat
  | "itu-t" => some 0 | "iso" => some 1 | "joint-iso-itu-t" => some 2 | "joint-iso-ccitt" => some 2 | _ => none

def secondArc : Nat → String → Option Nat
  | 0, "recommendation" => some 0 | 0, "question" => some 1 | 0, "administration" => some 2
  | 0, "network-operator" => some 3 | 0, "identified-organization" => some 4 | 0, "r-recommendation" => some 5
  | 1, "standard" => some 0 | 1, "registration-authority" => some 1 | 1, "member-body" => some 2
  | 1, "identified-organization" => some 3
  | _, _ => none

def standardNames : List String :=
  ["itu-t", "iso", "joint-iso-itu-t", "joint-iso-ccitt", "recommendation", "question", "administration",
   "network-operator", "identified-organization", "r-recommendation", "standard", "registration-authority", "member-body"]

/-- bit strings compared modulo trailing zero bits (X.680 §22.7, named-bit values) -/
def stripTrailingZeros (b : List Bool) : List Bool := (b.reverse.dropWhile (· == false)).reverse

end Spec.Values

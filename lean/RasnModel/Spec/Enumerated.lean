/-
  Spec for C14, written from X.680 (02/2021) §20.3–20.6, not from the compiler.
  20.5: identifier-only items of the RootEnumeration get successive distinct non-negative integers
        starting with 0, excluding those employed in NamedNumbers of the root.
  20.6: an identifier-only item of the AdditionalEnumeration gets the smallest value for which no
        item is defined in the RootEnumeration and such that all preceding additions are smaller.
  Explicit numbers are kept.
  The spec is a *checker* of a proposed numbering (decidable, executable on the compiler's output).
-/
namespace Spec.Enum

/-- every integer in `[lo, v)` is in `used` -/
def allUsedBetween (used : List Int) (lo v : Int) : Bool :=
  (List.range (v - lo).toNat).all fun i => used.contains (lo + (i : Int))

/-- `E`: numbers used explicitly in the root; `prev`: numbers already given to identifier-only root items -/
def checkRoot (E : List Int) : List Int → List (Option Int) → List Int → Bool
  | _, [], [] => true
  | prev, some n :: r, v :: vs => v == n && checkRoot E prev r vs
  | prev, none :: r, v :: vs =>
      decide (0 ≤ v) && !E.contains v && prev.all (fun p => decide (p < v)) &&
      allUsedBetween (E ++ prev) 0 v && checkRoot E (v :: prev) r vs
  | _, _, _ => false

/-- `R`: all root numbers; `prev`: numbers of the preceding additions -/
def checkAdds (R : List Int) : List Int → List (Option Int) → List Int → Bool
  | _, [], [] => true
  | prev, some n :: r, v :: vs => v == n && checkAdds R (v :: prev) r vs
  | prev, none :: r, v :: vs =>
      decide (0 ≤ v) && !R.contains v && prev.all (fun p => decide (p < v)) &&
      -- minimality: every smaller non-negative candidate that exceeds all preceding additions is taken by the root
      (List.range v.toNat).all (fun i => R.contains (i : Int) || prev.any (fun p => decide ((i : Int) ≤ p))) &&
      checkAdds R (v :: prev) r vs
  | _, _, _ => false

def explicitOf (items : List (Option Int)) : List Int := items.filterMap id

/-- the numbering `(rootNums, addNums)` is the one X.680 §20 assigns to `(root, adds)` -/
def check (root adds : List (Option Int)) (rootNums addNums : List Int) : Bool :=
  checkRoot (explicitOf root) [] root rootNums && checkAdds rootNums [] adds addNums

/-- X.680 20.3/20.4 validity of the *source*: explicit root numbers distinct; every explicit addition
    is not a root number and is greater than all preceding additions. (Inputs violating this are
    illegal ASN.1; the property quantifies over legal notation.) -/
def validAddsAux (R : List Int) : List Int → List (Option Int) → List Int → Bool
  | _, [], [] => true
  | prev, some n :: r, v :: vs => !R.contains n && prev.all (fun p => decide (p < n)) && validAddsAux R (v :: prev) r vs
  | prev, none :: r, v :: vs => validAddsAux R (v :: prev) r vs
  | _, _, _ => false

end Spec.Enum

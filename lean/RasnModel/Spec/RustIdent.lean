/-
  Spec for C16, from the Rust reference (identifiers, keywords; edition 2021, ASCII instances of
  XID_Start / XID_Continue) and X.680 §12.2/12.3 (typereference / identifier).
-/
namespace Spec.Ident

def cs (s : String) : List Char := s.toList

/-- strict keywords (2021: incl. async, await, dyn) and reserved keywords (incl. try) — Rust reference "Keywords" -/
def strictReserved2021 : List (List Char) := [
  ['a','s'], ['b','r','e','a','k'], ['c','o','n','s','t'], ['c','o','n','t','i','n','u','e'], ['c','r','a','t','e'],
  ['e','l','s','e'], ['e','n','u','m'], ['e','x','t','e','r','n'], ['f','a','l','s','e'], ['f','n'], ['f','o','r'],
  ['i','f'], ['i','m','p','l'], ['i','n'], ['l','e','t'], ['l','o','o','p'], ['m','a','t','c','h'], ['m','o','d'],
  ['m','o','v','e'], ['m','u','t'], ['p','u','b'], ['r','e','f'], ['r','e','t','u','r','n'], ['s','e','l','f'],
  ['S','e','l','f'], ['s','t','a','t','i','c'], ['s','t','r','u','c','t'], ['s','u','p','e','r'], ['t','r','a','i','t'],
  ['t','r','u','e'], ['t','y','p','e'], ['u','n','s','a','f','e'], ['u','s','e'], ['w','h','e','r','e'], ['w','h','i','l','e'],
  ['a','s','y','n','c'], ['a','w','a','i','t'], ['d','y','n'],
  ['a','b','s','t','r','a','c','t'], ['b','e','c','o','m','e'], ['b','o','x'], ['d','o'], ['f','i','n','a','l'],
  ['m','a','c','r','o'], ['o','v','e','r','r','i','d','e'], ['p','r','i','v'], ['t','y','p','e','o','f'],
  ['u','n','s','i','z','e','d'], ['v','i','r','t','u','a','l'], ['y','i','e','l','d'], ['t','r','y']]

/-- weak keywords that are identifiers lexically (`'static` is a lifetime, not an identifier) -/
def weak2021 : List (List Char) := [['u','n','i','o','n'], ['m','a','c','r','o','_','r','u','l','e','s']]

def lowerLetters : List Char := ['a','b','c','d','e','f','g','h','i','j','k','l','m','n','o','p','q','r','s','t','u','v','w','x','y','z']
def upperLetters : List Char := ['A','B','C','D','E','F','G','H','I','J','K','L','M','N','O','P','Q','R','S','T','U','V','W','X','Y','Z']
def digits : List Char := ['0','1','2','3','4','5','6','7','8','9']

def isLetter (c : Char) : Bool := lowerLetters.contains c || upperLetters.contains c
def identStart (c : Char) : Bool := isLetter c || c == '_'
def identCont (c : Char) : Bool := isLetter c || digits.contains c || c == '_'

/-- ASCII instance of the Rust reference's IDENTIFIER_OR_KEYWORD minus keywords minus `_` -/
def LegalRustIdent (s : List Char) : Prop :=
  match s with
  | [] => False
  | c :: t => identStart c = true ∧ (∀ d ∈ t, identCont d = true) ∧ s ≠ ['_'] ∧ s ∉ strictReserved2021

instance (s : List Char) : Decidable (LegalRustIdent s) := by
  unfold LegalRustIdent; split <;> infer_instance

/-- characters of an ASN.1 typereference / identifier / valuereference (ASCII: nom's alpha/alphanumeric) -/
def asnChar (c : Char) : Bool := isLetter c || digits.contains c || c == '-'

/-- no two consecutive hyphens, not ending in a hyphen -/
def hyphensOk : List Char → Bool
  | [] => true
  | ['-'] => false
  | '-' :: '-' :: _ => false
  | _ :: rest => hyphensOk rest

/-- X.680 §12.2/12.3: a letter, then letters, digits, single hyphens; last character not a hyphen -/
def Asn1Ident (s : List Char) : Prop :=
  match s with
  | [] => False
  | c :: t => isLetter c = true ∧ (∀ d ∈ t, asnChar d = true) ∧ hyphensOk s = true

instance (s : List Char) : Decidable (Asn1Ident s) := by
  unfold Asn1Ident; split <;> infer_instance

end Spec.Ident

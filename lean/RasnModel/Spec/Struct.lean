import RasnModel.IR.Src
import RasnModel.Gen.Struct
/-
  Reference semantics for constructed types (C02, C03, C05), written from the property texts and
  X.680 (§25, §27, §29, §31.2.7, §13.4), NOT from the compiler:
  * one field/variant per component, root components first then additions, in source order;
  * a component is an extension addition iff it is written after the marker; a `[[ ]]` group is one
    optional member of an addition-group struct holding exactly the grouped components in order;
  * extensible iff marker present or EXTENSIBILITY IMPLIED;
  * a tag is explicit iff EXPLICIT keyword, or no keyword in a module whose default is EXPLICIT TAGS
    or that has no TAGS clause, or the tagged type is a CHOICE / open type — at every depth;
  * automatic tagging iff AUTOMATIC TAGS and none of the type's own components carries a tag.
  The vocabulary of Rust names/types (title/snake case, `Parent+Member` hoisting, rasn type names)
  is shared with the model: it is the documented mapping, not the subject of these properties.
-/
namespace Spec.Struct
open IR Gen.Struct

structure SCtx where
  default : TagDefault
  implied : Bool
  /-- names of referenced types that are CHOICE types -/
  choiceRefs : List String

/-- kind of the tagged type, as far as §31.2.7 (c) cares -/
def isChoiceOrOpen (ctx : SCtx) : SrcType → Bool
  | .choice .. => true
  | .prim "ANY" => true
  | .ref n => ctx.choiceRefs.contains n
  | _ => false

/-- X.680 §31.2.7 -/
def explicitSpec (d : TagDefault) (kw : TagKw) (choiceOrOpen : Bool) : Bool :=
  kw == .explicit || (kw == .none && (d == .explicit || d == .none)) || choiceOrOpen

/-- what rasn does with a rendered tag: CHOICE / open types are tagged explicitly on their own -/
def effective (marked choiceOrOpen : Bool) : Bool := marked || choiceOrOpen

def specTag (ctx : SCtx) (t : Option Tag) (ty : SrcType) : Option TagF :=
  t.map fun t => ⟨t.cls, t.num, explicitSpec ctx.default t.kw (isChoiceOrOpen ctx ty), isChoiceOrOpen ctx ty⟩

def addComps : SrcAdd → List SrcComp
  | .comp c => [c]
  | .group _ cs => cs

/-- all components of a body in the sense of X.680 ComponentTypeLists (groups flattened) -/
def ownComponents (root : List SrcComp) (adds : List SrcAdd) : List SrcComp := root ++ adds.flatMap addComps

def automaticSpec (ctx : SCtx) (root : List SrcComp) (adds : List SrcAdd) : Bool :=
  ctx.default == .automatic && !(ownComponents root adds).any (fun c => c.tag.isSome)

def specField (ctx : SCtx) (parent : String) (ext : ExtF) (c : SrcComp) : FieldF :=
  let base := memberTypeName c.name parent c.ty
  { name := snakeS c.name, ty := if c.opt == .optional then "Option<" ++ base ++ ">" else base,
    tag := specTag ctx c.tag c.ty, ext := ext, hasDefault := c.opt == .default,
    identifier := identAnn (snakeS c.name) c.name }

def specVariant (ctx : SCtx) (parent : String) (ext : ExtF) (c : SrcComp) : FieldF :=
  { name := enumIdS c.name, ty := memberTypeName c.name parent c.ty, tag := specTag ctx c.tag c.ty, ext := ext,
    hasDefault := false, identifier := identAnn (enumIdS c.name) c.name }

/-- the member that stands for a `[[ ]]` group: optional, marked as addition group -/
def groupField (parent : String) (cs : List SrcComp) : FieldF :=
  let g := Lexer.groupMember cs
  { name := snakeS g.name, ty := "Option<" ++ innerNameS g.name parent ++ ">", tag := none, ext := .group,
    hasDefault := false, identifier := some "SEQUENCE" }

def specAddField (ctx : SCtx) (mk : SCtx → String → ExtF → SrcComp → FieldF) (parent : String) : SrcAdd → FieldF
  | .comp c => mk ctx parent .addition c
  | .group _ cs => groupField parent cs

def specEnumVariant (ext : ExtF) (n : String) : FieldF :=
  { name := enumIdS n, ty := "", tag := none, ext := ext, hasDefault := false, identifier := identAnn (enumIdS n) n }

abbrev SRec := String → Option Tag → SrcType → List ItemF

def nestedOf (rec : SRec) (parent : String) (c : SrcComp) : List ItemF :=
  if needsUnnesting c.ty then rec (innerNameS c.name parent) none c.ty else []

def nestedAdd (rec : SRec) (parent : String) : SrcAdd → List ItemF
  | .comp c => nestedOf rec parent c
  | .group _ cs =>
    -- the addition-group struct: exactly the grouped components, in order, no extension marks inside
    rec (innerNameS (Lexer.groupMember cs).name parent) none (.seq false cs false [])

def specNewtype (ctx : SCtx) (name : String) (tag : Option Tag) (ty : SrcType) (inner : String) : ItemF :=
  { name := name, kind := .newtype, isSet := false, nonExhaustive := false, automaticTags := false,
    tag := specTag ctx tag ty,
    fields := [{ name := "0", ty := inner, tag := none, ext := .none, hasDefault := false, identifier := none }] }

/-- one level of the expected items for `asnName ::= [tag] ty`; `rec` = expected hoisted definitions -/
def specLevel (ctx : SCtx) (rec : SRec) (asnName : String) (tag : Option Tag) (ty : SrcType) : List ItemF :=
  match ty with
  | .seq isSet root marker adds =>
    let name := titleS asnName
    { name := name, kind := .struct, isSet := isSet, nonExhaustive := marker || ctx.implied,
      automaticTags := automaticSpec ctx root adds, tag := specTag ctx tag ty,
      fields := root.map (specField ctx name .none) ++ adds.map (specAddField ctx specField name) } ::
      (root.flatMap (nestedOf rec name) ++ adds.flatMap (nestedAdd rec name))
  | .choice root marker adds =>
    let name := titleS asnName
    { name := name, kind := .choice, isSet := false, nonExhaustive := marker || ctx.implied,
      automaticTags := automaticSpec ctx root adds, tag := specTag ctx tag ty,
      fields := root.map (specVariant ctx name .none) ++ adds.map (specAddField ctx specVariant name) } ::
      (root.flatMap (nestedOf rec name) ++ adds.flatMap (nestedAdd rec name))
  | .enumerated root marker adds =>
    [{ name := titleS asnName, kind := .enumerated, isSet := false, nonExhaustive := marker || ctx.implied,
       automaticTags := false, tag := specTag ctx tag ty,
       fields := root.map (specEnumVariant .none) ++ adds.map (specEnumVariant .addition) }]
  | .seqOf isSet e et =>
    let name := titleS asnName
    let am : List ItemF × String := match e with
      | .ref n => ([], titleS n)
      | e' => (rec ("Anonymous_" ++ name) et e', "Anonymous" ++ name)
    -- the element tag belongs to the hoisted element item; for a referenced element (nothing is
    -- hoisted) the expectation is recorded on the newtype's single field
    let elemTag : Option TagF := match e with | .ref _ => specTag ctx et e | _ => none
    am.1 ++ [{ specNewtype ctx name tag ty ((if isSet then "SetOf<" else "SequenceOf<") ++ am.2 ++ ">") with
               fields := [{ name := "0", ty := (if isSet then "SetOf<" else "SequenceOf<") ++ am.2 ++ ">",
                            tag := elemTag, ext := .none, hasDefault := false, identifier := none }] }]
  | .prim p => [specNewtype ctx (titleS asnName) tag ty (primName p)]
  | .ref n => [specNewtype ctx (titleS asnName) tag ty (titleS n)]

/-- expected items to any depth (fuel = nesting bound) -/
def specItems (ctx : SCtx) : Nat → SRec
  | 0 => fun _ _ _ => []
  | fuel + 1 => specLevel ctx (specItems ctx fuel)

-- per-property projections -------------------------------------------------------------------------

/-- C05: extensibility facts of an item -/
def projC05 (i : ItemF) : Bool × List ExtF := (i.nonExhaustive, i.fields.map (·.ext))

/-- C05 by name: which named component carries which extension mark -/
def projC05n (i : ItemF) : Bool × List (String × ExtF) := (i.nonExhaustive, i.fields.map fun f => (f.name, f.ext))

/-- the same named marks, in any order (the order of the fields is C02's business) -/
def sameC05n (o e : ItemF) : Bool :=
  o.nonExhaustive == e.nonExhaustive && o.fields.length == e.fields.length &&
    e.fields.all (fun f => o.fields.any (fun g => g.name == f.name && g.ext == f.ext))

/-- C02: shape facts of an item -/
def projC02 (i : ItemF) : ItemKind × Bool × List (String × String × Bool) :=
  (i.kind, i.isSet, i.fields.map fun f => (f.name, f.ty, f.hasDefault))

end Spec.Struct

import RasnModel.Pv.Fold
/-
  Spec for C04, from X.680 §50 (element set specs: `|` binds weaker than `^`, EXCEPT applies to the
  element on its left) and X.691 §10.3.21 (EXCEPT parts are not PER-visible; unions take the hull;
  serial constraints intersect; extensible iff an extension marker is present).
-/
namespace Spec.Subtype
open Pv

/-- an intersection factor: element with its EXCEPT exclusions -/
structure Factor where
  elem : Elem
  excl : List Elem
  deriving Repr, Inhabited

/-- `Unions` = list of `Intersections` = list of factors -/
abbrev Groups := List (List Factor)

/-- X.680 §50 precedence, read left to right with the current factor in hand:
    EXCEPT attaches an exclusion to the current factor, `^` continues the current intersection,
    `|` closes it and starts the next one -/
def parseF (f : Factor) : List (Op × Elem) → Groups
  | [] => [[f]]
  | (.union, e) :: r => [f] :: parseF ⟨e, []⟩ r
  | (.inter, e) :: r =>
    match parseF ⟨e, []⟩ r with
    | g :: gs => (f :: g) :: gs
    | [] => [[f]]
  | (.except, x) :: r => parseF { f with excl := f.excl ++ [x] } r

/-- X.680 §50 reading of a chain -/
def parse (c : Chain) : Groups := parseF ⟨c.first, []⟩ c.rest

def lowerOk (lo : Option Int) (v : Int) : Bool := match lo with | some l => decide (l ≤ v) | none => true
def upperOk (hi : Option Int) (v : Int) : Bool := match hi with | some h => decide (v ≤ h) | none => true

/-- membership in one element -/
def elemMem : Elem → Int → Bool
  | .single x _, v => decide (v = x)
  | .range lo hi _, v => lowerOk lo v && upperOk hi v

/-- the set of values the notation permits (Bool-valued so that it runs on probe points) -/
def denoteB (g : Groups) (v : Int) : Bool :=
  g.any fun grp => grp.all fun f => elemMem f.elem v && f.excl.all (fun x => !elemMem x v)

/-- X.691 §10.3.21: the PER-visible part (EXCEPT and what follows it ignored) -/
def pvDenoteB (g : Groups) (v : Int) : Bool :=
  g.any fun grp => grp.all fun f => elemMem f.elem v

def denote (g : Groups) (v : Int) : Prop := denoteB g v = true
def pvDenote (g : Groups) (v : Int) : Prop := pvDenoteB g v = true
instance (g : Groups) (v : Int) : Decidable (denote g v) := by unfold denote; infer_instance
instance (g : Groups) (v : Int) : Decidable (pvDenote g v) := by unfold pvDenote; infer_instance

/-- closed/open interval, `none` = unbounded -/
structure Iv where
  lo : Option Int
  hi : Option Int
  deriving Repr, DecidableEq, Inhabited

def Iv.memB (i : Iv) (v : Int) : Bool := lowerOk i.lo v && upperOk i.hi v
def Iv.mem (i : Iv) (v : Int) : Prop := i.memB v = true
instance (i : Iv) (v : Int) : Decidable (i.mem v) := by unfold Iv.mem; infer_instance

def Iv.nonempty (i : Iv) : Bool :=
  match i.lo, i.hi with
  | some l, some h => decide (l ≤ h)
  | _, _ => true

def elemIv : Elem → Iv
  | .single x _ => ⟨some x, some x⟩
  | .range lo hi _ => ⟨lo, hi⟩

def optMax : Option Int → Option Int → Option Int   -- lower bounds of an intersection: none = -∞
  | some a, some b => some (max a b) | none, b => b | a, none => a
def optMin : Option Int → Option Int → Option Int   -- upper bounds of an intersection: none = +∞
  | some a, some b => some (min a b) | none, b => b | a, none => a

def Iv.meet (a b : Iv) : Iv := ⟨optMax a.lo b.lo, optMin a.hi b.hi⟩

def joinLo : Option Int → Option Int → Option Int  -- lower bounds of a union: none wins
  | some a, some b => some (min a b) | _, _ => none
def joinHi : Option Int → Option Int → Option Int
  | some a, some b => some (max a b) | _, _ => none

def Iv.join (a b : Iv) : Iv := ⟨joinLo a.lo b.lo, joinHi a.hi b.hi⟩

/-- an intersection of elements is the meet of their intervals -/
def groupIv : List Factor → Iv
  | [] => ⟨none, none⟩
  | f :: fs => (elemIv f.elem).meet (groupIv fs)

/-- hull of the PER-visible set: join of the non-empty groups; `none` when every group is empty -/
def hull : Groups → Option Iv
  | [] => none
  | g :: gs =>
    if (groupIv g).nonempty then
      (match hull gs with | none => some (groupIv g) | some h => some ((groupIv g).join h))
    else hull gs

/-- legal notation for the oracle: every group denotes a non-empty PER-visible interval -/
def allNonempty (g : Groups) : Bool := g.all fun grp => (groupIv grp).nonempty

def chainExt (c : Chain) : Bool :=
  (match c.first with | .single _ x => x | .range _ _ x => x) ||
  c.rest.any (fun oe => match oe.2 with | .single _ x => x | .range _ _ x => x)

end Spec.Subtype

import RasnModel.Basic.Sexp
import RasnModel.Cfg.Options
/- line-protocol handler for C19 -/
namespace Driver.C19
open Sexp Cfg

def parseItem : Sexp → Option Item
  | .list [.atom "ty", n, .list attrs, rest, ch, .list alts] => do
    let alts ← alts.mapM fun
      | .list [v, p] => do pure ((← asText v), (← asText p))
      | _ => none
    -- attributes other than rasn / doc / non_exhaustive, in order; the merged derive line is emitted last
    let attrs ← attrs.mapM asText
    let (ds, os) := match attrs.getLast? with
      | some l => match parseDerive l.toList with
        | some ds => (ds, attrs.dropLast)
        | none => ([], attrs)
      | none => ([], [])
    pure (.ty (← asText n) ds os (← asText rest) (← asBool ch) alts)
  | .list [.atom "from", e, v, p] => do pure (.fromImpl (← asText e) (← asText v) (← asText p))
  | .list [.atom "lazy", n, t, i, f] => do pure (.lazy (← asText n) (← asText t) (← asText i) (← asBool f))
  | .list [.atom "other", t] => do pure (.other (← asText t))
  | _ => none

def parseModule : Sexp → Option Module
  | .list [n, .list us, .list is] => do pure ⟨← asText n, ← us.mapM asText, ← is.mapM parseItem⟩
  | _ => none

def parseCfg : Sexp → Option Config
  | .list [o, w, f, n, .list cs, .list as] => do
    pure { opaqueOpen := ← asBool o, wildcard := ← asBool w, fromImpls := ← asBool f, noStd := ← asBool n,
           customImports := ← cs.mapM asText, annotations := ← as.mapM asText }
  | _ => none

def isFrom : Item → Bool
  | .fromImpl _ _ _ => true
  | _ => false

def showItem : Item → String
  | .ty n ds os _ _ _ => s!"type-{n}-derives-{",".intercalate ds}-attrs-{",".intercalate os}"
  | .fromImpl e v p => s!"impl-From<{p}>-for-{e}::{v}"
  | .lazy n _ _ f => s!"lazy-{n}-{if f then "lazy_static" else "LazyLock"}"
  | .other t => s!"item-{t.take 40}"

def sanitize (s : String) : String := String.ofList (s.toList.map fun c => if c == ' ' || c == '\n' || c == '\r' then '_' else c)

def firstDiff (a b : List Item) : String :=
  match (a.zip b).find? (fun p => p.1 != p.2) with
  | some (x, y) => s!"{showItem x}≠{showItem y}"
  | none => s!"lengths-{a.length}/{b.length}"

def keyOf (i : Item) : String := showItem i

def sortStrings (l : List String) : List String := (l.toArray.qsort (· < ·)).toList

/-- `c19 <cfg> <default module> <module under cfg>` ↦ `<model verdict>|<spec verdict>` -/
def handle : List Sexp → String
  | [c, d, o] =>
    match parseCfg c, parseModule d, parseModule o with
    | some c, some d, some o =>
      let m := decorate c d
      -- model vs implementation: items other than From impls in order; From impls as a set; use lines in order
      let model :=
        if m.uses != o.uses then s!"differs:uses:{",".intercalate m.uses}≠{",".intercalate o.uses}"
        else if m.items.filter (!isFrom ·) != o.items.filter (!isFrom ·) then "differs:" ++ firstDiff (m.items.filter (!isFrom ·)) (o.items.filter (!isFrom ·))
        else if sortStrings ((m.items.filter isFrom).map keyOf) != sortStrings ((o.items.filter isFrom).map keyOf) then
          s!"differs:from-impls:{",".intercalate ((m.items.filter isFrom).map keyOf)}≠{",".intercalate ((o.items.filter isFrom).map keyOf)}"
        else "ok"
      -- the spec, on the implementation's own output
      let errs : List String :=
        (if strip o == strip d then [] else ["definitions-differ-from-default-config:" ++ firstDiff (strip o) (strip d)]) ++
        (o.items.filterMap fun
          | .ty n ds _ _ _ _ =>
            if !(requiredDerives.all ds.contains) then some s!"type-{n}-lacks-a-required-derive"
            else if ds.eraseDups.length != ds.length then some s!"type-{n}-derives-a-trait-twice"
            else none
          | _ => none) ++
        -- the derive *set* of every type: what the annotations list plus what rasn needs, and the `Copy` the
        -- generator itself grants the type under the default configuration — nothing lost, nothing invented
        (d.items.filterMap fun
          | .ty n dds _ _ _ _ =>
            match o.items.find? (fun | .ty n' _ _ _ _ _ => n' == n | _ => false) with
            | some (.ty _ ods _ _ _ _) =>
              let want := (mergeAnnotations c.annotations).1 ++ (if dds.contains "Copy" then ["Copy"] else [])
              if !(want.all ods.contains) then some s!"type-{n}-lost-derive-{",".intercalate (want.filter fun x => !ods.contains x)}"
              else if !(ods.all want.contains) then some s!"type-{n}-derives-unlisted-{",".intercalate (ods.filter fun x => !want.contains x)}"
              else none
            | _ => none
          | _ => none) ++
        (d.items.filterMap fun
          | .ty n _ _ _ true alts =>
            let expect := sortStrings ((alts.filter fun a => alts.countP (fun b => b.2 == a.2) == 1).map fun a => s!"{a.1}:{a.2}")
            let got := sortStrings (o.items.filterMap fun | .fromImpl e v p => if e == n then some s!"{v}:{p}" else none | _ => none)
            if c.fromImpls then (if expect == got then none else some s!"choice-{n}-From-impls-{",".intercalate got}-expected-{",".intercalate expect}")
            else (if got.isEmpty then none else some s!"choice-{n}-has-From-impls-without-the-option")
          | _ => none) ++
        (if importedModules o == importedModules d then [] else ["imported-modules-differ"]) ++
        (if !c.wildcard && o.uses.filter isImportUse != d.uses.filter isImportUse then ["import-lists-differ-without-wildcard-option"] else []) ++
        (if c.wildcard && !((o.uses.filter isImportUse).all fun u => u.endsWith "::{*}") then ["import-not-a-wildcard"] else []) ++
        (if (o.uses.filter fun u => !isImportUse u) == ((d.uses.filter fun u => !isImportUse u).map fun u => if u == lazyUse false then lazyUse c.noStd else u) ++ c.customImports.map squeeze
          then [] else ["builtin-or-custom-use-lines"]) ++
        (o.items.filterMap fun
          | .lazy n _ _ f => if f == c.noStd then none else some s!"static-{n}-has-the-wrong-flavour"
          | _ => none)
      sanitize (model ++ "|" ++ (if errs.isEmpty then "ok" else "bad:" ++ "/".intercalate errs))
    | _, _, _ => "bad-request"
  | _ => "bad-request"

end Driver.C19

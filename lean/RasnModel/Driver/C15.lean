import RasnModel.Basic.Sexp
import RasnModel.Pv.Alphabet
import RasnModel.Spec.Alphabet
import RasnModel.Extracted.Charsets
/- line-protocol handler for C15 -/
namespace Driver.C15
open Sexp Alpha Spec.Alphabet

def tableFor (ty : String) : Table :=
  match Extracted.Charsets.tableOf ty with
  | .explicit cs => .explicit cs
  | .interval lo hi => .interval lo hi

def parseAElem : Sexp → Option AElem
  | .list [.atom "str", .list cs] => do pure (.str (← cs.mapM asNat) false)
  | .list [.atom "range", lo, hi] => do pure (.range (← asOpt asNat lo) (← asOpt asNat hi) false)
  | _ => none

def parseOp : Sexp → Option Pv.Op
  | .atom "inter" => some .inter | .atom "union" => some .union | .atom "except" => some .except | _ => none

def parseRest : Sexp → Option (Pv.Op × AElem)
  | .list [o, e] => do pure (← parseOp o, ← parseAElem e)
  | _ => none

def parseForm : Sexp → Option FromForm
  | .atom "standalone" => some .standalone | .atom "withsize" => some .withSize | _ => none

def parseCons : Sexp → Option (FromForm × Chain)
  | .list [.atom "from", f, first, .list rest] => do pure (← parseForm f, ⟨← parseAElem first, ← rest.mapM parseRest⟩)
  | _ => none

def nestFrom (e : AElem) : List (Pv.Op × AElem) → ASet
  | [] => .elem e
  | (o, e') :: r => .op e o (nestFrom e' r)

def parseSubset : Sexp → Option Subset
  | .list [.atom "single", c] => do pure (.single (← asNat c))
  | .list [.atom "range", lo, hi] => do pure (.range (← asOpt asNat lo) (← asOpt asNat hi))
  | _ => none

def showOpt : Option Nat → String | none => "*" | some v => toString v
def showSubs (l : List Subset) : String :=
  ",".intercalate (l.map fun s => match s with | .single c => toString c | .range a b => s!"{showOpt a}..{showOpt b}")

def elemChars : AElem → List Nat
  | .str s _ => s
  | .range lo hi _ => lo.toList ++ hi.toList

def ops (c : Chain) : List Pv.Op := c.rest.map (·.1)

/-- finding classes (disjuncts of ¬Dom) that apply to the constraints of a case -/
def classesOf (ty : String) (cs : List (FromForm × Chain)) : List String :=
  let standalone := cs.filter (·.1 == .standalone)
  let folded := cs.filter (·.1 == .withSize)
  let t := tableFor ty
  (if standalone.any (fun fc => (ops fc.2).any (· != .union)) then ["C15_from_operators_flattened_to_union"] else []) ++
  (if cs.length ≥ 2 then ["C15_serial_from_unioned"] else []) ++
  -- inside one `FROM(..) ^ SIZE(..)` constraint the fold works on hulls
  (if folded.any (fun fc => fc.2.rest.length ≥ 1 &&
      (fc.2.first :: fc.2.rest.map (·.2)).any (fun e => match e with | .range .. => true | _ => false))
    then ["C15_fold_ranges_as_hulls"] else []) ++
  -- the same right-nesting as C04
  (if folded.any (fun fc => let os := (ops fc.2).zipIdx
        os.any (fun (o, i) => (o == .inter && os.any (fun (o', j) => o' == .union && i < j)) || (o == .except && i + 1 < os.length)))
    then ["C15_fold_no_precedence"] else []) ++
  -- EXCEPT inside `FROM(..) ^ SIZE(..)`: the fold keeps the base and ignores what is excluded
  (if folded.any (fun fc => (ops fc.2).any (· == .except)) then ["C15_fold_except_ignored"] else []) ++
  -- a range whose table order differs from code-point order (PrintableString only)
  (if ty == "PrintableString" && cs.any (fun fc => (fc.2.first :: fc.2.rest.map (·.2)).any (fun e => match e with
        | .range (some l) (some h) _ => (match t.index l, t.index h with | some a, some b => decide (a > b) != decide (l > h) || true | _, _ => false)
        | .range _ _ _ => true
        | _ => false))
    then ["C15_printable_table_order"] else []) ++
  -- a string operand that the lexer takes for a TIME value
  (if cs.any (fun fc => (fc.2.first :: fc.2.rest.map (·.2)).any (fun e => match e with | .str s _ => isTString s | _ => false))
    then ["C15_string_operand_lexed_as_time"] else []) ++
  -- MAX on a type whose table is the 0..0xFFFE catch-all
  (if (ty == "BMPString" || ty == "UniversalString") &&
      cs.any (fun fc => (fc.2.first :: fc.2.rest.map (·.2)).any (fun e => match e with | .range _ none _ => true | _ => false))
    then ["C15_max_is_fffe"] else [])

/-- `c15 <type> <component> ( from-cons* ) <observed: none | err | ( subsets )>` ↦ `<model> <verdict>` -/
def handle : List Sexp → String
  | [ty, comp, .list cs, obs] =>
    match asText ty, asBool comp, cs.mapM parseCons with
    | some ty, some comp, some cs =>
      let t := tableFor ty
      let km := knownMultiplier ty
      let model := fromAttr t km (cs.map fun fc => (fc.1, nestFrom fc.2.first fc.2.rest)) (!comp || km)
      let timeInFold := cs.any (fun fc => fc.1 == .withSize && (fc.2.first :: fc.2.rest.map (·.2)).any (fun e => match e with | .str s _ => isTString s | _ => false))
      -- a TIME-lexed operand inside the fold path is outside the model
      let modelS := if timeInFold then "?" else match model with | none => "err" | some [] => "none" | some l => showSubs l
      let obsParsed : Option (Option (List Subset)) := match obs with
        | .atom "none" => some (some [])
        | .atom "err" => some none
        | .list l => (l.mapM parseSubset).map some
        | _ => none
      match obsParsed with
      | none => "bad-request"
      | some none =>
        -- the definition was dropped with a warning: fine for illegal notation, an empty alphabet and types without
        -- alphabet annotations; for a legal FROM constraint of a known-multiplier type no annotation denotes the set
        let chains := cs.map (·.2)
        let legal := chains.all fun ch => (ch.first :: ch.rest.map (·.2)).all fun e =>
          (elemChars e).all (baseMem ty) && (match e with | .range (some l) (some h) _ => decide (l ≤ h) | _ => true)
        let probes := (chains.flatMap fun ch => (ch.first :: ch.rest.map (·.2)).flatMap elemChars).flatMap (fun c => [c - 1, c, c + 1]) |>.eraseDups
        let specEmpty := probes.all fun c => !memSpec ty chains c
        if !km || !legal || specEmpty || timeInFold then s!"{modelS} skip:dropped-with-warning"
        else
          let classes := classesOf ty cs
          s!"{modelS} bad:{if classes.isEmpty then "unclassified" else "+".intercalate classes}:definition-dropped-although-the-FROM-constraint-is-legal"
      | some (some subs) =>
        if !km then (if subs.isEmpty then s!"{modelS} ok" else s!"{modelS} bad:unclassified:alphabet-annotation-on-a-non-known-multiplier-type")
        else
          let chains := cs.map (·.2)
          -- legal notation: every character used lies in the base alphabet, ranges are not inverted
          let legal := chains.all fun ch => (ch.first :: ch.rest.map (·.2)).all fun e =>
            (elemChars e).all (baseMem ty) && (match e with | .range (some l) (some h) _ => decide (l ≤ h) | _ => true)
          if !legal then s!"{modelS} skip:illegal-notation" else
          if cs.any (fun fc => fc.1 == .withSize && (fc.2.first :: fc.2.rest.map (·.2)).any (fun e => match e with | .str s _ => isTString s | _ => false))
          then s!"{modelS} skip:time-like-string-in-fold-path" else
          let probes := ((chains.flatMap fun ch => (ch.first :: ch.rest.map (·.2)).flatMap elemChars) ++
              (subs.flatMap fun s => match s with | .single c => [c] | .range a b => a.toList ++ b.toList)).flatMap
              (fun c => [c - 1, c, c + 1]) |>.eraseDups
          let specEmpty := probes.all fun c => !memSpec ty chains c
          if specEmpty then s!"{modelS} skip:empty-alphabet" else
          let bad := probes.filter fun c => memSpec ty chains c != (if subs.isEmpty then baseMem ty c else memAttr ty subs c)
          let errs := (if bad.isEmpty then [] else [s!"char-{bad.head!}-spec-{memSpec ty chains bad.head!}"]) ++
                      (if withinBase ty subs then [] else ["annotation-names-a-character-outside-the-base-alphabet"])
          if errs.isEmpty then s!"{modelS} ok" else
          let classes := classesOf ty cs
          s!"{modelS} bad:{if classes.isEmpty then "unclassified" else "+".intercalate classes}:{"/".intercalate errs}"
    | _, _, _ => "bad-request"
  | _ => "bad-request"

end Driver.C15

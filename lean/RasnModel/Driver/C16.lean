import RasnModel.Basic.Sexp
import RasnModel.Gen.Names
import RasnModel.Spec.RustIdent
import RasnModel.Lexer.Names
import RasnModel.Extracted.Names
/- line-protocol handler for C16 -/
namespace Driver.C16
open Sexp Gen.Names Spec.Ident

def render (role : String) (s : List Char) : Option (List Char) :=
  match role with
  | "module" => some (toSnake s)
  | "type" => some (toTitle s)
  | "component" => some (toSnake s)
  | "alternative" => some (toEnumIdent s)
  | "enumeral" => some (toEnumIdent s)
  | "value" => some (toConst s)
  | _ => none

def b (x : Bool) : String := if x then "t" else "f"

/-- `c16 <role> <asnName> <observedIdent> <annotation>` ↦
    `<modelIdent> <modelAnnotation> <legal> <recoverable> <asn1ident>` -/
def handle : List Sexp → String
  | [.atom role, name, obs, ann] =>
    match asChars name, asChars obs, asOpt asChars ann, (asChars name).bind (render role) with
    | some name, some obs, some ann, some model =>
      let wantsAnn := role == "type" || role == "component" || role == "alternative" || role == "enumeral"
      let modelAnn := if wantsAnn then identifierAnnotation model name else none
      let legal := decide (LegalRustIdent obs)
      let recoverable := !wantsAnn || (obs == name || ann == some name)
      s!"{(ofChars model).toStr} {(ofOpt ofChars modelAnn).toStr} {b legal} {b recoverable} {b (decide (Asn1Ident name))}"
    | _, _, _, _ => "bad-request"
  | _ => "bad-request"

/-- `scanname <kind> <text>` ↦ `<name> <bytes consumed>` | `none`: the lexer's name scanners
    (0 = type_reference, 1 = identifier, 2 = value_reference) -/
def handleScan : List Sexp → String
  | [.atom kind, text] =>
    match asChars text with
    | some inp =>
      let r := match kind with
        | "0" => Lexer.Names.typeReference Extracted.Names.asn1Keywords inp
        | "1" => Lexer.Names.identifier inp
        | _ => Lexer.Names.valueReference inp
      match r with
      | some (n, _) => s!"{(ofChars n).toStr} {(String.ofList n).utf8ByteSize}"
      | none => "none"
    | none => "bad-request"
  | _ => "bad-request"

end Driver.C16

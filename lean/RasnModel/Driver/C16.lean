import RasnModel.Basic.Sexp
import RasnModel.Gen.Names
import RasnModel.Spec.RustIdent
/- line-protocol handler for C16 -/
namespace Driver.C16
open Sexp Gen.Names Spec.Ident

def render (role : String) (s : List Char) : Option (List Char) :=
  match role with
  | "module" => some (toSnake s)
  | "type" => some (toTitle s)
  | "component" => some (toSnake s)
  | "alternative" => some (toEnumIdent s)
  | "enumeral" => some (toEnumIdent s)
  | "value" => some (toConst s)
  | _ => none

def b (x : Bool) : String := if x then "t" else "f"

/-- `c16 <role> <asnName> <observedIdent> <annotation>` ↦
    `<modelIdent> <modelAnnotation> <legal> <recoverable> <asn1ident>` -/
def handle : List Sexp → String
  | [.atom role, name, obs, ann] =>
    match asChars name, asChars obs, asOpt asChars ann, (asChars name).bind (render role) with
    | some name, some obs, some ann, some model =>
      let wantsAnn := role == "type" || role == "component" || role == "alternative" || role == "enumeral"
      let modelAnn := if wantsAnn then identifierAnnotation model name else none
      let legal := decide (LegalRustIdent obs)
      let recoverable := !wantsAnn || (obs == name || ann == some name)
      s!"{(ofChars model).toStr} {(ofOpt ofChars modelAnn).toStr} {b legal} {b recoverable} {b (decide (Asn1Ident name))}"
    | _, _, _, _ => "bad-request"
  | _ => "bad-request"

end Driver.C16

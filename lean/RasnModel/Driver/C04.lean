import RasnModel.Basic.Sexp
import RasnModel.Pv.Fold
import RasnModel.Spec.Subtype
/- line-protocol handler for C04 -/
namespace Driver.C04
open Sexp Pv Spec.Subtype

def parseElem : Sexp → Option Elem
  | .list [.atom "single", v] => do pure (.single (← asInt v) false)
  | .list [.atom "range", lo, hi] => do pure (.range (← asOpt asInt lo) (← asOpt asInt hi) false)
  | _ => none

def parseOp : Sexp → Option Op
  | .atom "inter" => some .inter | .atom "union" => some .union | .atom "except" => some .except | _ => none

def parseRest : Sexp → Option (Op × Elem)
  | .list [o, e] => do pure (← parseOp o, ← parseElem e)
  | _ => none

structure SrcCons where
  chain : Chain
  /-- marker written inside, after the last element: `(a | b, ...)` -/
  marker : Bool
  /-- marker written after `SIZE(..)`: `(SIZE(a..b), ...)` -/
  outerMarker : Bool
  isSize : Bool
  allExcept : Bool

def parseCons : Sexp → Option SrcCons
  | .list [.atom "chain", m, om, sz, ae, first, .list rest] => do
      pure ⟨⟨← parseElem first, ← rest.mapM parseRest⟩, ← asBool m, ← asBool om, ← asBool sz, ← asBool ae⟩
  | _ => none

def setExt : Elem → Elem
  | .single v _ => .single v true
  | .range a b _ => .range a b true

/-- lexer: the element parsers (`single_value`, `value_range`) consume a trailing `, ...` themselves,
    so an inner marker lands on the LAST element of the chain -/
def lexChain (c : Chain) (marker : Bool) : Chain :=
  if !marker then c else
  match c.rest.reverse with
  | [] => { c with first := setExt c.first }
  | (o, e) :: r => { c with rest := (( o, setExt e) :: r).reverse }

def toCons (s : SrcCons) : Cons :=
  { set := nest (lexChain s.chain s.marker), outerExt := s.outerMarker, isSize := s.isSize, allExcept := s.allExcept }

def showOptInt : Option Int → String
  | none => "*"
  | some v => toString v

def showAttr : Option RangeAttr → String
  | none => "none"
  | some a => s!"{if a.isSize then "size" else "value"}:{showOptInt a.lo}:{showOptInt a.hi}:{if a.ext then "ext" else "-"}"

def parseAttr : Sexp → Option (Option RangeAttr)
  | .atom "none" => some none
  | .list [.atom "attr", sz, lo, hi, ext] => do
      pure (some ⟨← asBool sz, ← asOpt asInt lo, ← asOpt asInt hi, ← asBool ext⟩)
  | _ => none

def ops (c : Chain) : List Op := c.rest.map (·.1)

/-- finding classes that apply to a chain (disjuncts of ¬Dom) -/
def classesOf (s : SrcCons) : List String :=
  let os := ops s.chain
  let idx := os.zipIdx
  let prec := idx.any fun (o, i) => o == .inter && idx.any (fun (o', j) => o' == .union && i < j)
  let exTail := idx.any fun (o, i) => o == .except && i + 1 < os.length
  -- a marker behind the last parenthesis belongs to the element set; the code keeps it only if the set has a bound
  let unboundedSet := s.outerMarker && !s.isSize && !s.allExcept &&
    (match hull (parse s.chain) with | some iv => iv.lo.isNone && iv.hi.isNone | none => false)
  (if prec then ["C04_no_operator_precedence"] else []) ++
  (if exTail then ["C04_except_drops_what_follows"] else []) ++
  (if unboundedSet then ["C04_set_level_marker_lost_when_unbounded"] else [])

def finiteEnds (s : SrcCons) : List Int :=
  let e (x : Elem) : List Int := match x with
    | .single v _ => [v]
    | .range lo hi _ => lo.toList ++ hi.toList
  e s.chain.first ++ s.chain.rest.flatMap (fun oe => e oe.2)

/-- `c04 <signed argument of format_range_annotations> <constraints are sizes> ( cons* ) <observed attr>`
    ↦ `<model attr> <verdict>` -/
def judge (strict : Bool) : List Sexp → String
  | [signedArg, sizeTy, .list cs, obs] =>
    match asBool signedArg, asBool sizeTy, cs.mapM parseCons, parseAttr obs with
    | some signedArg, some sizeTy, some cs, some obs =>
      let model := rangeAttr signedArg (cs.map toCons)
      let signed := !sizeTy
      let modelS := match model with | none => "error" | some a => showAttr a
      -- reference semantics
      let groups := cs.map fun s => if s.allExcept then ([] : Groups) else parse s.chain
      let legal := (cs.zip groups).all fun (s, g) => s.allExcept || allNonempty g
      let hulls : List (Option Iv) := (cs.zip groups).map fun (s, g) => if s.allExcept then some ⟨none, none⟩ else hull g
      let base : Iv := if signed then ⟨none, none⟩ else ⟨some 0, none⟩
      let eff : Option Iv := hulls.foldl (fun acc h => match acc, h with | some a, some b => some (a.meet b) | _, _ => none) (some base)
      let extSpec := cs.any fun s => s.marker || s.outerMarker
      let isSize := cs.any (·.isSize)
      if !legal then s!"{modelS} skip:empty-set" else
      match eff with
      | none => s!"{modelS} skip:empty-set"
      | some eff =>
        if !eff.nonempty then s!"{modelS} skip:empty-set" else
        let obsIv : Iv := match obs with | none => base | some a => ⟨a.lo, a.hi⟩
        let obsExt := match obs with | none => false | some a => a.ext
        -- never excludes: probe every finite endpoint and its neighbours
        let probes := (cs.flatMap finiteEnds).flatMap (fun v => [v - 1, v, v + 1]) |>.eraseDups
        let probes := if signed then probes else probes.filter (· ≥ 0)
        let excluded := probes.filter fun v =>
          ((cs.zip groups).all fun (s, g) => s.allExcept || denoteB g v) && !obsIv.memB v
        let errs : List String :=
          (if excluded.isEmpty then [] else [s!"excludes-permitted-value:{excluded.head!}"]) ++
          (if !strict then [] else
          (if obsIv == eff || (obs.isNone && eff == base) then [] else [s!"bounds:{showOptInt obsIv.lo}..{showOptInt obsIv.hi}:expected:{showOptInt eff.lo}..{showOptInt eff.hi}"]) ++
          -- no annotation is emitted for an unbounded constraint: extensibility is then not observable
          (if obsExt == extSpec || (obs.isNone && eff == base) then [] else [s!"extensible:{obsExt}:expected:{extSpec}"]) ++
          (match obs with | some a => if a.isSize == isSize then [] else ["size-vs-value"] | none => []))
        if errs.isEmpty then s!"{modelS} ok" else
        let classes := (cs.flatMap classesOf).eraseDups
        s!"{modelS} bad:{if classes.isEmpty then "unclassified" else "+".intercalate classes}:{"/".intercalate errs}"
    | _, _, _, _ => "bad-request"
  | _ => "bad-request"

def handle : List Sexp → String := judge true

/-- `c04sound …`: the same request, judged for the one clause "never excludes a permitted value" only.
    Used for operands the fold does not look into (contained subtypes, written here as the range they
    stand for): the emitted bound may be looser than the effective constraint, never tighter. -/
def handleSound : List Sexp → String := judge false

end Driver.C04

import RasnModel.IR.Src
import RasnModel.Gen.Struct
import RasnModel.Spec.Struct
import RasnModel.Spec.Recursion
/- line-protocol handler shared by C02 / C03 / C05: constructed types -/
namespace Driver.Struct
open Sexp IR Gen.Struct

def showTagF : Option TagF → String
  | none => "-"
  | some t => s!"{repr t.cls}/{t.num}/{if t.explicit then "E" else "I"}"

def showField (f : FieldF) : String :=
  s!"{f.name}:{f.ty}:{showTagF f.tag}:{repr f.ext}:{f.hasDefault}:{f.identifier}"

/-- first difference between a model item and an observed item (boxing is not part of the model) -/
def diffItem (m o : ItemF) : Option String :=
  if m.kind != o.kind then some s!"{m.name}: kind {repr m.kind} vs {repr o.kind}"
  else if m.isSet != o.isSet then some s!"{m.name}: set {m.isSet} vs {o.isSet}"
  else if m.nonExhaustive != o.nonExhaustive then some s!"{m.name}: non_exhaustive {m.nonExhaustive} vs {o.nonExhaustive}"
  else if m.automaticTags != o.automaticTags then some s!"{m.name}: automatic_tags {m.automaticTags} vs {o.automaticTags}"
  else if m.tag != o.tag then some s!"{m.name}: tag {showTagF m.tag} vs {showTagF o.tag}"
  else if m.fields.length != o.fields.length then some s!"{m.name}: {m.fields.length} fields vs {o.fields.length}"
  else
    (m.fields.zip o.fields).findSome? fun (a, b) =>
      if { b with boxed := false } == a then none else some s!"{m.name}: field {showField a} vs {showField b}"

def diffItems (model obs : List ItemF) : Option String :=
  match model.findSome? (fun m =>
      match obs.find? (fun o => o.name == m.name) with
      | none => some s!"item {m.name} missing"
      | some o => diffItem m o) with
  | some d => some d
  | none =>
    match obs.find? (fun o => !model.any (fun m => m.name == o.name)) with
    | some o => some s!"unexpected item {o.name}"
    | none => if model.length != obs.length then some "duplicate items" else none

def sanitize (s : String) : String := s.map fun c => if c == ' ' || c == '\n' || c == '\r' then '_' else c

open Spec.Struct in
/-- C05 verdict: extensibility facts of every expected item -/
def checkC05 (spec obs : List ItemF) : List (String × String) :=
  spec.filterMap fun e =>
    match obs.find? (fun o => o.name == e.name) with
    | none => some ("", s!"item {e.name} missing")
    | some o =>
      if sameC05n o e then none
      else some ("", s!"{e.name}: non_exhaustive/extension marks {o.nonExhaustive}/{repr (projC05n o).2} expected {e.nonExhaustive}/{repr (projC05n e).2}")

open Spec.Struct in
/-- C02 verdict: kind, set marker, one field per component in order with its type shape and default -/
def checkC02 (spec obs : List ItemF) : List (String × String) :=
  (spec.filterMap fun e =>
    match obs.find? (fun o => o.name == e.name) with
    | none => some ("", s!"item {e.name} missing")
    | some o =>
      if projC02 o == projC02 e then none
      else some ("", s!"{e.name}: fields {repr (projC02 o).2.2} expected {repr (projC02 e).2.2}")) ++
  (obs.filterMap fun o => if spec.any (fun e => e.name == o.name) then none else some ("", s!"unexpected item {o.name}"))

open Spec.Struct in
/-- one tag position: class and number kept; effective explicitness as X.680 says -/
def tagOk (sp ob : Option TagF) : Bool :=
  match sp, ob with
  | none, none => true
  | some s, some o => s.cls == o.cls && s.num == o.num && effective o.explicit s.relaxed == s.explicit
  | _, _ => false

/-- C03 verdict. A mismatch that the (defective) model reproduces is tagged with its finding class. -/
def checkC03 (_top : String) (default : TagDefault) (spec model obs : List ItemF) : List (String × String) :=
  spec.flatMap fun e =>
    match obs.find? (fun o => o.name == e.name), model.find? (fun m => m.name == e.name) with
    | some o, some m =>
      let cls (sp ob mo : Option TagF) : String :=
        if ob != mo then ""
        else if sp.isSome && ob.isNone then "C03_element_tag_dropped"
        else if default == .none then "C03_no_tags_clause_is_implicit"
        else ""
      -- explicit tags on CHOICE / open types are not observable: such spec tags are `relaxed`
      let pos (what : String) (sp ob mo : Option TagF) : List (String × String) :=
        if tagOk sp ob then [] else
        [(cls sp ob mo, s!"{e.name}.{what}: tag {showTagF ob} expected {showTagF sp}")]
      let itemTag := pos "item" e.tag o.tag m.tag
      let auto := if e.automaticTags == o.automaticTags then [] else
        [((if o.automaticTags == m.automaticTags then "C03_group_component_tags_ignored" else ""),
          s!"{e.name}: automatic_tags {o.automaticTags} expected {e.automaticTags}")]
      let fields := (e.fields.zip (o.fields.zip m.fields)).flatMap fun (ef, ofm) => pos ef.name ef.tag ofm.1.tag ofm.2.tag
      itemTag ++ auto ++ fields
    | _, _ => [("", s!"item {e.name} missing")]

def verdict (errs : List (String × String)) : String :=
  match errs with
  | [] => "ok"
  | (_, msg) :: _ =>
    let classes := (errs.map (·.1)).eraseDups
    "bad:" ++ "+".intercalate (classes.map fun c => if c == "" then "unclassified" else c) ++ ":" ++ sanitize msg

/-- `struct <env> <implied> <name> <tag> <type> ( choice-ref names ) ( observed items )` ↦
    `model=<agree|differ:..> c02=<..> c05=<..> c03=<..>` -/
def handle : List Sexp → String
  | [env, implied, name, tag, ty, .list crefs, .list obs] =>
    match parseTagDefault env, asBool implied, asText name, asOpt parseTag tag, parseType ty, crefs.mapM asText, obs.mapM parseItemF with
    | some env, some implied, some name, some tag, some ty, some crefs, some obs =>
      let ctx : Ctx := ⟨headerEnv env, implied⟩
      let model := genItems ctx 64 true name tag ty
      let sctx : Spec.Struct.SCtx := ⟨env, implied, crefs⟩
      let spec := Spec.Struct.specItems sctx 64 name tag ty
      let m := match diffItems model obs with
        | none => "model=agree"
        | some d => "model=differ:" ++ sanitize d
      s!"{m} c02={verdict (checkC02 spec obs)} c05={verdict (checkC05 spec obs)} c03={verdict (checkC03 (titleS name) env spec model obs)}"
    | _, _, _, _, _, _, _ => "bad-request"
  | _ => "bad-request"

/-- `recgraph ( observed items of a whole module )` ↦ `acyclic` | `cycle:<names>` -/
def handleRec : List Sexp → String
  | [.list obs] =>
    match obs.mapM parseItemF with
    | some obs =>
      match Spec.Rec.cyclic obs with
      | [] => "acyclic"
      | l => "cycle:" ++ ",".intercalate l
    | none => "bad-request"
  | _ => "bad-request"

end Driver.Struct

import RasnModel.Basic.Sexp
import RasnModel.Lexer.Enumerated
import RasnModel.Spec.Enumerated
/- line-protocol handler for C14 -/
namespace Driver.C14
open Sexp

def showInts (l : List Int) : String := "(" ++ " ".intercalate (l.map toString) ++ ")"

/-- `c14 ( root ) ( adds ) ( obsRoot ) ( obsAdds )` ↦ `<agree> <specOk> <valid> <modelRoot> <modelAdds>`
    agree: model = observed; specOk: X.680 checker accepts the observed numbering;
    valid: the source is legal (explicit root numbers distinct, explicit additions outside the root
    and above all preceding additions — judged on the X.680 numbering). -/
def handle : List Sexp → String
  | [root, adds, obsR, obsA] =>
    match asListOf (asOpt asInt) root, asListOf (asOpt asInt) adds, asListOf asInt obsR, asListOf asInt obsA with
    | some root, some adds, some obsR, some obsA =>
      let m := Lexer.Enum.number root adds
      let agree := m.1 == obsR && m.2 == obsA
      let specOk := Spec.Enum.check root adds obsR obsA
      let valid := (Spec.Enum.explicitOf root).eraseDups.length == (Spec.Enum.explicitOf root).length
        && Spec.Enum.validAddsAux m.1 [] adds m.2
      s!"{if agree then "t" else "f"} {if specOk then "t" else "f"} {if valid then "t" else "f"} {showInts m.1} {showInts m.2}"
    | _, _, _, _ => "bad-request"
  | _ => "bad-request"

/-- `c14legal ( root ) ( adds )` ↦ `t` when the source is legal notation (X.680 20.3/20.4) and every number X.680
    assigns fits the lexer's i128 — such an enumeration has to compile — else `f` -/
def handleLegal : List Sexp → String
  | [root, adds] =>
    match asListOf (asOpt asInt) root, asListOf (asOpt asInt) adds with
    | some root, some adds =>
      let m := Lexer.Enum.number root adds
      let valid := (Spec.Enum.explicitOf root).eraseDups.length == (Spec.Enum.explicitOf root).length
        && Spec.Enum.validAddsAux m.1 [] adds m.2
      let lo : Int := -170141183460469231731687303715884105728
      let hi : Int := 170141183460469231731687303715884105727
      let fits := (m.1 ++ m.2).all fun v => decide (lo ≤ v) && decide (v ≤ hi)
      if valid && fits then "t" else "f"
    | _, _ => "bad-request"
  | _ => "bad-request"

end Driver.C14

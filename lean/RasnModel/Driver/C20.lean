import RasnModel.Basic.Sexp
import RasnModel.Io.Deliver
/- line-protocol handlers for C20 -/
namespace Driver.C20
open Sexp Deliver

def parseNode : Sexp → Option (String × Node)
  | .list [p, .atom "a"] => do pure (← asText p, .absent)
  | .list [p, .atom "f"] => do pure (← asText p, .file "")
  | .list [p, .atom "d"] => do pure (← asText p, .dir)
  | .list [p, .atom "b"] => do pure (← asText p, .blocked none)
  | _ => none

def parseMode : Sexp → Option Mode
  | .list [.atom "file", p] => do pure (.file (← asText p))
  | .atom "stdout" => some .stdout
  | .atom "none" => some .none
  | _ => none

/-- `c20 <ext> <mode> ( (path a|f|d|b) … ) <none | text>` ↦ `err` | `ok none` | `ok stdout` | `ok file <hex destination>` -/
def handle : List Sexp → String
  | [ext, m, .list ns, r] =>
    match asText ext, parseMode m, ns.mapM parseNode, asOpt asText r with
    | some ext, some m, some ns, some r =>
      let w : World := ⟨fun p => (ns.lookup p).getD .absent, []⟩
      let (ok, w') := compile w ext m r
      if !ok then "err" else
        match m with
        | .none => "ok none"
        | .stdout => if w'.out == [r.getD ""] then "ok stdout" else "ok ?"
        | .file p =>
          let d := destination w ext p
          if w'.node d == .file (r.getD "") then "ok file " ++ hexOfBytes d.toUTF8.toList else "ok ?"
    | _, _, _, _ => "bad-request"
  | _ => "bad-request"

partial def parseTree : Sexp → Option Tree
  | .list [.atom "f", n] => do pure (.file (← asText n))
  | .list [.atom "d", n, .list cs] => do pure (.dir (← asText n) (← cs.mapM parseTree))
  | _ => none

/-- `c20find <tree>` ↦ the found paths, hex, space separated -/
def handleFind : List Sexp → String
  | [t] =>
    match parseTree t with
    | some t =>
      let fs := found "" t
      if fs.isEmpty then "-" else " ".intercalate (fs.map fun p => hexOfBytes p.toUTF8.toList)
    | none => "bad-request"
  | _ => "bad-request"

/-- `c20macro <snippet>` ↦ hex of the source the macro compiles -/
def handleMacro : List Sexp → String
  | [v] =>
    match asText v with
    | some v => hexOfBytes (macroSource (fun a b => (a.splitOn b).length > 1) v).toUTF8.toList
    | none => "bad-request"
  | _ => "bad-request"

end Driver.C20

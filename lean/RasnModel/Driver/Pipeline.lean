import RasnModel.Basic.Sexp
import RasnModel.Io.Pipeline
/- line-protocol handler for the pipeline skeleton (C10 / C11 / C12) -/
namespace Driver.Pipeline
open Sexp Pipe

structure Body where
  valid : Bool
  gen : Bool
  deriving Repr

def parseDef : Sexp → Option (Def Body)
  | .list [n, m, tag, ext, v, g] => do
    pure ⟨← asText n, ⟨← asText m, ← asNat tag, ← asBool ext⟩, ⟨← asBool v, ← asBool g⟩⟩
  | _ => none

def showEv : Ev → String
  | .emitted m n t => s!"E:{m}:{n}:{t}"
  | .genWarn m n => s!"G:{m}:{n}"
  | .valWarn n => s!"V:{n}"
  | .replWarn m n => s!"R:{m}:{n}"

/-- `pipe <tag0> <ext0> ( (name module tag ext valid gen) … )` ↦ the model's event list.
    The text of an emitted definition is the backend state it was generated under. -/
def handle : List Sexp → String
  | [t0, e0, .list ds] =>
    match asNat t0, asBool e0, ds.mapM parseDef with
    | some t0, some e0, some ds =>
      let evs := compile (fun d => d.body.valid)
        (fun st d => if d.body.gen then some s!"{st.tag}/{if st.ext then "t" else "f"}" else none) ⟨t0, e0⟩ ds
      if evs.isEmpty then "-" else " ".intercalate (evs.map showEv)
    | _, _, _ => "bad-request"
  | _ => "bad-request"

end Driver.Pipeline

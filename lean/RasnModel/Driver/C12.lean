import RasnModel.Basic.Sexp
import RasnModel.Gen.Imports
/- line-protocol handler for C12 (use lines) -/
namespace Driver.C12
open Sexp Gen.Imports

def parseClause : Sexp → Option (List Char × List (List Char))
  | .list [m, .list ss] => do pure ((← asChars m), (← ss.mapM asChars))
  | _ => none

/-- `c12use <wildcard> ( (module (symbols…)) … )` ↦ `module:sym,sym;module:*;…` (`-` when there is no clause) -/
def handle : List Sexp → String
  | [w, .list cs] =>
    match asBool w, cs.mapM parseClause with
    | some w, some cs =>
      let ls := useLines w cs
      if ls.isEmpty then "-" else
      ";".intercalate (ls.map fun l => String.ofList l.module ++ ":" ++
        (match l.symbols with | none => "*" | some ss => ",".intercalate (ss.map String.ofList)))
    | _, _ => "bad-request"
  | _ => "bad-request"

end Driver.C12

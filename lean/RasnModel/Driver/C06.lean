import RasnModel.Basic.Sexp
import RasnModel.Spec.IntTy
import RasnModel.Gen.IntType
import RasnModel.Pv.Range
import RasnModel.Driver.C04
/- line-protocol handler for C06 -/
namespace Driver.C06
open Sexp Gen Extracted.IntType

def parseCons : Sexp → Option IntCons
  | .list [.atom "range", lo, hi, ext] => do
      pure (.range (← asOpt asInt lo) (← asOpt asInt hi) (← asBool ext))
  | .list [.atom "single", v, ext] => do pure (.single (← asInt v) (← asBool ext))
  | .atom "other" => some .other
  | _ => none

/-- reference semantics of one element constraint -/
def consBounds : IntCons → Spec.Bounds
  | .range lo hi ext => ⟨lo, hi, ext⟩
  | .single v ext => ⟨some v, some v, ext⟩
  | .other => ⟨none, none, false⟩

/-- serial constraints intersect; extensibility as soon as one carries a marker -/
def meet (a b : Spec.Bounds) : Spec.Bounds :=
  { lo := match a.lo, b.lo with
      | some x, some y => some (max x y) | some x, none => some x | none, y => y
    hi := match a.hi, b.hi with
      | some x, some y => some (min x y) | some x, none => some x | none, y => y
    ext := a.ext || b.ext }

def specBounds (cs : List IntCons) : Spec.Bounds :=
  cs.foldl (fun acc c => meet acc (consBounds c)) ⟨none, none, false⟩

def pvOfCons : IntCons → Pv.PvRange
  | .range lo hi ext => ⟨lo, hi, ext, false⟩
  | .single v ext => ⟨some v, some v, ext, false⟩
  | .other => Pv.PvRange.default

/-- component path: `per_visible_range_constraints(true, cs)` then `int_type_token` -/
def componentToken (cs : List IntCons) : String :=
  let r := cs.foldl (fun acc c => acc.addAssign (pvOfCons c)) Pv.PvRange.default
  intTypeToken r.min r.max r.ext

def consExt : IntCons → Bool
  | .range _ _ e => e
  | .single _ e => e
  | .other => false

/-- Finding class `C06_serial_ext_ignored` (one disjunct of ¬Dom of the full fixed-only-if statement):
    assignment path, at least two serial constraints, one with and one without an extension marker.
    `Integer::int_type` keeps the most restrictive per-constraint width and forgets the marker of
    the other constraints. -/
def findingClass (path : String) (cs : List IntCons) : String :=
  if path == "assign" && cs.length ≥ 2 && cs.any consExt && cs.any (fun c => !consExt c)
  then "C06_serial_ext_ignored" else "none"

/-- `c06 <path> ( cons* ) <token> <lit>` ↦ `<modelToken> <tokenOk> <literalOk>` -/
def handle : List Sexp → String
  | [.atom path, .list cs, .atom tok, lit] =>
    match mapM' parseCons cs, asOpt asInt lit with
    | some cs, some lit =>
      let model := if path == "assign" then assignmentToken cs else componentToken cs
      let ok := Spec.tokenOk tok (specBounds cs)
      let lok := match lit with
        | none => "na"
        | some v => if Spec.literalOk tok v then "t" else "f"
      s!"{model} {if ok then "t" else "f"} {lok} {findingClass path cs}"
    | _, _ => "bad-request"
  | _ => "bad-request"

/-- `c06set <path> ( C04-style constraints ) <token>` ↦ `<modelToken> <tokenOk> <finding class>`: constraints that contain set
    operators. Component path: the PER-visible fold (Pv/Fold, the C04 model) followed by `int_type_token`;
    assignment path: `Integer::int_type` sees no plain range / single value in such a constraint (`other`).
    Reference semantics: the hull of the permitted set (Spec/Subtype), extensible iff a marker is written. -/
def handleSet : List Sexp → String
  | [.atom path, .list cs, .atom tok] =>
    match cs.mapM Driver.C04.parseCons with
    | some cs =>
      open Driver.C04 Spec.Subtype Pv in
      let simple (s : SrcCons) : Option IntCons :=
        if !s.chain.rest.isEmpty || s.allExcept then none else
        match s.chain.first with
        | .single v _ => some (.single v (s.marker || s.outerMarker))
        | .range lo hi _ => some (.range lo hi (s.marker || s.outerMarker))
      let model :=
        if path == "assign" then assignmentToken (cs.map fun s => (simple s).getD .other)
        else match perVisibleRange true (cs.map toCons) with
          | some r => intTypeToken r.min r.max r.ext
          | none => "error"
      let groups := cs.map fun s => if s.allExcept then ([] : Groups) else parse s.chain
      let hulls : List (Option Iv) := (cs.zip groups).map fun (s, g) => if s.allExcept then some ⟨none, none⟩ else hull g
      let eff : Option Iv := hulls.foldl (fun acc h => match acc, h with | some a, some b => some (a.meet b) | _, _ => none) (some ⟨none, none⟩)
      let legal := (cs.zip groups).all fun (s, g) => s.allExcept || allNonempty g
      match eff with
      | some eff =>
        if !legal || !eff.nonempty then s!"{model} skip none" else
        let ok := Spec.tokenOk tok ⟨eff.lo, eff.hi, cs.any fun s => s.marker || s.outerMarker⟩
        -- the same finding class as for plain serial constraints: the marker of one constraint is forgotten
        let cls := if path == "assign" && cs.length ≥ 2 && cs.any (fun s => s.marker || s.outerMarker) && cs.any (fun s => !(s.marker || s.outerMarker))
          then "C06_serial_ext_ignored" else "none"
        s!"{model} {if ok then "t" else "f"} {cls}"
      | none => s!"{model} skip none"
    | none => "bad-request"
  | _ => "bad-request"

end Driver.C06

import RasnModel.Basic.Sexp
import RasnModel.Lexer.Values
import RasnModel.Spec.Values
import RasnModel.Link.Values
import RasnModel.Gen.Values
import RasnModel.Gen.Names
import RasnModel.Ts.Strings
import RasnModel.Lexer.Lines
/- line-protocol handler for C07 -/
namespace Driver.C07
open Sexp Lexer.Values

/-- abstract values (X.680 §3.8.x), canonical text form: the comparison is on this text -/
inductive AbsVal where
  | int (n : Int) | bool (b : Bool) | null | str (s : String) | bits (b : List Bool) | octets (o : List Nat)
  | oid (arcs : List Nat) | enum (name : String) | choice (alt : String) (v : AbsVal)
  | record (fs : List AbsVal) | list (xs : List AbsVal) | unknown (t : String)
  deriving Inhabited

partial def AbsVal.show : AbsVal → String
  | .int n => s!"int:{n}" | .bool b => s!"bool:{b}" | .null => "null"
  | .str s => "str:" ++ hexOfBytes s.toUTF8.toList
  | .bits b => "bits:" ++ String.ofList (b.map fun x => if x then '1' else '0')
  | .octets o => "octets:" ++ ",".intercalate (o.map toString)
  | .oid a => "oid:" ++ ".".intercalate (a.map toString)
  | .enum n => "enum:" ++ n
  | .choice a v => "choice:" ++ a ++ "(" ++ v.show ++ ")"
  | .record fs => "record(" ++ ";".intercalate (fs.map AbsVal.show) ++ ")"
  | .list xs => "list(" ++ ";".intercalate (xs.map AbsVal.show) ++ ")"
  | .unknown t => "unknown:" ++ t

partial def parseAbs : Sexp → Option AbsVal
  | .list [.atom "int", n] => (asInt n).map .int
  | .list [.atom "bool", b] => (asBool b).map .bool
  | .atom "null" => some .null
  | .list [.atom "str", s] => (asText s).map .str
  | .list [.atom "bits", .atom b] => some (.bits ((b.toList.filter (fun c => c == '0' || c == '1')).map (· == '1')))
  | .list [.atom "octets", .list o] => (o.mapM asNat).map .octets
  | .list [.atom "oid", .list o] => (o.mapM asNat).map .oid
  | .list [.atom "enum", n] => (asText n).map .enum
  | .list [.atom "choice", a, v] => do pure (.choice (← asText a) (← parseAbs v))
  | .list [.atom "record", .list fs] => (fs.mapM parseAbs).map .record
  | .list [.atom "list", .list xs] => (xs.mapM parseAbs).map .list
  | .list [.atom "unknown", t] => (asText t).map .unknown
  | _ => none

def groupOctets : Nat → List Bool → List Nat
  | 0, _ => []
  | f + 1, bits => if bits.length < 8 then [] else Spec.Values.bitsToNat (bits.take 8) :: groupOctets f (bits.drop 8)

/-- the reference reading of a source value (Spec) and, for the leaf notations, the model's reading.
    Returns (spec, model?) -/
partial def read : Sexp → Option (AbsVal × Option AbsVal)
  | .list [.atom "int", n] => (asInt n).map fun v => (.int v, none)
  | .list [.atom "named", _, n] => (asInt n).map fun v => (.int v, none)
  | .list [.atom "bool", b] => (asBool b).map fun v => (.bool v, none)
  | .atom "null" => some (.null, none)
  | .list [.atom "cstring", s] => (asText s).map fun v =>
      -- the harness writes `escape v` between quotes; the model unescapes what the lexer scanned
      (.str v, some (.str (String.ofList (unescape (Spec.Values.escape v.toList)))))
  | .list [.atom "cstringml", s, raw] => do
      -- `raw`: the text between the outer quotes as written (over several lines); the model unescapes and joins the lines
      let v ← asText s
      let r ← asText raw
      pure (.str v, some (.str (String.ofList (Lexer.Lines.joinLines (unescape r.toList)))))
  | .list [.atom "bstr", d, .atom target] => (asText d).map fun d =>
      let spec := Spec.Values.bstringBits d.toList
      let model := bitStringValue 'B' d.toList
      if target == "octet" then (.octets (Spec.Values.octetsOfBits 64 spec), (bitsToOctets 64 model).map .octets) else (.bits spec, some (.bits model))
  | .list [.atom "hstr", d, .atom target] => (asText d).map fun d =>
      let spec := Spec.Values.hstringBits d.toList
      let model := bitStringValue 'H' d.toList
      if target == "octet" then (.octets (Spec.Values.octetsOfBits 64 spec), (bitsToOctets 64 model).map .octets) else (.bits spec, some (.bits model))
  | .list [.atom "namedbits", .list names, .list decl] => do
      let names ← names.mapM asText
      let decl ← decl.mapM fun d => match d with
        | .list [n, p] => do pure ((← asText n), (← asInt p))
        | _ => none
      let highest := decl.foldl (fun acc d => max acc d.2) 0
      let spec := Spec.Values.namedBits highest.toNat names (fun n => (decl.find? (fun d => d.1 == n)).map (·.2))
      pure (.bits (Spec.Values.stripTrailingZeros spec), some (.bits (Spec.Values.stripTrailingZeros (namedBitsToBits highest names decl))))
  | .list [.atom "enumeral", n] => (asText n).map fun v => (.enum v, none)
  | .list [.atom "oid", .list arcs] => do
      -- spec: X.660 names by position; model: format_oid's resolution
      let parsed ← arcs.mapM fun a => match a with
        | .list [.atom "num", n] => do pure (Arc.mk none (some (← asNat n)), ([] : List Nat))
        | .list [.atom "name", s] => do pure (Arc.mk (some (← asText s)) none, [])
        | .list [.atom "namenum", s, n] => do pure (Arc.mk (some (← asText s)) (some (← asNat n)), [])
        | .list [.atom "ref", s, .list r] => do pure (Arc.mk (some (← asText s)) none, (← r.mapM asNat))
        | _ => none
      let first := parsed.head?.map (·.1)
      let rootNum : Option Nat := first.bind fun a => a.number.orElse fun _ => a.name.bind Spec.Values.rootArc
      let spec : List Nat := (parsed.zipIdx.flatMap fun (ar, i) =>
        let a := ar.1
        match a.number with
        | some n => [n]
        | none =>
          if !ar.2.isEmpty then ar.2
          else if i == 0 then (a.name.bind Spec.Values.rootArc).toList
          else if i == 1 then (match rootNum, a.name with | some r, some n => (Spec.Values.secondArc r n).toList | _, _ => []) else [])
      let model : List Nat := (resolveArcs (parsed.map (·.1))).zip (parsed.map (·.2)) |>.flatMap fun (r, refArcs) =>
        match r with | .num n => [n] | .ref _ => refArcs
      pure (.oid spec, some (.oid model))
  | .list [.atom "choice", a, v] => do
      let (s, _) ← read v
      pure (.choice (← asText a) s, none)
  | .list [.atom "record", .list fs] => do
      let vs ← fs.mapM read
      pure (.record (vs.map (·.1)), none)
  | .list [.atom "list", .list xs] => do
      let vs ← xs.mapM read
      pure (.list (vs.map (·.1)), none)
  | .list [.atom "ref", v] => read v
  | _ => none

def sanitize (s : String) : String := s.map fun c => if c == ' ' || c == '\n' then '_' else c

/-- `c07 <source value> <observed abstract value>` ↦ `model=<agree|differ:..|na> spec=<ok|bad:..>` -/
def handle : List Sexp → String
  | [src, obs] =>
    match read src, parseAbs obs with
    | some (spec, model), some obs =>
      let obsS := match src with
        | .list (.atom "namedbits" :: _) => (match obs with | .bits b => (AbsVal.bits (Spec.Values.stripTrailingZeros b)).show | o => o.show)
        | _ => obs.show
      let m := match model with
        | none => "na"
        | some mv => if mv.show == obsS then "agree" else "differ:" ++ sanitize mv.show
      let s := if spec.show == obsS then "ok" else "bad:expected_" ++ sanitize spec.show ++ "_got_" ++ sanitize obsS
      s!"model={m} spec={s}"
    | _, _ => "bad-request"
  | _ => "bad-request"

/-! ### composite values: the model of `link_with_type` (`Link/Values`) -/
open Link.Values in
def parseAtom : Sexp → Option Atom
  | .list [.atom "int", n] => (asInt n).map .int
  | .list [.atom "bool", b] => (asBool b).map .bool
  | .atom "null" => some .null
  | .list [.atom "octets", .list o] => (o.mapM asNat).map .octets
  | .list [.atom "str", s] => (asText s).map fun t => .str (t.toUTF8.toList.map UInt8.toNat)
  | .list [.atom "enum", n] => (asText n).map .enum
  | _ => none

open Link.Values in
partial def parseSVal : Sexp → Option SVal
  | .list [.atom "atom", a] => (parseAtom a).map .atom
  | .list [.atom "braces", .list fs] => do
      let fs ← fs.mapM fun f => match f with
        | .list [.atom "none", v] => do pure (SField.mk none (← parseSVal v))
        | .list [n, v] => do pure (SField.mk (some (← asText n)) (← parseSVal v))
        | _ => none
      pure (.braces fs)
  | .list [.atom "choice", a, v] => do pure (.choice (← asText a) (← parseSVal v))
  | _ => none

open Link.Values in
/-- a DEFAULT is written as notation in the request and linked with its member's type here, as the
    linker does when it links the type -/
partial def parseVTy : Sexp → Option VTy
  | .atom "leaf" => some .leaf
  | .list [.atom "seq", .list ms] => do
      let ms ← ms.mapM fun m => match m with
        | .list [n, t, d] => do
            let ty ← parseVTy t
            let dflt ← match d with
              | .atom "none" => pure none
              | .list [.atom "some", v] => do
                  let sv ← parseSVal v
                  let l ← link ty sv
                  pure (some l)
              | _ => none
            pure (VMember.mk (← asText n) ty dflt)
        | _ => none
      pure (.seq ms)
  | .list [.atom "seqof", e] => (parseVTy e).map .seqOf
  | .list [.atom "choice", .list alts] => do
      let alts ← alts.mapM fun a => match a with
        | .list [n, t] => do pure (VAlt.mk (← asText n) (← parseVTy t))
        | _ => none
      pure (.choice alts)
  | .list [.atom "named", n, t] => do pure (.named (← asText n) (← parseVTy t))
  | _ => none

open Link.Values in
def showAtom : Atom → String
  | .int n => s!"int:{n}" | .bool b => s!"bool:{b}" | .null => "null"
  | .octets o => "octets:" ++ ",".intercalate (o.map toString)
  | .str u => "str:" ++ hexOfBytes (u.map UInt8.ofNat)
  | .enum n => "enum:" ++ n

open Link.Values in
/-- positional form (what `T::new(..)` shows): the names of a record are dropped -/
partial def showAbs : Link.Values.AbsVal → String
  | .atom a => showAtom a
  | .record fs => "record(" ++ ";".intercalate (fs.map fun f => match f with | .mk _ v => showAbs v) ++ ")"
  | .list xs => "list(" ++ ";".intercalate (xs.map showAbs) ++ ")"
  | .choice a v => "choice:" ++ a ++ "(" ++ showAbs v ++ ")"

/-- `c07link <type> <value notation> <observed abstract value>` ↦ `model=<agree|differ:..|nolink>` -/
def handleLink : List Sexp → String
  | [ty, v, obs] =>
    match parseVTy ty, parseSVal v, parseAbs obs with
    | some ty, some v, some obs =>
      match Link.Values.link ty v with
      | some l =>
        let m := showAbs (Link.Values.absL l)
        if m == obs.show then "model=agree" else "model=differ:" ++ sanitize m
      | none => "model=nolink"
    | _, _, _ => "bad-request"
  | _ => "bad-request"

/-! ### the rendering of composite values: the model of `value_to_tokens` (`Gen/Values`) -/
open Gen.Values in
partial def showR : RExpr → String
  | .lit a => "lit:" ++ showAtom a
  | .wrap t e => "wrap:" ++ t ++ "(" ++ showR e ++ ")"
  | .new t args => "new:" ++ t ++ "(" ++ ";".intercalate (args.map showR) ++ ")"
  | .variant t a e => "variant:" ++ t ++ "::" ++ a ++ "(" ++ showR e ++ ")"
  | .vec xs => "vec(" ++ ";".intercalate (xs.map showR) ++ ")"

/-- the expression tree the harness read off the generated initialiser (`syn`), in the same text form -/
partial def showObserved : Sexp → Option String
  | .list [.atom "lit", a] => (parseAbs a).map fun v => "lit:" ++ v.show
  | .list [.atom "wrap", t, e] => do pure ("wrap:" ++ (← asText t) ++ "(" ++ (← showObserved e) ++ ")")
  | .list [.atom "new", t, .list args] => do
      pure ("new:" ++ (← asText t) ++ "(" ++ ";".intercalate (← args.mapM showObserved) ++ ")")
  | .list [.atom "variant", t, a, e] => do
      pure ("variant:" ++ (← asText t) ++ "::" ++ (← asText a) ++ "(" ++ (← showObserved e) ++ ")")
  | .list [.atom "vec", .list xs] => do pure ("vec(" ++ ";".intercalate (← xs.mapM showObserved) ++ ")")
  | _ => none

def titleS (s : String) : String := String.ofList (Gen.Names.toTitle s.toList)
def enumIdS (s : String) : String := String.ofList (Gen.Names.toEnumIdent s.toList)

open Gen.Values in
/-- site glue: a value assignment is linked with the body of its governing type and rendered by `generate_value`'s
    arms; a DEFAULT is linked with the member's type and rendered by `value_to_tokens` under the member type's name
    (`format_default_methods` fails when the member's type has none) -/
def renderSite (site : String) (ty : Link.Values.VTy) (v : Link.Values.SVal) : Option (Option RExpr) :=
  if site == "default" then
    (Link.Values.link ty v).map fun l =>
      match defaultName titleS ty with
      | some tn => render titleS enumIdS ty (some tn) l
      | none => none
  else
    match ty with
    | .named n body => (Link.Values.link body v).map (renderAssignment titleS enumIdS (some n) body)
    | other => (Link.Values.link other v).map (renderAssignment titleS enumIdS none other)

open Gen.Values in
/-- `c07render <assign|default> <type> <value notation> <observed expression tree>` ↦
    `model=<agree|differ:..|norender|nolink>` — `norender`: the model refuses (no type name for a struct value,
    an anonymous inline CHOICE) although the generator printed something -/
def handleRender : List Sexp → String
  | [.atom site, ty, v, .atom "refused"] =>
    -- the generator answered with a warning instead of an initialiser: the model must refuse too
    match parseVTy ty, parseSVal v with
    | some ty, some v =>
      match renderSite site ty v with
      | some (some r) => "model=differ:renders_" ++ sanitize (showR r)
      | _ => "model=agree-refused"
    | _, _ => "bad-request"
  | [.atom site, ty, v, obs] =>
    match parseVTy ty, parseSVal v, showObserved obs with
    | some ty, some v, some obs =>
      match renderSite site ty v with
      | some (some r) => let m := showR r; if m == obs then "model=agree" else "model=differ:" ++ sanitize m
      | some none => "model=norender"
      | none => "model=nolink"
    | _, _, _ => "bad-request"
  | _ => "bad-request"

/-- `tsstr <source string> <text behind "export const n = ">` ↦ `model=<agree|differ:..> spec=<ok|bad:..>`:
    the model of `string_literal` is a prefix of the printed text, and the printed text reads as the source string -/
def handleTsStr : List Sexp → String
  | [src, obs] =>
    match asText src, asText obs with
    | some src, some obs =>
      let lit := Ts.Strings.stringLiteral src.toList
      let m := if lit.isPrefixOf obs.toList then "agree" else "differ:" ++ sanitize (String.ofList lit)
      let sp := match Ts.Strings.readLiteral obs.toList with
        | some (s, _) => if s == src.toList then "ok" else "bad:reads_as_" ++ hexOfBytes (String.ofList s).toUTF8.toList
        | none => "bad:not_a_string_literal"
      s!"model={m} spec={sp}"
    | _, _ => "bad-request"
  | _ => "bad-request"

end Driver.C07

import RasnModel.Basic.Sexp
import RasnModel.Lexer.Input
/- line-protocol handlers for C17 -/
namespace Driver.C17
open Sexp Lexer.Input

def bytesOf (s : Sexp) : Option Bytes := (asText s).map fun t => t.toUTF8.toList

def parseOp : Sexp → Option Op
  | .list [a, b] => do pure (.slice (← asNat a) (← asOpt asNat b))
  | .atom "reset" => some .reset
  | _ => none

/-- `c17slice <src> ( ops )` ↦ `( line col off len ) …` after every step (the model's trace) -/
def handleSlice : List Sexp → String
  | [src, .list ops] =>
    match bytesOf src, ops.mapM parseOp with
    | some src, some ops =>
      let (_, out) := ops.foldl (fun (acc : St × List String) op =>
        let s := step src acc.1 op
        (s, acc.2 ++ [s!"{s.line}:{s.col}:{s.off}:{s.len}"])) (init src, [s!"1:1:0:{src.length}"])
      " ".intercalate out
    | _, _ => "bad-request"
  | _ => "bad-request"

/-- spec twin on the implementation's report:
    `c17report <src> <offset> <line> <lower> <upper|none> <displayLine|none> <markedLine|none> <isFile> <displayPath> <ctxPath>` -/
def handleReport : List Sexp → String
  | [src, off, line, lower, upper, dl, ml, isFile, dPath, cPath] =>
    match bytesOf src, asNat off, asNat line, asNat lower, asOpt asNat upper, asOpt asNat dl, asOpt asNat ml, asBool isFile, asBool dPath, asBool cPath with
    | some src, some off, some line, some lower, some upper, some dl, some ml, some isFile, some dPath, some cPath =>
      let errs : List String :=
        (if off ≤ src.length then [] else ["offset-outside-input"]) ++
        (if line == 1 + countNL (src.take off) then [] else [s!"line-{line}-but-{1 + countNL (src.take off)}-line-breaks-precede-the-offset"]) ++
        (if lower ≤ off then [] else [s!"offset-{off}-before-the-first-token-of-the-malformed-definition-{lower}"]) ++
        (match upper with | some u => if off ≤ u then [] else [s!"offset-{off}-after-the-first-impossible-character-{u}"] | none => []) ++
        (match dl with | some d => if d == line then [] else [s!"display-line-{d}-report-line-{line}"] | none => ["display-has-no-line"]) ++
        (match ml with | some m => if m == line then [] else [s!"contextualize-marks-line-{m}-report-line-{line}"] | none => ["contextualize-marks-no-line"]) ++
        (if dPath == isFile then [] else ["display-path-presence"]) ++
        (if cPath == isFile then [] else ["contextualize-path-presence"])
      if errs.isEmpty then "ok" else "bad:" ++ "/".intercalate errs
    | _, _, _, _, _, _, _, _, _, _ => "bad-request"
  | _ => "bad-request"

end Driver.C17

import RasnModel.Basic.Sexp
import RasnModel.Lexer.Input
import RasnModel.Lexer.Context
/- line-protocol handlers for C17 -/
namespace Driver.C17
open Sexp Lexer.Input Lexer.Context

def bytesOf (s : Sexp) : Option Bytes := (asText s).map fun t => t.toUTF8.toList

def parseOp : Sexp → Option Op
  | .list [a, b] => do pure (.slice (← asNat a) (← asOpt asNat b))
  | .atom "reset" => some .reset
  | _ => none

/-- `c17slice <src> ( ops )` ↦ `( line col off len ) …` after every step (the model's trace) -/
def handleSlice : List Sexp → String
  | [src, .list ops] =>
    match bytesOf src, ops.mapM parseOp with
    | some src, some ops =>
      let (_, out) := ops.foldl (fun (acc : St × List String) op =>
        let s := step src acc.1 op
        (s, acc.2 ++ [s!"{s.line}:{s.col}:{s.off}:{s.len}"])) (init src, [s!"1:1:0:{src.length}"])
      " ".intercalate out
    | _, _ => "bad-request"
  | _ => "bad-request"

/-- spec twin on the implementation's report:
    `c17report <src> <offset> <line> <lower> <upper|none> <displayLine|none> <markedLine|none> <isFile> <displayPath> <ctxPath>` -/
def handleReport : List Sexp → String
  | [src, off, line, lower, upper, dl, ml, isFile, dPath, cPath] =>
    match bytesOf src, asNat off, asNat line, asNat lower, asOpt asNat upper, asOpt asNat dl, asOpt asNat ml, asBool isFile, asBool dPath, asBool cPath with
    | some src, some off, some line, some lower, some upper, some dl, some ml, some isFile, some dPath, some cPath =>
      let errs : List String :=
        (if off ≤ src.length then [] else ["offset-outside-input"]) ++
        (if line == 1 + countNL (src.take off) then [] else [s!"line-{line}-but-{1 + countNL (src.take off)}-line-breaks-precede-the-offset"]) ++
        (if lower ≤ off then [] else [s!"offset-{off}-before-the-first-token-of-the-malformed-definition-{lower}"]) ++
        (match upper with | some u => if off ≤ u then [] else [s!"offset-{off}-after-the-first-impossible-character-{u}"] | none => []) ++
        (match dl with | some d => if d == line then [] else [s!"display-line-{d}-report-line-{line}"] | none => ["display-has-no-line"]) ++
        (match ml with | some m => if m == line then [] else [s!"contextualize-marks-line-{m}-report-line-{line}"] | none => ["contextualize-marks-no-line"]) ++
        (if dPath == isFile then [] else ["display-path-presence"]) ++
        (if cPath == isFile then [] else ["contextualize-path-presence"])
      if errs.isEmpty then "ok" else "bad:" ++ "/".intercalate errs
    | _, _, _, _, _, _, _, _, _, _ => "bad-request"
  | _ => "bad-request"

def parseEntry : Sexp → Option Entry
  | .list [l, t, m] => do pure ⟨← asNat l, ← bytesOf t, ← asBool m⟩
  | _ => none

def showEntry (e : Entry) : String := s!"({e.label} x{hexOfBytes e.text} {if e.marked then "t" else "f"})"

def isPrefixB : Bytes → Bytes → Bool
  | [], _ => true
  | _ :: _, [] => false
  | a :: as, b :: bs => a == b && isPrefixB as bs

def isInfixB (a : Bytes) : Bytes → Bool
  | [] => a.isEmpty
  | b :: bs => isPrefixB a (b :: bs) || isInfixB a bs

def increasing : List Nat → Bool
  | a :: b :: rest => a < b && increasing (b :: rest)
  | _ => true

/-- SPEC verdict on an excerpt (list of entries) for a report:
    every entry shows (part of) the source line whose number it carries, labels increase, and the
    marked entries are exactly one entry, labelled with the reported line -/
def judgeExcerpt (src : Bytes) (ctxOff ctxLine off line : Nat) (es : List Entry) : List String :=
  let covered := ((src.drop ctxOff).take (off - ctxOff + 1))
  let k := countNL ((src.drop ctxOff).take (off - ctxOff))
  let reportLineShown := !(blank ((splitLines covered).getD k []))
  (if increasing (es.map (·.label)) then [] else ["labels-not-increasing"]) ++
  (es.filterMap fun e =>
    let want := sourceLine src e.label
    if e.text.isEmpty then some s!"entry-{e.label}-is-empty"
    else if e.label == ctxLine then (if isInfixB e.text want then none else some s!"entry-{e.label}-is-not-part-of-source-line-{e.label}")
    else if isPrefixB e.text want then none else some s!"entry-{e.label}-does-not-show-source-line-{e.label}") ++
  (if !reportLineShown then []
   else match es.filter (·.marked) with
     | [e] => if e.label == line then [] else [s!"marked-entry-labelled-{e.label}-report-line-{line}"]
     | [] => ["no-entry-marked"]
     | _ => ["several-entries-marked"])

/-- `c17ctx <src> <ctxOff> <ctxLine> <off> <line> ( (label text marked) … )`
    ↦ `<model excerpt> | <verdict on the implementation's excerpt> | <class>` -/
def handleCtx : List Sexp → String
  | [src, ctxOff, ctxLine, off, line, .list es] =>
    match bytesOf src, asNat ctxOff, asNat ctxLine, asNat off, asNat line, es.mapM parseEntry with
    | some src, some ctxOff, some ctxLine, some off, some line, some es =>
      let m := contextualize src ctxOff ctxLine off line
      let errs := judgeExcerpt src ctxOff ctxLine off line es
      let dom := ctxOff ≤ off && off ≤ src.length && ctxLine == 1 + countNL (src.take ctxOff) && line == 1 + countNL (src.take off)
      let covered := ((src.drop ctxOff).take (off - ctxOff + 1))
      let k := countNL ((src.drop ctxOff).take (off - ctxOff))
      let cls := if !dom then "outside-dom" else if blank ((splitLines covered).getD k []) then "report-line-blank" else "judged"
      " ".intercalate (m.map showEntry) ++ " | " ++ (if errs.isEmpty then "ok" else "bad:" ++ "/".intercalate errs) ++ " | " ++ cls
    | _, _, _, _, _, _ => "bad-request"
  | _ => "bad-request"

end Driver.C17

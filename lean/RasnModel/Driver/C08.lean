import RasnModel.Basic.Sexp
import RasnModel.Link.Chase
/- line-protocol handler for C08 (reference chasing) -/
namespace Driver.C08
open Sexp Link.Chase

def parseDef : Sexp → Option (String × Def)
  | .list [n, .atom "base"] => do pure (← asText n, .base)
  | .list [n, t] => do pure (← asText n, .alias (← asText t))
  | _ => none

/-- `c08chase ( (name base|target) … ) <start>` ↦ resolved | cyclic | missing | out-of-fuel -/
def handle : List Sexp → String
  | [.list ds, start] =>
    match ds.mapM parseDef, asText start with
    | some env, some n =>
      match chase (env.length + 1) env [] n with
      | .resolved => "resolved"
      | .cyclic => "cyclic"
      | .missing => "missing"
      | .outOfFuel => "out-of-fuel"
    | _, _ => "bad-request"
  | _ => "bad-request"

end Driver.C08

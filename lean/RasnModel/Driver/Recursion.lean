import RasnModel.Basic.Sexp
import RasnModel.Link.Recursion
/- line-protocol handler for the recursion analysis (C02: which members are boxed) -/
namespace Driver.Recursion
open Sexp Link.Recursion

def parseDef : Sexp → Option (String × Def)
  | .list [n, mk, .list ms] => do
    let ms ← ms.mapM fun
      | .list rs => do pure ({ marked := false, refs := ← rs.mapM asText } : Member)
      | _ => none
    pure (← asText n, { markable := ← asBool mk, members := ms })
  | _ => none

def bits (d : Def) : String :=
  if d.members.isEmpty then "-" else String.ofList (d.members.map fun m => if m.marked then '1' else '0')

/-- `recmark ( (name markable ( (ref …) … )) … )` (definitions in processing order, no marks yet)
    ↦ `name:bits …`: per definition one character per member, `1` = marked recursive -/
def handle : List Sexp → String
  | [.list ds] =>
    match ds.mapM parseDef with
    | some env =>
      let out := (markAll env).map fun p => s!"{p.1}:{bits p.2}"
      if out.isEmpty then "-" else " ".intercalate out
    | none => "bad-request"
  | _ => "bad-request"

end Driver.Recursion

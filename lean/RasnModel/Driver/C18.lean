import RasnModel.Basic.Sexp
import RasnModel.Ts.Shape
import RasnModel.Ts.Values
/- line-protocol handler for C18 -/
namespace Driver.C18
open Sexp IR Ts

mutual
partial def parseTy : Sexp → Option Ty
  | .list [.atom "n", x] => (asText x).map Ty.name
  | .list [.atom "l", x] => (asText x).map Ty.lit
  | .list [.atom "o", .list ms, idx] => do pure (.obj (← ms.mapM parseMember) (← asBool idx))
  | .list [.atom "a", t] => (parseTy t).map Ty.arr
  | .list [.atom "u", .list ts] => do pure (.union (← ts.mapM parseTy))
  | _ => none
partial def parseMember : Sexp → Option Member
  | .list [.atom "m", n, o, t] => do pure (.mk (← asText n) (← asBool o) (← parseTy t))
  | _ => none
end

def parseDecl : Sexp → Option Decl
  | .list [.atom "alias", n, t] => do pure (.alias (← asText n) (← parseTy t))
  | .list [.atom "enum", n, .list ms] => do
    pure (.enum (← asText n) (← ms.mapM fun
      | .list [i, v] => do pure ((← asText i), (← asText v))
      | _ => none))
  | _ => none

mutual
partial def showTy : Ty → String
  | .name n => n
  | .lit l => "\"" ++ l ++ "\""
  | .obj ms idx => "{" ++ ",".intercalate (ms.map showMember) ++ (if idx then ",[key:string]:any" else "") ++ "}"
  | .arr t => "(" ++ showTy t ++ ")[]"
  | .union ts => "|".intercalate (ts.map showTy)
partial def showMember : Member → String
  | .mk n o t => n ++ (if o then "?" else "") ++ ":" ++ showTy t
end

def showDecl : Decl → String
  | .alias n t => s!"type-{n}={showTy t}"
  | .enum n ms => s!"enum-{n}=" ++ ",".intercalate (ms.map fun m => m.1 ++ "=\"" ++ m.2 ++ "\"")

def sanitize (s : String) : String := String.ofList (s.toList.map fun c => if c == ' ' || c == '\n' || c == '\r' then '_' else c)

/-- `c18 <name> <source type> <observed declaration>` ↦ `<model verdict>|<spec verdict>` -/
def handle : List Sexp → String
  | [n, t, d] =>
    match asText n, parseType t, parseDecl d with
    | some n, some t, some d =>
      let o := showDecl d
      let m := showDecl (modelDecl n t)
      let s := showDecl (specDecl n t)
      sanitize ((if o == m then "ok" else s!"differs:model:{m}:implementation:{o}") ++ "|" ++
        (if o == s then "ok" else s!"bad:jer-shape:{s}:generated:{o}"))
    | _, _, _ => "bad-request"
  | _ => "bad-request"

/-- a nested list value of integers: `( l <elem>* )`, an integer is an atom -/
partial def renderListValue : Sexp → Option (List Char)
  | .atom a => some a.toList
  | .list (.atom "l" :: xs) => (xs.mapM renderListValue).map Ts.Values.renderList
  | _ => none

/-- `tslist <value>` ↦ the text the model of the `LinkedArrayLikeValue` arm renders -/
def handleList : List Sexp → String
  | [v] => match renderListValue v with
    | some t => (ofChars t).toStr
    | none => "bad-request"
  | _ => "bad-request"

end Driver.C18

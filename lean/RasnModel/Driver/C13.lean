import RasnModel.Basic.Sexp
import RasnModel.Lexer.Trivia
/- line-protocol handler for C13 -/
namespace Driver.C13
open Sexp Lexer.Trivia

/-- `c13skip <src>` ↦ number of bytes of white space and comments the model skips at the start of `src` -/
def handle : List Sexp → String
  | [src] =>
    match asText src with
    | some s =>
      let rest := skipAll s.toList
      toString (s.utf8ByteSize - (String.ofList rest).utf8ByteSize)
    | none => "bad-request"
  | _ => "bad-request"

end Driver.C13

import RasnModel.Basic.Sexp
import RasnModel.Link.ComponentsOf
/- line-protocol handler for C09 (COMPONENTS OF) -/
namespace Driver.C09
open Sexp Link

def parseItem : Sexp → Option Item
  | .list [.atom "c", n] => (asText n).map Item.comp
  | .list [.atom "o", r] => (asText r).map Item.of
  | _ => none

def parseSeq : Sexp → Option (String × SrcSeq)
  | .list [n, .list root, .atom "none"] => do pure (← asText n, ⟨← root.mapM parseItem, none⟩)
  | .list [n, .list root, .list ext] => do pure (← asText n, ⟨← root.mapM parseItem, some (← ext.mapM parseItem)⟩)
  | _ => none

/-- `c09 ( (name (root) ext|none) … ) <top name>` ↦ `<model members>|<ext index or ->|<model root members>|<X.680 root members>` -/
def handle : List Sexp → String
  | [.list ds, top] =>
    match ds.mapM parseSeq, asText top with
    | some env, some top =>
      match env.lookup top with
      | some s =>
        let fuel := env.length + 1
        let m := model fuel env [top] s
        ",".intercalate m.members ++ "|" ++ (match m.ext with | some k => toString k | none => "-") ++ "|" ++
          ",".intercalate (rootOf m) ++ "|" ++ ",".intercalate (specRoot fuel env [top] s)
      | none => "bad-request"
    | _, _ => "bad-request"
  | _ => "bad-request"

end Driver.C09

import RasnModel.Basic.Sexp
import RasnModel.Link.ComponentsOf
import RasnModel.Link.Params
/- line-protocol handler for C09 (COMPONENTS OF) -/
namespace Driver.C09
open Sexp Link

def parseItem : Sexp → Option Item
  | .list [.atom "c", n] => (asText n).map Item.comp
  | .list [.atom "o", r] => (asText r).map Item.of
  | _ => none

def parseSeq : Sexp → Option (String × SrcSeq)
  | .list [n, .list root, .atom "none"] => do pure (← asText n, ⟨← root.mapM parseItem, none⟩)
  | .list [n, .list root, .list ext] => do pure (← asText n, ⟨← root.mapM parseItem, some (← ext.mapM parseItem)⟩)
  | _ => none

/-- `c09 ( (name (root) ext|none) … ) <top name>` ↦ `<model members>|<ext index or ->|<model root members>|<X.680 root members>` -/
def handle : List Sexp → String
  | [.list ds, top] =>
    match ds.mapM parseSeq, asText top with
    | some env, some top =>
      match env.lookup top with
      | some s =>
        let fuel := env.length + 1
        let m := model fuel env [top] s
        ",".intercalate m.members ++ "|" ++ (match m.ext with | some k => toString k | none => "-") ++ "|" ++
          ",".intercalate (rootOf m) ++ "|" ++ ",".intercalate (specRoot fuel env [top] s)
      | none => "bad-request"
    | _, _ => "bad-request"
  | _ => "bad-request"

/-! value parameters of parameterized types -/
open Link.Params in
def parseVal : Sexp → Option Link.Params.Val
  | .list [.atom "lit", n] => (asInt n).map Link.Params.Val.lit
  | .list [.atom "ref", x] => (asText x).map Link.Params.Val.ref
  | _ => none

def parseDef : Sexp → Option (String × Link.Params.Val)
  | .list [n, v] => do pure (← asText n, ← parseVal v)
  | _ => none

def showVals (vs : List Link.Params.Val) : String :=
  " ".intercalate (vs.map fun v => match v with | .lit n => toString n | .ref x => "?" ++ x)

/-- `c09params ( (name val)… ) ( formal… ) ( body val… ) ( arg val… )`
    ↦ `<model: bounds of the instance> | <spec: bounds of the hand-expanded definition> | <in-domain t/f>` -/
def handleParams : List Sexp → String
  | [.list ds, .list fs, .list body, .list args] =>
    match ds.mapM parseDef, fs.mapM asText, body.mapM parseVal, args.mapM parseVal with
    | some m, some formals, some body, some args =>
      let t : Link.Params.Template := ⟨formals, body⟩
      let inst := Link.Params.instantiate m t args
      let exp := Link.Params.expanded m t args
      let closed := exp.all (fun v => match v with | .lit _ => true | _ => false) && formals.length == args.length
      showVals inst ++ " | " ++ showVals exp ++ " | " ++ (if closed then "t" else "f")
    | _, _, _, _ => "bad-request"
  | _ => "bad-request"

end Driver.C09

import RasnModel.Basic.SortedMap
/-
  Skeleton of the compilation pipeline (lib.rs `internal_compile`, validator/mod.rs `Validator::new`
  / `validate`, generator/rasn/mod.rs `generate_module`), with the per-definition work abstracted:
    sources → flat list of definitions (each carries its module header)
            → BTreeMap keyed by BARE NAME (`Validator::new`; a later definition of the same name wins,
              the replaced one is reported by a warning — since fix a96216a)
            → validate: partition into valid / validator warnings (map order)
            → BTreeMap<module name, Vec<definition>> (`fold` over the valid ones, map order)
            → per module, in module-name order: the backend copies the header's tagging / extensibility
              default into its own state, then folds `generate_tld` into (pdus, warnings).
  What the model keeps of the output is one event per definition.
-/
namespace Pipe

/-- module header as far as the skeleton cares -/
structure Hdr where
  name : String
  tag : Nat          -- tagging default (abstract)
  ext : Bool         -- EXTENSIBILITY IMPLIED
  deriving DecidableEq, Repr, Inhabited

structure Def (β : Type) where
  name : String      -- bare name: the key of `Validator::tlds`
  hdr : Hdr
  body : β
  deriving Repr

/-- backend state carried from one `generate_module` call to the next -/
structure BState where
  tag : Nat
  ext : Bool
  deriving DecidableEq, Repr, Inhabited

inductive Ev where
  /-- the definition is represented in the bindings of its module, with this text -/
  | emitted (module name text : String)
  /-- the definition is the subject of a generator warning -/
  | genWarn (module name : String)
  /-- the definition is the subject of a validator warning -/
  | valWarn (name : String)
  /-- the definition (of that module) was replaced by a later one of the same bare name: a warning says so -/
  | replWarn (module name : String)
  deriving DecidableEq, Repr

def Ev.subject : Ev → String
  | .emitted _ n _ => n
  | .genWarn _ n => n
  | .valWarn n => n
  | .replWarn _ n => n

variable {β : Type}

/-- `Validator::new`: collect into a BTreeMap by bare name -/
def index (ds : List (Def β)) : List (String × Def β) := SMap.ofList (ds.map fun d => (d.name, d))

/-- `Validator::new` as written: one `insert` per definition, in input order; a definition whose name is
    already bound is replaced and remembered (map, replaced definitions in the order they were replaced) -/
def indexW (ds : List (Def β)) : List (String × Def β) × List (Def β) :=
  ds.foldl (fun acc d => let r := SMap.insR d.name d acc.1; (r.1, acc.2 ++ r.2.toList)) ([], [])

/-- names of the modules that own at least one definition, in `BTreeMap` order -/
def moduleNames (ds : List (Def β)) : List String :=
  SMap.keys (SMap.ofList (ds.map fun d => (d.hdr.name, ())))

/-- `BTreeMap<String, Vec<ToplevelDefinition>>`: per module, its definitions in encounter order -/
def groupByModule (ds : List (Def β)) : List (String × List (Def β)) :=
  (moduleNames ds).map fun n => (n, ds.filter fun d => d.hdr.name == n)

/-- `Backend::generate_module`: the state is overwritten from the first definition's header
    before anything is generated -/
def generateModule (gen : BState → Def β → Option String) (st : BState) (tlds : List (Def β)) : BState × List Ev :=
  match tlds with
  | [] => (st, [])
  | d :: _ =>
    let st' : BState := ⟨d.hdr.tag, d.hdr.ext⟩
    (st', tlds.map fun x => match gen st' x with
      | some t => Ev.emitted x.hdr.name x.name t
      | none => Ev.genWarn x.hdr.name x.name)

def generateAll (gen : BState → Def β → Option String) (st : BState) (mods : List (String × List (Def β))) : BState × List Ev :=
  mods.foldl (fun acc m => let r := generateModule gen acc.1 m.2; (r.1, acc.2 ++ r.2)) (st, [])

/-- `internal_compile` -/
def compile (validate : Def β → Bool) (gen : BState → Def β → Option String) (st : BState) (ds : List (Def β)) : List Ev :=
  let iw := indexW ds
  let m := iw.1.map (·.2)
  let valid := m.filter validate
  let invalid := m.filter (fun d => !validate d)
  (generateAll gen st (groupByModule valid)).2 ++ iw.2.map (fun d => Ev.replWarn d.hdr.name d.name) ++
    invalid.map (fun d => Ev.valWarn d.name)

/-! ### the fold of `generate_module` with the errors as the generator raises them: an error may or may not
    carry the definition it is about (`GeneratorError::top_level_declaration`) -/

/-- what `generate_tld` answers for one definition: the text, or an error that names a definition or none -/
inductive GenOut where
  | ok (text : String)
  | err (subject : Option String)
  deriving DecidableEq, Repr

/-- one warning of the fold *before* fix `5af954a`: the error's own subject, which may be missing -/
def warnSubjectOld (_x : Def β) (e : Option String) : Option String := e
/-- … and since the fix: "if e.top_level_declaration.is_none() { e.top_level_declaration = Some(subject) }" -/
def warnSubject (x : Def β) (e : Option String) : Option String := some (e.getD x.name)

/-- subjects of the events of one module's fold (`None`: a warning that names nobody) -/
def moduleSubjects (ws : Def β → Option String → Option String) (gen : Def β → GenOut) (tlds : List (Def β)) : List (Option String) :=
  tlds.map fun x => match gen x with
    | .ok _ => some x.name
    | .err e => ws x e


end Pipe

import RasnModel.Extracted.Delivery
/-
  C20 — model of output delivery (lib.rs `compile` / `output_generated`, bin.rs `main`,
  rasn-compiler-derive `asn1!`) over an abstract file system.
-/
namespace Deliver

inductive Node where
  /-- nothing there; the parent directory exists and is writable -/
  | absent
  | file (content : String)
  | dir
  /-- writing here fails (missing parent directory, parent is a file, read-only, full device) -/
  | blocked (content : Option String)
  deriving DecidableEq, Repr

structure World where
  node : String → Node
  out : List String      -- what has been written to standard output

inductive Mode where
  | file (path : String)
  | stdout
  | none
  deriving DecidableEq, Repr

def update (f : String → Node) (p : String) (n : Node) : String → Node := fun q => if q = p then n else f q

/-- `SingleFile(path)`: a directory gets the default file name inside it -/
def destination (w : World) (ext : String) (p : String) : String :=
  if w.node p = .dir then p ++ "/" ++ Extracted.Delivery.defaultStem ++ ext else p

/-- `output_generated` -/
def deliver (w : World) (ext : String) (m : Mode) (text : String) : Option World :=
  match m with
  | .none => some w
  | .stdout => some { w with out := w.out ++ [text] }
  | .file p =>
    let d := destination w ext p
    match w.node d with
    | .blocked _ => Option.none
    | .dir => Option.none
    | _ => some { w with node := update w.node d (.file text) }

/-- `compile()`: `internal_compile()?` first, then `output_generated(..)?`; returns (Ok?, world) -/
def compile (w : World) (ext : String) (m : Mode) (result : Option String) : Bool × World :=
  match result with
  | Option.none => (false, w)
  | some text =>
    match deliver w ext m text with
    | Option.none => (false, w)
    | some w' => (true, w')

/-! ### command-line tool: recursive search -/

inductive Tree where
  | file (name : String)
  | dir (name : String) (children : List Tree)
  deriving Repr

def wanted (name : String) : Bool := Extracted.Delivery.cliSuffixes.any fun s => name.endsWith s

mutual
/-- `WalkDir::new(dir)`, keeping the paths whose file name has a wanted suffix -/
def found (pfx : String) : Tree → List String
  | .file n => if wanted n then [pfx ++ n] else []
  | .dir n cs => foundAll (pfx ++ n ++ "/") cs
def foundAll (pfx : String) : List Tree → List String
  | [] => []
  | t :: ts => found pfx t ++ foundAll pfx ts
end

mutual
/-- spec: all file paths of the tree with their names -/
def files (pfx : String) : Tree → List (String × String)
  | .file n => [(pfx ++ n, n)]
  | .dir n cs => filesAll (pfx ++ n ++ "/") cs
def filesAll (pfx : String) : List Tree → List (String × String)
  | [] => []
  | t :: ts => files pfx t ++ filesAll pfx ts
end

/-! ### asn1! -/

def macroSource (contains : String → String → Bool) (v : String) : String :=
  if Extracted.Delivery.macroNeedles.any (contains v) then v
  else Extracted.Delivery.dummyHeader ++ v ++ Extracted.Delivery.dummyFooter

end Deliver

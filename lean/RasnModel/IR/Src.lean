import RasnModel.Basic.Sexp
/-
  Source-level abstract syntax of the type notation the generator G emits (DESIGN.md §3) and the
  observable facts projected from generated bindings. Shared by C02, C03, C05.
-/
namespace IR

inductive TagClass where | universal | application | priv | context
  deriving DecidableEq, Repr, Inhabited
inductive TagKw where | none | implicit | explicit
  deriving DecidableEq, Repr, Inhabited
structure Tag where
  cls : TagClass
  num : Nat
  kw : TagKw
  deriving DecidableEq, Repr, Inhabited

inductive Opt where | required | optional | default
  deriving DecidableEq, Repr, Inhabited

/-- module tagging default as written (`none` = no TAGS clause) -/
inductive TagDefault where | explicit | implicit | automatic | none
  deriving DecidableEq, Repr, Inhabited

mutual
inductive SrcType where
  | prim : String → SrcType                       -- built-in type keyword(s), e.g. "OCTET STRING"
  | ref : String → SrcType                        -- type reference
  | seq : Bool → List SrcComp → Bool → List SrcAdd → SrcType   -- isSet, root, marker, additions
  | choice : List SrcComp → Bool → List SrcAdd → SrcType
  | enumerated : List String → Bool → List String → SrcType
  | seqOf : Bool → SrcType → Option Tag → SrcType               -- isSet, element, element tag
inductive SrcComp where
  | mk : String → Option Tag → SrcType → Opt → SrcComp
inductive SrcAdd where
  | comp : SrcComp → SrcAdd
  | group : Option Nat → List SrcComp → SrcAdd
end

def SrcComp.name : SrcComp → String | .mk n _ _ _ => n
def SrcComp.tag : SrcComp → Option Tag | .mk _ t _ _ => t
def SrcComp.ty : SrcComp → SrcType | .mk _ _ t _ => t
def SrcComp.opt : SrcComp → Opt | .mk _ _ _ o => o

/-- observable tag fact: class, number, explicit wrapper -/
structure TagF where
  cls : TagClass
  num : Nat
  explicit : Bool
  /-- spec side only: the tagged type is a CHOICE / open type, which rasn tags explicitly on its own,
      so the rendered marking is not observable (property C03, observe_at) -/
  relaxed : Bool := false
  deriving DecidableEq, Repr, Inhabited

inductive ExtF where | none | addition | group
  deriving DecidableEq, Repr, Inhabited

/-- one struct field or enum variant of the generated bindings -/
structure FieldF where
  name : String
  ty : String                 -- Rust type text without whitespace ("" for a field-less variant)
  tag : Option TagF
  ext : ExtF
  hasDefault : Bool
  identifier : Option String  -- `#[rasn(identifier = "..")]`
  boxed : Bool := false       -- `Box<_>` around the (inner) type; the type text carries no Box
  deriving DecidableEq, Repr, Inhabited

inductive ItemKind where | struct | choice | enumerated | newtype
  deriving DecidableEq, Repr, Inhabited

structure ItemF where
  name : String
  kind : ItemKind
  isSet : Bool
  nonExhaustive : Bool
  automaticTags : Bool
  tag : Option TagF
  fields : List FieldF
  deriving DecidableEq, Repr, Inhabited

-- wire format -----------------------------------------------------------------------------------
open Sexp

def parseClass : Sexp → Option TagClass
  | .atom "universal" => some .universal | .atom "application" => some .application
  | .atom "private" => some .priv | .atom "context" => some .context | _ => none
def parseKw : Sexp → Option TagKw
  | .atom "none" => some .none | .atom "implicit" => some .implicit | .atom "explicit" => some .explicit | _ => none
def parseTag : Sexp → Option Tag
  | .list [c, n, k] => do pure ⟨← parseClass c, ← asNat n, ← parseKw k⟩
  | _ => none
def parseOpt : Sexp → Option Opt
  | .atom "req" => some .required | .atom "opt" => some .optional | .atom "def" => some .default | _ => none
def parseTagDefault : Sexp → Option TagDefault
  | .atom "explicit" => some .explicit | .atom "implicit" => some .implicit
  | .atom "automatic" => some .automatic | .atom "none" => some .none | _ => none

mutual
partial def parseType : Sexp → Option SrcType
  | .list [.atom "prim", n] => (asText n).map SrcType.prim
  | .list [.atom "ref", n] => (asText n).map SrcType.ref
  | .list [.atom "seq", s, .list root, m, .list adds] => do
      pure (.seq (← asBool s) (← root.mapM parseComp) (← asBool m) (← adds.mapM parseAdd))
  | .list [.atom "choice", .list root, m, .list adds] => do
      pure (.choice (← root.mapM parseComp) (← asBool m) (← adds.mapM parseAdd))
  | .list [.atom "enum", .list root, m, .list adds] => do
      pure (.enumerated (← root.mapM asText) (← asBool m) (← adds.mapM asText))
  | .list [.atom "seqof", s, e, t] => do
      pure (.seqOf (← asBool s) (← parseType e) (← asOpt parseTag t))
  | _ => none
partial def parseComp : Sexp → Option SrcComp
  | .list [.atom "comp", n, t, ty, o] => do
      pure (.mk (← asText n) (← asOpt parseTag t) (← parseType ty) (← parseOpt o))
  | _ => none
partial def parseAdd : Sexp → Option SrcAdd
  | .list [.atom "c", c] => (parseComp c).map SrcAdd.comp
  | .list [.atom "g", v, .list cs] => do pure (.group (← asOpt asNat v) (← cs.mapM parseComp))
  | _ => none
end

def parseTagF : Sexp → Option TagF
  | .list [c, n, e] => do pure ⟨← parseClass c, ← asNat n, ← asBool e, false⟩
  | _ => none
def parseExtF : Sexp → Option ExtF
  | .atom "none" => some .none | .atom "addition" => some .addition | .atom "group" => some .group | _ => none
def parseFieldF : Sexp → Option FieldF
  | .list [.atom "f", n, ty, t, e, d, i, b] => do
      pure ⟨← asText n, ← asText ty, ← asOpt parseTagF t, ← parseExtF e, ← asBool d, ← asOpt asText i, ← asBool b⟩
  | _ => none
def parseKind : Sexp → Option ItemKind
  | .atom "struct" => some .struct | .atom "choice" => some .choice
  | .atom "enumerated" => some .enumerated | .atom "newtype" => some .newtype | _ => none
def parseItemF : Sexp → Option ItemF
  | .list [.atom "item", n, k, s, ne, at', t, .list fs] => do
      pure ⟨← asText n, ← parseKind k, ← asBool s, ← asBool ne, ← asBool at', ← asOpt parseTagF t, ← fs.mapM parseFieldF⟩
  | _ => none

end IR

def hello := "world"

/-
  Model of ENUMERATED numbering in rasn-compiler/src/lexer/enumerated.rs
  (`assign_enumeration_numbers`, after the `fix:` commit for C14).
  An item is `none` (identifier only) or `some n` (NamedNumber).
-/
namespace Lexer.Enum

/-- `while used.contains(&next) { next += 1 }` with fuel. The element found is erased, so the
    loop runs at most `used.length` times; values below the candidate are never looked at again. -/
def skipAux : Nat → List Int → Int → Int
  | 0, _, n => n
  | f + 1, used, n => if n ∈ used then skipAux f (used.erase n) (n + 1) else n

def skipUsed (used : List Int) (n : Int) : Int := skipAux used.length used n

/-- root pass: `next` is the running counter -/
def numberRootAux (E : List Int) : Int → List (Option Int) → List Int
  | _, [] => []
  | next, some n :: rest => n :: numberRootAux E next rest
  | next, none :: rest =>
      let k := skipUsed E next
      k :: numberRootAux E (k + 1) rest

def explicitInRoot (items : List (Option Int)) : List Int := items.filterMap id

def numberRoot (root : List (Option Int)) : List Int :=
  numberRootAux (explicitInRoot root) 0 root

def bump (prev : Option Int) (v : Int) : Option Int :=
  some (match prev with | none => v | some p => max p v)

/-- first candidate for an identifier-only addition: `previous.map_or(0, |p| (p + 1).max(0))` -/
def candOf : Option Int → Int
  | none => 0
  | some p => max (p + 1) 0

/-- additions pass: `prev` = greatest number among the preceding additions -/
def numberAddsAux (R : List Int) : Option Int → List (Option Int) → List Int
  | _, [] => []
  | prev, some n :: rest => n :: numberAddsAux R (bump prev n) rest
  | prev, none :: rest =>
      let k := skipUsed R (candOf prev)
      k :: numberAddsAux R (bump prev k) rest

def numberAdds (rootNums : List Int) (adds : List (Option Int)) : List Int :=
  numberAddsAux rootNums none adds

/-- whole body: (root numbers, addition numbers) -/
def number (root adds : List (Option Int)) : List Int × List Int :=
  let r := numberRoot root
  (r, numberAdds r adds)

end Lexer.Enum

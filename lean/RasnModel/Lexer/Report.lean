import RasnModel.Lexer.Input
/-
  Model of `impl From<ErrorTree<'_>> for ReportData` (rasn-compiler/src/lexer/error.rs): which of the
  inputs carried by a parser error becomes the report.
    Base { input, .. }        → the position of `input`
    Stack { base, .. }        → the report of `base`
    Alt(alts)                 → the report of the first alternative (`alts.pop_front().expect(..)`)
  All fields of the report (line, column, offset, context start line / offset) are taken from ONE input.
-/
namespace Lexer.Report
open Lexer.Input

inductive Tree where
  | base (s : St)
  | stack (b : Tree)
  | alt (first : Tree) (rest : List Tree)      -- `Alt` is never empty (the code `expect`s it)

/-- the input whose position is reported -/
def report : Tree → St
  | .base s => s
  | .stack b => report b
  | .alt first _ => report first

/-- every input carried by the tree has property `P` -/
def All (P : St → Prop) : Tree → Prop
  | .base s => P s
  | .stack b => All P b
  | .alt first rest => All P first ∧ ∀ t ∈ rest, All P t

end Lexer.Report

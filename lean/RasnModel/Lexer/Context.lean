import RasnModel.Lexer.Input
/-
  Model of the excerpt that `LexerError::contextualize` renders (rasn-compiler/src/lexer/error.rs)
  and of `until_next_unindented` (rasn-compiler/src/lexer/util.rs). Text = UTF-8 bytes, indices are
  byte indices, as in Rust. White space is ASCII white space: a source whose lines begin or end with
  multi-byte Unicode white space (U+0085, U+00A0, U+2000.., U+3000) is outside the model.

  `until_next_unindented(input, at_least_until, fallback_len)`:
    * clamp `at_least_until` to the input and move it up to a character boundary;
    * scan the rest for a line feed directly followed by an ASCII letter or digit (a line that is
      not indented); if there is one, return everything before that line feed;
    * otherwise return the first `max(fallback_len, at_least_until)` bytes (moved down to a
      character boundary) without trailing white space.        [since fix: `trim_end`, `max`]
  `contextualize`: the excerpt starts at the context start offset, its i-th line is labelled
  `context_start_line + i`, blank lines are not shown, the line whose label equals the reported line
  is marked.
-/
namespace Lexer.Context
open Lexer.Input

def isWs (b : UInt8) : Bool := b == 32 || (9 ≤ b && b ≤ 13)
def isAlnum (b : UInt8) : Bool := (48 ≤ b && b ≤ 57) || (65 ≤ b && b ≤ 90) || (97 ≤ b && b ≤ 122)
/-- UTF-8 continuation byte: `!is_char_boundary` at an index inside the text -/
def isCont (b : UInt8) : Bool := 128 ≤ b && b < 192

/-- `while !input.is_char_boundary(n) { n += 1 }` -/
def boundaryUp (input : Bytes) (n : Nat) : Nat := n + ((input.drop n).takeWhile isCont).length

/-- `while !input.is_char_boundary(n) { n -= 1 }` -/
def boundaryDown (input : Bytes) : Nat → Nat
  | 0 => 0
  | n + 1 =>
    match input[n + 1]? with
    | some b => if isCont b then boundaryDown input n else n + 1
    | none => n + 1

/-- the loop over `input[at_least_until..].char_indices()`: index of the first ASCII letter or digit
    that directly follows a line feed (`prev` = `prev_was_newline`) -/
def findUnindented : Bytes → Bool → Nat → Option Nat
  | [], _, _ => none
  | b :: rest, prev, i => if prev && isAlnum b then some i else findUnindented rest (b == 10) (i + 1)

def trimEnd (bs : Bytes) : Bytes := (bs.reverse.dropWhile isWs).reverse
def trimStart (bs : Bytes) : Bytes := bs.dropWhile isWs
def blank (bs : Bytes) : Bool := bs.all isWs

def untilNextUnindented (input : Bytes) (atLeast fallback : Nat) : Bytes :=
  let a := boundaryUp input (min atLeast input.length)
  match findUnindented (input.drop a) false 0 with
  | some idx => input.take (idx - 1 + a)
  | none => trimEnd (input.take (boundaryDown input (min input.length (max fallback a))))

/-- the function as it was before the fix: `trim()` at both ends, `fallback_len` alone -/
def untilNextUnindentedOld (input : Bytes) (atLeast fallback : Nat) : Bytes :=
  let a := boundaryUp input (min atLeast input.length)
  match findUnindented (input.drop a) false 0 with
  | some idx => input.take (idx - 1 + a)
  | none => trimEnd (trimStart (input.take (boundaryDown input (min input.length fallback))))

/-- split at line feeds; always at least one line -/
def splitLines : Bytes → List Bytes
  | [] => [[]]
  | b :: bs =>
    if b == 10 then [] :: splitLines bs
    else match splitLines bs with
      | l :: ls => (b :: l) :: ls
      | [] => [[b]]

structure Entry where
  label : Nat
  text : Bytes
  marked : Bool
  deriving Repr, DecidableEq

/-- the fold of `contextualize` over `context.lines().enumerate()`; `str::lines` drops a last empty
    line and a carriage return before a line feed, both of which the blank test and `trim_end` hide -/
def entriesFrom (ctxLine line : Nat) : List Bytes → Nat → List Entry
  | [], _ => []
  | l :: ls, i =>
    if blank l then entriesFrom ctxLine line ls (i + 1)
    else ⟨ctxLine + i, trimEnd l, ctxLine + i == line⟩ :: entriesFrom ctxLine line ls (i + 1)

def excerpt (ctxLine line : Nat) (context : Bytes) : List Entry :=
  entriesFrom ctxLine line (splitLines context) 0

/-- `contextualize` on a report (context start offset / line, offset, line) -/
def contextualize (src : Bytes) (ctxOff ctxLine off line : Nat) : List Entry :=
  excerpt ctxLine line (untilNextUnindented (src.drop ctxOff) (off - ctxOff + 1) 300)

def contextualizeOld (src : Bytes) (ctxOff ctxLine off line : Nat) : List Entry :=
  excerpt ctxLine line (untilNextUnindentedOld (src.drop ctxOff) (off - ctxOff + 1) 300)

/-- SPEC: the source line with number `n` (1-based), without trailing white space -/
def sourceLine (src : Bytes) (n : Nat) : Bytes := trimEnd ((splitLines src).getD (n - 1) [])

end Lexer.Context

/-
  The lexer's name scanners (lexer/common.rs): `type_reference`, `identifier`, `value_reference`:

      recognize(pair(FIRST, many0(alt((preceded(char('-'), alphanumeric1), alphanumeric1)))))

  `FIRST` is one upper-case letter, `alpha1`, one lower-case letter. nom 8's `alpha1` /
  `alphanumeric1` on `char` are ASCII-only. A hyphen is taken only together with at least one
  letter or digit behind it, so `a-` leaves the hyphen, and `a--b` leaves `--b` (a comment).
  Import-free (the driver links as an executable).
-/
namespace Lexer.Names

def isUpper (c : Char) : Bool := 65 ≤ c.toNat && c.toNat ≤ 90
def isLower (c : Char) : Bool := 97 ≤ c.toNat && c.toNat ≤ 122
def isDigit (c : Char) : Bool := 48 ≤ c.toNat && c.toNat ≤ 57
def isAlpha (c : Char) : Bool := isUpper c || isLower c
def isAlnum (c : Char) : Bool := isAlpha c || isDigit c

/-- `many0(alt((preceded(char('-'), alphanumeric1), alphanumeric1)))`: (taken, rest) -/
def scanTail : List Char → List Char × List Char
  | [] => ([], [])
  | c :: cs =>
    if isAlnum c then
      let r := scanTail cs
      (c :: r.1, r.2)
    else if c == '-' then
      match cs with
      | d :: ds =>
        if isAlnum d then
          let r := scanTail ds
          ('-' :: d :: r.1, r.2)
        else ([], c :: cs)
      | [] => ([], [c])
    else ([], c :: cs)

/-- `pair(FIRST, tail)`; for `identifier`, `alpha1` followed by the tail takes the same characters as
    one letter followed by the tail (letters are alphanumeric) -/
def scanName (first : Char → Bool) : List Char → Option (List Char × List Char)
  | [] => none
  | c :: cs => if first c then let r := scanTail cs; some (c :: r.1, r.2) else none

/-- `type_reference`: the scanned name is refused when it is one of `ASN1_KEYWORDS` (the table is passed in:
    it is regenerated from /repo, `Extracted.Names.asn1Keywords`) -/
def typeReference (keywords : List (List Char)) (inp : List Char) : Option (List Char × List Char) :=
  match scanName isUpper inp with
  | some (n, r) => if keywords.contains n then none else some (n, r)
  | none => none

/-- `identifier` (after trivia) and `value_reference` -/
def identifier (inp : List Char) : Option (List Char × List Char) := scanName isAlpha inp
def valueReference (inp : List Char) : Option (List Char × List Char) := scanName isLower inp

/-! ### X.680 §12.2 / §12.3: a name consists of letters, digits and hyphens, begins with a letter (of
    the case its kind asks for), does not end with a hyphen and holds no two hyphens in a row -/

/-- the characters behind the first one, read left to right -/
def wfTail : List Char → Bool
  | [] => true
  | c :: cs =>
    if isAlnum c then wfTail cs
    else if c == '-' then
      match cs with
      | d :: ds => isAlnum d && wfTail ds
      | [] => false
    else false

def wfName (first : Char → Bool) : List Char → Bool
  | [] => false
  | c :: cs => first c && wfTail cs

/-- the prose of §12.3, character by character: `prev` is the character before the list -/
def prose (prev : Char) : List Char → Bool
  | [] => prev != '-'
  | c :: cs => (isAlnum c || (c == '-' && prev != '-')) && prose c cs

/-- what may follow a name without being part of it: nothing, or a character that is neither a letter,
    digit nor a hyphen leading on to one -/
def stops : List Char → Bool
  | [] => true
  | c :: cs => !isAlnum c && !(c == '-' && (match cs with | d :: _ => isAlnum d | [] => false))

end Lexer.Names

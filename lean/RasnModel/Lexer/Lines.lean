/-
  C07 — character strings written over several lines.  Model of lexer/character_string.rs::join_lines (since the
  fix that implements X.680 12.14.1): the text between the quotes is split at every end-of-line character, the first
  piece keeps its start, the last piece its end, every other edge loses its spacing characters, the pieces are
  concatenated.  Import-free.
-/
namespace Lexer.Lines

def isNl (c : Char) : Bool := c == '\n' || c == '\r' || c == '\x0b' || c == '\x0c'
def isSp (c : Char) : Bool := c == ' ' || c == '\t' || c == '\u00a0'

/-- `str::split(is_newline)`: one piece more than there are separators -/
def splitNl : List Char → List (List Char)
  | [] => [[]]
  | c :: cs =>
    if isNl c then [] :: splitNl cs
    else match splitNl cs with
      | p :: ps => (c :: p) :: ps
      | [] => [[c]]

def trimStart (l : List Char) : List Char := l.dropWhile isSp
def trimEnd (l : List Char) : List Char := (l.reverse.dropWhile isSp).reverse

/-- the loop of `join_lines`: the first piece keeps its start, the last piece its end -/
def joinPieces : Bool → List (List Char) → List Char
  | _, [] => []
  | first, [p] => if first then p else trimStart p
  | first, p :: q :: rest => trimEnd (if first then p else trimStart p) ++ joinPieces false (q :: rest)

def joinLines (s : List Char) : List Char := joinPieces true (splitNl s)

end Lexer.Lines

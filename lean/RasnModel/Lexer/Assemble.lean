import RasnModel.IR.Src
/-
  Model of how the lexer assembles component lists (lexer/sequence.rs, choice.rs, enumerated.rs,
  intermediate/types.rs `From<…> for SequenceOrSet / Choice / Enumerated`):
  members = root ++ additions, `extensible = marker.map(|_| root.len())`; a `[[ … ]]` group
  becomes ONE synthetic member `ext_group_<first>` of type SEQUENCE { grouped members }.
-/
namespace Lexer
open IR

/-- `INTERNAL_EXTENSION_GROUP_NAME_PREFIX` -/
def extGroupPrefix : String := "ext_group_"

/-- generic over the member type: SEQUENCE/SET members, CHOICE options, ENUMERATED items -/
def assemble {α : Type} (root : List α) (marker : Bool) (adds : List α) : List α × Option Nat :=
  (root ++ adds, if marker then some root.length else none)

/-- `extension_group`: the synthetic member built from a version group -/
def groupMember (cs : List SrcComp) : SrcComp :=
  .mk (extGroupPrefix ++ (match cs with | c :: _ => c.name | [] => "")) none (.seq false cs false []) .required

def lexAdd : SrcAdd → SrcComp
  | .comp c => c
  | .group _ cs => groupMember cs

def lexAdds (adds : List SrcAdd) : List SrcComp := adds.map lexAdd

/-- members and first-extension index of a SEQUENCE/SET/CHOICE body -/
def assembleBody (root : List SrcComp) (marker : Bool) (adds : List SrcAdd) : List SrcComp × Option Nat :=
  assemble root marker (lexAdds adds)

end Lexer

import RasnModel.Extracted.Values
/-
  Model of the value-notation leaf conversions:
  lexer/bit_string.rs (bstring / hstring → bits, with the REGENERATED `hexToBools`),
  lexer/character_string.rs (`""` unescaping), validator/linking/utils.rs (octets ↔ bits),
  validator/linking/mod.rs `bit_string_value_from_named_bits`,
  generator/rasn/utils.rs `format_oid` (arc resolution with the REGENERATED `wellKnown`).
-/
namespace Lexer.Values
open Extracted.Values

/-- `bit_string_value`: 'B' ↦ one bit per digit, 'H' ↦ four bits per digit -/
def bitStringValue (enc : Char) (digits : List Char) : List Bool :=
  if enc == 'B' then digits.map (· == '1') else digits.flatMap hexToBools

/-- `is_bit_set(rem, limit, bits)`: push `rem >= limit`, recurse with `rem % limit`, `limit / 2` while `limit >= 2`;
    `steps` = number of bits still to produce (8 for limit 128) -/
def isBitSet : Nat → Nat → Nat → List Bool
  | 0, _, _ => []
  | steps + 1, rem, limit => decide (rem ≥ limit) :: isBitSet steps (rem % limit) (limit / 2)

/-- `octet_string_to_bit_string` -/
def octetsToBits (bytes : List Nat) : List Bool := bytes.flatMap fun b => isBitSet 8 b 128

/-- value of one 8-bit chunk: `fold(0, acc + if bit { 2^(7-i) } else 0)` -/
def chunkValue (bits : List Bool) : Nat :=
  (bits.zipIdx.map fun bi => if bi.1 then 2 ^ (7 - bi.2) else 0).sum

/-- `bit_string_to_octet_string`: chunks of 8; since fix `f216731` a short last chunk is no error — the fold gives
    its bits their weight counted from the most significant one, which is the padding with zero bits -/
def bitsToOctets : Nat → List Bool → Option (List Nat)
  | 0, _ => none
  | fuel + 1, bits =>
    if bits.isEmpty then some []
    else (bitsToOctets fuel (bits.drop 8)).map (fun r => chunkValue (bits.take 8) :: r)

/-- the function as it was before the fix: a short last chunk is an error (and the value stayed a bit string) -/
def bitsToOctetsOld : Nat → List Bool → Option (List Nat)
  | 0, _ => none
  | fuel + 1, bits =>
    if bits.isEmpty then some []
    else if bits.length < 8 then none
    else (bitsToOctetsOld fuel (bits.drop 8)).map (fun r => chunkValue (bits.take 8) :: r)

/-- `distinguished.iter().find_map(|d| (d.value == i).then_some(&d.name))` -/
def firstNameAt (dv : List (String × Int)) (i : Int) : Option String :=
  (dv.find? fun d => d.2 == i).map (·.1)

/-- `bit_string_value_from_named_bits(highest, named_bits, distinguished)` -/
def namedBitsToBits (highest : Int) (names : List String) (dv : List (String × Int)) : List Bool :=
  (List.range (highest + 1).toNat).map fun (i : Nat) => names.any fun n => some n == firstNameAt dv (Int.ofNat i)

/-- `raw.replace("\"\"", "\"")` on the text between the outer quotes -/
def unescape : List Char → List Char
  | '"' :: '"' :: rest => '"' :: unescape rest
  | c :: rest => c :: unescape rest
  | [] => []

/-- an OID arc as lexed: optional name, optional number -/
structure Arc where
  name : Option String
  number : Option Nat
  deriving Repr, DecidableEq

/-- `format_oid`: root from the first arc, then well-known names fill in missing numbers;
    what remains without number is a value reference -/
def oidRoot (arcs : List Arc) : Option Nat :=
  match arcs.head? with
  | some a => if a.name == some "itu-t" || a.number == some 0 then some 0
              else if a.name == some "iso" || a.number == some 1 then some 1 else none
  | none => none

inductive ResolvedArc where
  | num (n : Nat)
  | ref (name : String)
  deriving Repr, DecidableEq

def resolveArcs (arcs : List Arc) : List ResolvedArc :=
  let root := oidRoot arcs
  arcs.map fun a =>
    match a.number with
    | some n => .num n
    | none => match wellKnown a.name root with
      | some n => .num n
      | none => .ref (a.name.getD "")

end Lexer.Values

/-
  C13 — model of the lexer's white-space and comment skipping
  (lexer/common.rs `comment`, `line_comment`, `block_comment`, `skip_ws`, `skip_ws_and_comments`;
  lexer/util.rs `take_until_or`, `take_until_unbalanced`) over characters.
-/
namespace Lexer.Trivia

/-- nom `multispace`: space, tab, CR, LF -/
def isWs (c : Char) : Bool := c == ' ' || c == '\t' || c == '\r' || c == '\n'

def dropWs : List Char → List Char
  | c :: cs => if isWs c then dropWs cs else c :: cs
  | [] => []

/-- `take_until_or("\n", "--")` / `rest`, then `opt(tag("--"))`: what follows a line comment's opening `--` -/
def lineEnd : List Char → List Char
  | [] => []
  | '\n' :: cs => '\n' :: cs
  | '-' :: '-' :: cs => cs
  | _ :: cs => lineEnd cs

/-- `take_until_unbalanced("/*", "*/")` followed by `tag("*/")`, started after an opening `/*`:
    `depth` = number of comments currently open; the input after the matching `*/`, or none -/
def blockEnd : Nat → List Char → Option (List Char)
  | _, [] => none
  | d, '/' :: '*' :: cs => blockEnd (d + 1) cs
  | 0, '*' :: '/' :: cs => some cs
  | d + 1, '*' :: '/' :: cs => if d = 0 then some cs else blockEnd d cs
  | d, _ :: cs => blockEnd d cs

/-- `many0(alt((comment, multispace1)))` where `comment = skip_ws(alt((block_comment, line_comment)))` -/
def skip : Nat → List Char → List Char
  | 0, s => dropWs s
  | fuel + 1, s =>
    match dropWs s with
    | '/' :: '*' :: r =>
      match blockEnd 1 r with
      | some r' => skip fuel r'
      | none => '/' :: '*' :: r           -- the comment does not close: nothing more is skipped
    | '-' :: '-' :: r => skip fuel (lineEnd r)
    | r => r

/-- enough fuel for any input: every round consumes at least two characters -/
def skipAll (s : List Char) : List Char := skip s.length s

end Lexer.Trivia

/-
  Model of the position bookkeeping of `Input` (rasn-compiler/src/input.rs): `Input::slice`,
  `take`, `take_from`, `take_split`, `reset_context`. Text = UTF-8 bytes; indices are byte indices
  relative to the current remainder, as in Rust.
-/
namespace Lexer.Input

abbrev Bytes := List UInt8

def countNL (bs : Bytes) : Nat := bs.count 10

/-- index of the last line break, if any -/
def lastNL (bs : Bytes) : Option Nat :=
  (bs.zipIdx.filter (fun bi => bi.1 == 10)).getLast?.map (·.2)

structure St where
  off : Nat       -- offset from the start of the initial input
  line : Nat      -- starts at 1
  col : Nat       -- starts at 1
  len : Nat       -- length of the remainder
  ctxLine : Nat
  ctxOff : Nat
  deriving Repr, DecidableEq

def init (src : Bytes) : St := ⟨0, 1, 1, src.length, 1, 0⟩

/-- `self.slice(a..b)` (b = none: `a..`), indices relative to the remainder -/
def slice (src : Bytes) (s : St) (a : Nat) (b : Option Nat) : St :=
  let newLen := (b.getD s.len) - a
  if a = 0 then { s with len := newLen }          -- `consumed_len == 0`: position unchanged
  else
    let consumed := (src.drop s.off).take a
    { s with
      off := s.off + a
      line := s.line + countNL consumed
      col := (match lastNL consumed with
              | some i => a - i + 1        -- "because we're 1-indexing" (sic)
              | none => s.col + a)
      len := newLen }

/-- `reset_context` -/
def resetContext (s : St) : St := { s with ctxLine := s.line, ctxOff := s.off }

/-- an operation on the input: a slice or a context boundary -/
inductive Op where
  | slice (a : Nat) (b : Option Nat)
  | reset
  deriving Repr

def step (src : Bytes) (s : St) : Op → St
  | .slice a b => slice src s a b
  | .reset => resetContext s

/-- the slice is in range for the current remainder -/
def Op.ok (s : St) : Op → Prop
  | .slice a b => a ≤ b.getD s.len ∧ b.getD s.len ≤ s.len
  | .reset => True

end Lexer.Input

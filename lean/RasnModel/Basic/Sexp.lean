/-
  S-expressions for the line protocol between the Rust harness and the Lean driver.
  Wire form: tokens separated by single spaces; `(` and `)` are tokens of their own; every other
  token is an atom.  Text travels hex-encoded as an atom `x<hex of UTF-8 bytes>`; integers in
  decimal.  Import-free so that the driver links as a `lean_exe`.
-/

inductive Sexp where
  | atom : String → Sexp
  | list : List Sexp → Sexp
  deriving Repr, Inhabited, BEq

namespace Sexp

/-- Parse a token list.  `stack` holds the partially built enclosing lists (innermost first,
    each reversed). -/
def parseToks : List String → List (List Sexp) → List Sexp → Option (List Sexp)
  | [], [], acc => some acc.reverse
  | [], _ :: _, _ => none
  | "(" :: ts, stack, acc => parseToks ts (acc :: stack) []
  | ")" :: ts, outer :: stack, acc => parseToks ts stack (Sexp.list acc.reverse :: outer)
  | ")" :: _, [], _ => none
  | t :: ts, stack, acc => parseToks ts stack (Sexp.atom t :: acc)

def parseLine (line : String) : Option (List Sexp) :=
  let toks := (line.splitOn " ").filter (· ≠ "")
  parseToks toks [] []

partial def toStr : Sexp → String
  | atom s => s
  | list xs => "(" ++ " ".intercalate (xs.map toStr) ++ ")"

def hexVal (c : Char) : Option Nat :=
  if '0' ≤ c ∧ c ≤ '9' then some (c.toNat - '0'.toNat)
  else if 'a' ≤ c ∧ c ≤ 'f' then some (c.toNat - 'a'.toNat + 10)
  else if 'A' ≤ c ∧ c ≤ 'F' then some (c.toNat - 'A'.toNat + 10)
  else none

def hexBytes : List Char → Option (List UInt8)
  | [] => some []
  | a :: b :: rest => do
      let x ← hexVal a
      let y ← hexVal b
      let r ← hexBytes rest
      pure (UInt8.ofNat (x * 16 + y) :: r)
  | _ => none

/-- Decode an `x<hex>` atom into text. -/
def asText : Sexp → Option String
  | atom s =>
    match s.toList with
    | 'x' :: hs => do
        let bs ← hexBytes hs
        String.fromUTF8? (ByteArray.mk bs.toArray)
    | _ => none
  | _ => none

def asChars (s : Sexp) : Option (List Char) := (asText s).map String.toList

def asInt : Sexp → Option Int
  | atom s => s.toInt?
  | _ => none

def asNat : Sexp → Option Nat
  | atom s => s.toNat?
  | _ => none

def asBool : Sexp → Option Bool
  | atom "t" => some true
  | atom "f" => some false
  | _ => none

def asAtom : Sexp → Option String
  | atom s => some s
  | _ => none

def asList : Sexp → Option (List Sexp)
  | list xs => some xs
  | _ => none

/-- `none` | `(some v)` -/
def asOpt (f : Sexp → Option α) : Sexp → Option (Option α)
  | atom "none" => some none
  | list [atom "some", v] => (f v).map some
  | _ => none

def mapM' (f : Sexp → Option α) : List Sexp → Option (List α)
  | [] => some []
  | x :: xs => do
      let a ← f x
      let r ← mapM' f xs
      pure (a :: r)

def asListOf (f : Sexp → Option α) (s : Sexp) : Option (List α) := do
  let xs ← asList s
  mapM' f xs

def hexDigit (n : Nat) : Char :=
  if n < 10 then Char.ofNat ('0'.toNat + n) else Char.ofNat ('a'.toNat + n - 10)

def hexOfBytes (bs : List UInt8) : String :=
  String.ofList (bs.flatMap fun b => [hexDigit (b.toNat / 16), hexDigit (b.toNat % 16)])

def ofText (s : String) : Sexp := atom ("x" ++ hexOfBytes s.toUTF8.toList)
def ofChars (s : List Char) : Sexp := ofText (String.ofList s)
def ofInt (i : Int) : Sexp := atom (toString i)
def ofNat (i : Nat) : Sexp := atom (toString i)
def ofBool (b : Bool) : Sexp := atom (if b then "t" else "f")
def ofOpt (f : α → Sexp) : Option α → Sexp
  | none => atom "none"
  | some v => list [atom "some", f v]

end Sexp

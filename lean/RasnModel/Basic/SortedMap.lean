/-
  A `BTreeMap<K, V>` as a key-sorted association list: `insert` (later insert of an equal key
  replaces the value, as `BTreeMap::insert` / `collect()`), `ofList` (= `into_iter().collect()`),
  iteration in key order. The sortedness invariant is a separate theorem, not a subtype.
-/
namespace SMap

variable {κ : Type} {α : Type} [Ord κ]

def ins (k : κ) (v : α) : List (κ × α) → List (κ × α)
  | [] => [(k, v)]
  | (k', v') :: rest =>
    match compare k k' with
    | .lt => (k, v) :: (k', v') :: rest
    | .eq => (k, v) :: rest
    | .gt => (k', v') :: ins k v rest

/-- `BTreeMap::insert` with its return value: the value the key was bound to before -/
def insR (k : κ) (v : α) : List (κ × α) → List (κ × α) × Option α
  | [] => ([(k, v)], none)
  | (k', v') :: rest =>
    match compare k k' with
    | .lt => ((k, v) :: (k', v') :: rest, none)
    | .eq => ((k, v) :: rest, some v')
    | .gt => let r := insR k v rest; ((k', v') :: r.1, r.2)

/-- `iter.collect::<BTreeMap<_, _>>()` -/
def ofList (l : List (κ × α)) : List (κ × α) := l.foldl (fun m kv => ins kv.1 kv.2 m) []

def keys (m : List (κ × α)) : List κ := m.map (·.1)

def get? (m : List (κ × α)) (k : κ) : Option α :=
  (m.find? (fun kv => compare kv.1 k == .eq)).map (·.2)

/-- strictly increasing keys -/
def Sorted (m : List (κ × α)) : Prop := m.Pairwise (fun a b => compare a.1 b.1 = .lt)

end SMap

/-
  C02 — "recursive components are boxed": the recursion analysis of the linker
  (validator/linking/mod.rs `ASN1Type::recurses` / `mark_recursive`, driven by `Validator::link`).

  What the analysis looks at is a graph: a top-level definition is a SEQUENCE / SET / CHOICE with
  members, an alias `T ::= U`, or anything else (SEQUENCE OF / SET OF and the leaf types, which end
  the search). A member is reduced to the type references standing *inline* in its type (through
  nested anonymous SEQUENCE / SET / CHOICE, not through SEQUENCE OF / SET OF) and its
  `is_recursive` mark. Marks of nested anonymous members are never set by the code (they are
  searched for the name `SEQUENCE` / `SET` / `CHOICE`, which no reference can have), so they are
  not represented.

  `go` is `recurses` after fix 26722d8: one visited list for the whole search, depth first, members
  in order, marked members skipped. `markFrom` is the loop of `Validator::link` restricted to this
  pass: definitions in the order of the list (the linker pops its sorted key list from the end, i.e.
  descending key order — the driver is given the definitions in that order), each taken out of the map
  while its members are marked.
-/
namespace Link.Recursion

structure Member where
  marked : Bool
  refs : List String
  deriving DecidableEq, Repr

structure Def where
  /-- SEQUENCE / SET / CHOICE: members can be marked. An alias is one unmarkable member. -/
  markable : Bool
  members : List Member
  deriving DecidableEq, Repr

abbrev Env := List (String × Def)

/-- the references a search continues with: those of the members not (yet) marked -/
def succ (d : Def) : List String := (d.members.filter fun m => !m.marked).flatMap (·.refs)

/-- definitions not yet visited -/
def unvisited (env : Env) (vis : List String) : Nat := (env.filter fun p => !vis.contains p.1).length

theorem unvisited_lt (env : Env) (vis : List String) (r : String) (d : Def)
    (hl : env.lookup r = some d) (hv : vis.contains r = false) :
    unvisited env (r :: vis) < unvisited env vis := by
  induction env with
  | nil => simp [List.lookup] at hl
  | cons p t ih =>
    obtain ⟨k, v⟩ := p
    simp only [List.lookup] at hl
    by_cases hk : r = k
    · subst hk
      have h1 : (r :: vis).contains r = true := by simp
      have hmono : (t.filter fun p => !(r :: vis).contains p.1).length ≤ (t.filter fun p => !vis.contains p.1).length := by
        clear ih hl
        induction t with
        | nil => simp
        | cons q t ih =>
          simp only [List.filter_cons]
          by_cases hq : vis.contains q.1 = true
          · have : (r :: vis).contains q.1 = true := by
              simp only [List.contains_cons, Bool.or_eq_true]; right; exact hq
            simp only [this, hq, Bool.not_true]
            exact ih
          · simp only [Bool.not_eq_true] at hq
            simp only [hq, Bool.not_false, if_true]
            split
            · simp only [List.length_cons]; omega
            · simp only [List.length_cons]; omega
      simp only [unvisited, List.filter_cons, h1, hv, Bool.not_true, Bool.not_false, if_true, List.length_cons]
      have : (false = true) = False := by simp
      simp only [this, if_false]
      omega
    · have hne : (r == k) = false := by simp [hk]
      simp only [hne] at hl
      have := ih hl
      simp only [unvisited, List.filter_cons] at this ⊢
      by_cases hq : vis.contains k = true
      · have h2 : (r :: vis).contains k = true := by
          simp only [List.contains_cons, Bool.or_eq_true]; right; exact hq
        simp only [h2, hq, Bool.not_true]
        exact this
      · simp only [Bool.not_eq_true] at hq
        have h2 : (r :: vis).contains k = false := by
          simp only [List.contains_cons, Bool.or_eq_false_iff]
          refine ⟨?_, hq⟩
          simp only [beq_eq_false_iff_ne, ne_eq]
          exact fun h => hk h.symm
        simp only [h2, hq, Bool.not_false, if_true, List.length_cons]
        omega

/-- `recurses name tlds []` on the references of one member: is `name` reachable?
    `stack` = references still to look at (depth first), `vis` = definitions already entered. -/
def go (name : String) (env : Env) (vis : List String) (stack : List String) : Bool :=
  match stack with
  | [] => false
  | r :: rest =>
    if hv : vis.contains r = true then go name env vis rest
    else if r == name then true
    else
      match hl : env.lookup r with
      | none => go name env vis rest
      | some d => go name env (r :: vis) (succ d ++ rest)
termination_by (unvisited env vis, stack.length)
decreasing_by
  · exact Prod.Lex.right _ (by simp)
  · exact Prod.Lex.right _ (by simp)
  · exact Prod.Lex.left _ _ (unvisited_lt env vis r d hl (by simpa using hv))

/-- marking one definition against the rest of the map -/
def markDef (name : String) (env : Env) (d : Def) : Def :=
  if d.markable then { d with members := d.members.map fun m => { m with marked := go name env [] m.refs } } else d

/-- the pass over all definitions in processing order: `done` have their final marks, `todo` their initial ones -/
def markFrom (done : Env) : Env → Env
  | [] => done
  | (n, d) :: rest => markFrom (done ++ [(n, markDef n (done ++ rest) d)]) rest

def markAll (env : Env) : Env := markFrom [] env

end Link.Recursion

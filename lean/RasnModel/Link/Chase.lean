/-
  C08 — reference chasing in the linker (validator/linking/mod.rs `link_with_type`,
  arm `(ElsewhereDeclaredType, LinkedNestedValue { supertypes, .. })`): a value is linked with its
  type by following type references; `supertypes` doubles as the visited list.
-/
namespace Link.Chase

inductive Def where
  | alias (target : String)
  | base
  deriving DecidableEq, Repr

abbrev Env := List (String × Def)

inductive Outcome where
  | resolved            -- a built-in type was reached: the value is linked
  | cyclic              -- "type .. is defined in terms of itself" (Err collected as a warning)
  | missing             -- "Failed to link value with .." (Err collected as a warning)
  | outOfFuel           -- the recursion did not come back
  deriving DecidableEq, Repr

/-- the code after fix 9c05eeb^: the chain collected so far is checked before it is extended -/
def chase : Nat → Env → List String → String → Outcome
  | 0, _, _, _ => .outOfFuel
  | f + 1, env, vis, n =>
    if vis.contains n then .cyclic else
    match env.lookup n with
    | none => .missing
    | some .base => .resolved
    | some (.alias m) => chase f env (n :: vis) m

/-- the code before: no check -/
def chaseOld : Nat → Env → String → Outcome
  | 0, _, _ => .outOfFuel
  | f + 1, env, n =>
    match env.lookup n with
    | none => .missing
    | some .base => .resolved
    | some (.alias m) => chaseOld f env m

/-- definitions not yet on the chain -/
def unvisited (env : Env) (vis : List String) : Nat := (env.filter fun p => !vis.contains p.1).length

end Link.Chase

/-
  C09 — COMPONENTS OF: the X.680 §25.5 expansion (spec) and the linker's algorithm (model of
  validator/linking/mod.rs `link_components_of` on what lexer/sequence.rs assembles).
-/
namespace Link

inductive Item where
  | comp (name : String)
  | of (ref : String)
  deriving DecidableEq, Repr

/-- a SEQUENCE as written: root component list and, after an extension marker, the additions -/
structure SrcSeq where
  root : List Item
  ext : Option (List Item)
  deriving DecidableEq, Repr

abbrev Env := List (String × SrcSeq)

def comps : List Item → List String
  | [] => []
  | .comp n :: is => n :: comps is
  | .of _ :: is => comps is

def ofs : List Item → List String
  | [] => []
  | .comp _ :: is => ofs is
  | .of r :: is => r :: ofs is

/-! ### what the lexer assembles (intermediate/types.rs `From<..> for SequenceOrSet`) -/

def lexMembers (s : SrcSeq) : List String := comps s.root ++ comps (s.ext.getD [])
def lexOfs (s : SrcSeq) : List String := ofs s.root ++ ofs (s.ext.getD [])
/-- `index_of_first_extension = value.0.0.len()`: counted BEFORE the COMPONENTS OF entries are taken out -/
def lexExt (s : SrcSeq) : Option Nat := s.ext.map fun _ => s.root.length

structure Linked where
  members : List String
  ext : Option Nat          -- index of the first extension addition
  deriving DecidableEq, Repr

/-- `s.members.push(member)` with `s.extensible = Some(index + 1)` -/
def push (acc : Linked) (m : String) : Linked := ⟨acc.members ++ [m], acc.ext.map (· + 1)⟩

/-- `index < linked_seq.extensible.unwrap_or(usize::MAX)` -/
def rootOf (l : Linked) : List String :=
  match l.ext with
  | none => l.members
  | some k => l.members.take k

/-- `link_components_of(tlds, visiting)`: fuel bounds the depth of reference chains -/
def model : Nat → Env → List String → SrcSeq → Linked
  | 0, _, _, s => ⟨lexMembers s, lexExt s⟩
  | f + 1, env, vis, s =>
    (lexOfs s).foldl (fun acc r =>
      if vis.contains r then acc else
      match env.lookup r with
      | none => acc
      | some t => (rootOf (model f env (r :: vis) t)).foldl push acc) ⟨lexMembers s, lexExt s⟩

/-! ### X.680 §25.5: COMPONENTS OF T stands, in place, for the root components of T -/

def specRoot : Nat → Env → List String → SrcSeq → List String
  | 0, _, _, s => comps s.root
  | f + 1, env, vis, s =>
    s.root.flatMap fun
      | .comp n => [n]
      | .of r =>
        if vis.contains r then [] else
        match env.lookup r with
        | none => []
        | some t => specRoot f env (r :: vis) t

/-! ### domain in which the two agree -/

def noOf : List Item → Bool
  | [] => true
  | .comp _ :: is => noOf is
  | .of _ :: _ => false

/-- all `COMPONENTS OF` come after all components -/
def tailForm : List Item → Bool
  | [] => true
  | .comp _ :: is => tailForm is
  | .of _ :: is => comps is == []

def DomSeq (s : SrcSeq) : Bool :=
  (s.ext.isNone && tailForm s.root) || (noOf s.root && noOf (s.ext.getD []))

def DomEnv (env : Env) : Bool := env.all fun p => DomSeq p.2

end Link

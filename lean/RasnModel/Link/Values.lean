/-
  C07 — composite values.  Model of the arms of `ASN1Value::link_with_type`
  (validator/linking/mod.rs) that govern CHOICE, SEQUENCE / SET and SEQUENCE OF / SET OF values,
  of `link_struct_like` and `link_array_like`, and of the wrappers a chain of type references
  leaves around the value (`LinkedNestedValue`).

  What the code does, statement by statement:
  * a type reference wraps the value in `LinkedNestedValue { supertypes: [name] }` and goes on with
    the referenced definition; a further reference pushes its name (`strip` collects the names);
  * CHOICE: the alternative is looked up by name (`find`, first match), the inner value is linked
    with the alternative's type; through references the last supertype is popped and becomes the
    enum's name;
  * SEQUENCE / SET (`link_struct_like`): first every *given* field is looked up among the members
    by name and linked with the member's type (an unknown name is an error); then, for every member
    in *declaration* order, the first given field of that name is taken, otherwise the member's
    DEFAULT (which was linked when the type was), otherwise the value is rejected
    ("No value for field");
  * SEQUENCE OF / SET OF (`link_array_like`): every element is linked with the element type, in order.
  Leaf notations are `Atom`s here: their conversion is `Lexer/Values`' business.
  Import-free (the driver links as an executable).
-/
namespace Link.Values

inductive Atom where
  | int (n : Int) | bool (b : Bool) | null | octets (o : List Nat) | str (utf8 : List Nat) | enum (name : String)
  deriving DecidableEq, Repr, Inhabited

mutual
/-- value notation as the lexer hands it over -/
inductive SVal where
  | atom (a : Atom)
  | braces (fs : List SField)              -- `ASN1Value::SequenceOrSet`
  | choice (alt : String) (v : SVal)
inductive SField where
  | mk (name : Option String) (v : SVal)
end

mutual
/-- linked values -/
inductive LVal where
  | atom (a : Atom)
  | struct (fs : List LField)              -- `LinkedStructLikeValue`: one entry per member
  | arr (xs : List LVal)                   -- `LinkedArrayLikeValue`
  | choice (alt : String) (v : LVal)
  | nested (sup : List String) (v : LVal)  -- `LinkedNestedValue`
inductive LField where
  | mk (name : String) (v : LVal)
end

mutual
/-- governing types; a DEFAULT is stored linked, as in the IR after the type was linked -/
inductive VTy where
  | leaf
  | seq (ms : List VMember)
  | seqOf (e : VTy)
  | choice (alts : List VAlt)
  | named (n : String) (t : VTy)           -- reference to the assignment `n ::= t`
inductive VMember where
  | mk (name : String) (ty : VTy) (dflt : Option LVal)
inductive VAlt where
  | mk (name : String) (ty : VTy)
end

instance : Inhabited SVal := ⟨.atom .null⟩
instance : Inhabited LVal := ⟨.atom .null⟩
instance : Inhabited VTy := ⟨.leaf⟩

def VMember.name : VMember → String | .mk n _ _ => n
def VMember.ty : VMember → VTy | .mk _ t _ => t
def VMember.dflt : VMember → Option LVal | .mk _ _ d => d
def SField.name : SField → Option String | .mk n _ => n
def SField.val : SField → SVal | .mk _ v => v

/-- the names a chain of references pushes onto `supertypes`, and the definition it ends in -/
def strip : VTy → List String × VTy
  | .named n t => let (s, c) := strip t; (n :: s, c)
  | t => ([], t)

def core (t : VTy) : VTy := (strip t).2

/-- `c.options.iter().find(|o| &o.name == variant_name)` -/
def findAlt : List VAlt → String → Option VTy
  | [], _ => none
  | .mk n t :: rest, a => if n == a then some t else findAlt rest a

/-- `s.members.iter().find(|m| Some(&m.name) == v.0.as_ref())` -/
def findMember : List VMember → Option String → Option VTy
  | [], _ => none
  | .mk n t _ :: rest, a => if some n == a then some t else findMember rest a

/-- `val.iter().find_map(|(name, value)| (name.as_ref() == Some(&member.name)).then_some(..))` -/
def findGiven : List (Option String × LVal) → String → Option LVal
  | [], _ => none
  | (n, v) :: rest, m => if n == some m then some v else findGiven rest m

/-- second half of `link_struct_like`: one entry per member, in declaration order -/
def assemble (given : List (Option String × LVal)) : List VMember → Option (List LField)
  | [] => some []
  | .mk n _ d :: ms =>
    match (findGiven given n).orElse (fun _ => d), assemble given ms with
    | some v, some rest => some (.mk n v :: rest)
    | _, _ => none

def wrap (sup : List String) (v : LVal) : LVal := if sup.isEmpty then v else .nested sup v

mutual
def link (ty : VTy) : SVal → Option LVal
  | .atom a =>
    match strip ty with
    | (sup, .leaf) => some (wrap sup (.atom a))
    | _ => none
  | .choice a v =>
    match strip ty with
    | (sup, .choice alts) =>
      match findAlt alts a with
      | some aty => (link aty v).map fun i => wrap sup.dropLast (.choice a i)   -- `supertypes.pop()` names the enum
      | none => none
    | _ => none
  | .braces fs =>
    match strip ty with
    | (sup, .seq ms) =>
      match linkGiven ms fs with
      | some given => (assemble given ms).map fun out => wrap sup (.struct out)
      | none => none
    | (sup, .seqOf e) => (linkElems e fs).map fun xs => wrap sup (.arr xs)
    | _ => none
/-- first half of `link_struct_like`: every given field linked with its member's type -/
def linkGiven (ms : List VMember) : List SField → Option (List (Option String × LVal))
  | [] => some []
  | .mk n v :: rest =>
    match findMember ms n with
    | some mty =>
      match link mty v, linkGiven ms rest with
      | some l, some r => some ((n, l) :: r)
      | _, _ => none
    | none => none
/-- `link_array_like` (an element that does not link is outside the model: `none`) -/
def linkElems (e : VTy) : List SField → Option (List LVal)
  | [] => some []
  | .mk _ v :: rest =>
    match link e v, linkElems e rest with
    | some l, some r => some (l :: r)
    | _, _ => none
end

/-! ### abstract values -/

mutual
inductive AbsVal where
  | atom (a : Atom)
  | record (fs : List AbsField)            -- one entry per component, by name
  | list (xs : List AbsVal)
  | choice (alt : String) (v : AbsVal)
inductive AbsField where
  | mk (name : String) (v : AbsVal)
end

instance : Inhabited AbsVal := ⟨.atom .null⟩

mutual
/-- what a linked value denotes: the wrappers of type references denote the wrapped value -/
def absL : LVal → AbsVal
  | .atom a => .atom a
  | .struct fs => .record (absFields fs)
  | .arr xs => .list (absList xs)
  | .choice a v => .choice a (absL v)
  | .nested _ v => absL v
def absFields : List LField → List AbsField
  | [] => []
  | .mk n v :: rest => .mk n (absL v) :: absFields rest
def absList : List LVal → List AbsVal
  | [] => []
  | v :: rest => absL v :: absList rest
end

/-! ### the reference reading (X.680 §25.17, §26.3 / §28.3, §29.11): which abstract value a value
    notation denotes under a governing type — a relation, written without the linker's lookups -/

mutual
inductive Denotes : VTy → SVal → AbsVal → Prop
  | atom {ty a} : core ty = .leaf → Denotes ty (.atom a) (.atom a)
  | choice {ty alts a aty v x} : core ty = .choice alts → findAlt alts a = some aty → Denotes aty v x →
      Denotes ty (.choice a v) (.choice a x)
  | list {ty e fs xs} : core ty = .seqOf e → DenotesAll e fs xs → Denotes ty (.braces fs) (.list xs)
  | record {ty ms fs out} : core ty = .seq ms →
      (∀ f, f ∈ fs → ∃ t, findMember ms f.name = some t) →      -- every given name is a component
      DenotesMembers ms ms fs out → Denotes ty (.braces fs) (.record out)
/-- element by element, in order -/
inductive DenotesAll : VTy → List SField → List AbsVal → Prop
  | nil {e} : DenotesAll e [] []
  | cons {e n v x fs xs} : Denotes e v x → DenotesAll e fs xs → DenotesAll e (.mk n v :: fs) (x :: xs)
/-- component by component (second list), in declaration order: the value given under the
    component's name, or its DEFAULT when none is given; the first list is the whole component list -/
inductive DenotesMembers : List VMember → List VMember → List SField → List AbsField → Prop
  | nil {all fs} : DenotesMembers all [] fs []
  | given {all n mty d ms fs v gty x out} : SField.mk (some n) v ∈ fs →
      findMember all (some n) = some gty →          -- read with the type of the component called `n`
      Denotes gty v x → DenotesMembers all ms fs out →
      DenotesMembers all (.mk n mty d :: ms) fs (.mk n x :: out)
  | dflt {all n mty d ms fs out} : (∀ v, SField.mk (some n) v ∉ fs) → DenotesMembers all ms fs out →
      DenotesMembers all (.mk n mty (some d) :: ms) fs (.mk n (absL d) :: out)
end

/-- names of a component list are pairwise distinct (X.680 §25.10) -/
def distinctNames : List VMember → Prop
  | [] => True
  | m :: ms => (∀ m', m' ∈ ms → m'.name ≠ m.name) ∧ distinctNames ms

/-- no name is given twice in a braces group, hereditarily (X.680: a ComponentValueList names each component once) -/
def fieldsOnce (fs : List SField) : Prop := ∀ n v1 v2, SField.mk (some n) v1 ∈ fs → SField.mk (some n) v2 ∈ fs → v1 = v2

mutual
def wfVal : SVal → Prop
  | .atom _ => True
  | .braces fs => fieldsOnce fs ∧ wfFields fs
  | .choice _ v => wfVal v
def wfFields : List SField → Prop
  | [] => True
  | .mk _ v :: rest => wfVal v ∧ wfFields rest
end


end Link.Values

/-
  Model of the scoping of value parameters of parameterized types
  (rasn-compiler/src/validator/linking/mod.rs `resolve_parameters`, `with_resolved_value_chains`,
  `ASN1Value::link_elsewhere_declared`; rasn-compiler/src/validator/mod.rs `Validator::link`, the branch
  that links a parameterized type itself), after fix commits 1c2f179 and fe8e34c.

  A module is a list of value definitions `name ::= literal | reference`. A template has formal value
  parameters and a body; of the body only the places where a value stands matter (the bounds of its
  constraints): each is a literal or a reference. The linker never substitutes text: it *extends the
  scope* — the formal parameters are entered into a copy of the module's definitions under their own
  names (replacing definitions of the same name) and the body is linked in that scope.
-/
namespace Link.Params

inductive Val where
  | lit (n : Int)
  | ref (x : String)
  deriving DecidableEq, Repr, Inhabited

/-- value definitions by name; the first entry of a name is the one a `BTreeMap` would hold -/
abbrev Scope := List (String × Val)

def lookup (s : Scope) (x : String) : Option Val := (s.find? (·.1 == x)).map (·.2)

/-- `link_elsewhere_declared`: follow references for at most `fuel` steps (`for _ in 0..=tlds.len()`);
    a reference that cannot be followed any further stays a reference -/
def follow (s : Scope) : Nat → Val → Val
  | _, .lit n => .lit n
  | 0, .ref x => .ref x
  | f + 1, .ref x =>
    match lookup s x with
    | some v => follow s f v
    | none => .ref x

/-- the number of steps the code allows: one more than there are definitions -/
def fuelOf (s : Scope) : Nat := s.length + 1

/-- `with_resolved_value_chains`: the value of every definition followed in the module's own scope -/
def resolveChains (m : Scope) : Scope := m.map fun d => (d.1, follow m (fuelOf m) d.2)

/-- definitions named like a formal parameter are not visible inside the parameterized type -/
def hide (formals : List String) (s : Scope) : Scope := s.filter fun d => !formals.contains d.1

structure Template where
  formals : List String
  body : List Val
  deriving Repr

/-- `Validator::link` on the template itself: its body is linked in the module's scope (chains
    resolved) without the definitions named like a formal parameter -/
def linkTemplate (m : Scope) (t : Template) : Template :=
  let scope := hide t.formals (resolveChains m)
  { t with body := t.body.map (follow scope (fuelOf m)) }

/-- the scope of an instance: formal ↦ argument, the argument followed in the MODULE's scope first -/
def instanceScope (m : Scope) (t : Template) (args : List Val) : Scope :=
  t.formals.zip (args.map (follow m (fuelOf m))) ++ hide t.formals (resolveChains m)

/-- `resolve_parameters`: the body linked in the scope of the instance -/
def instantiate (m : Scope) (t : Template) (args : List Val) : List Val :=
  let scope := instanceScope m t args
  t.body.map (follow scope (fuelOf scope))

/-- the algorithm before the fixes: arguments entered as written, chains followed in the instance's scope -/
def instantiateOld (m : Scope) (t : Template) (args : List Val) : List Val :=
  let scope := t.formals.zip args ++ hide t.formals m
  t.body.map (follow scope (fuelOf scope))

/-- ... and the template linked in the full scope of the module (a definition named like a formal parameter
    was substituted there) -/
def linkTemplateOld (m : Scope) (t : Template) : Template :=
  { t with body := t.body.map (follow m (fuelOf m)) }

/-! ### SPEC (X.683 §8.3, §9): an instance is the body with every formal parameter replaced by the
    actual parameter, simultaneously; the result is an ordinary definition of the module -/

def substVal (t : Template) (args : List Val) : Val → Val
  | .ref x => (lookup (t.formals.zip args) x).getD (.ref x)
  | .lit n => .lit n

def substitute (t : Template) (args : List Val) : List Val := t.body.map (substVal t args)

def expanded (m : Scope) (t : Template) (args : List Val) : List Val :=
  (substitute t args).map (follow m (fuelOf m))

end Link.Params

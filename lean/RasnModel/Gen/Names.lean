import RasnModel.Extracted.Names
/-
  Model of the name-mangling functions of generator/rasn/utils.rs (text = List Char, ASCII):
  to_rust_snake_case, to_rust_const_case, to_rust_enum_identifier, to_rust_title_case,
  inner_name, default_method_name, and the identifier-annotation rule.
-/
namespace Gen.Names
open Extracted.Names

/-- `input.replace('-', "_")` -/
def hy (c : Char) : Char := if c == '-' then '_' else c

/-- `peekable.peek().is_some_and(|next| next.is_uppercase())` -/
def peekUpper : List Char → Bool
  | n :: _ => n.isUpper
  | [] => false

/-- the peekable loop of `to_rust_snake_case` -/
def snakeLoop : List Char → List Char
  | [] => []
  | c :: rest =>
    if c.isLower || c == '_' || c.isDigit then
      if c != '_' && peekUpper rest
      then c :: '_' :: snakeLoop rest
      else c :: snakeLoop rest
    else c.toLower :: snakeLoop rest

def toSnake (s : List Char) : List Char :=
  let lw := snakeLoop (s.map hy)
  if rustKeywords.contains lw then 'r' :: '_' :: lw else lw

def toConst (s : List Char) : List Char := (toSnake s).map Char.toUpper

/-- keyword test on the *input* -/
def toEnumIdent (s : List Char) : List Char :=
  let f := s.map hy
  if rustKeywords.contains s then 'R' :: '_' :: f else f

/-- one step of the fold in `to_rust_title_case`; the accumulator is kept reversed -/
def titleStep (acc : List Char) (c : Char) : List Char :=
  match acc with
  | [] => if c.isLower then [c.toUpper] else [c]
  | '_' :: t => c.toUpper :: t
  | _ => c :: acc

def titleFold (s : List Char) : List Char := ((s.map hy).foldl titleStep []).reverse

def toTitle (s : List Char) : List Char :=
  let t := titleFold s
  if rustKeywords.contains t then 'R' :: '_' :: t else t

/-- `format_ident!("{}{}", parent_name, to_rust_title_case(name))` -/
def innerName (name parent : List Char) : List Char := parent ++ toTitle name

/-- `format_ident!("{}_{}_default", snake(parent), snake(field))` -/
def defaultFnName (parent field : List Char) : List Char :=
  toSnake parent ++ ['_'] ++ toSnake field ++ ['_','d','e','f','a','u','l','t']

/-- the annotation rule used at the call sites: `if rendered != asn_name { identifier = asn_name }` -/
def identifierAnnotation (rendered asn : List Char) : Option (List Char) :=
  if rendered != asn then some asn else none

end Gen.Names

import RasnModel.Gen.Names
/-
  C12 — `IMPORTS` → `use super::<module>::{..}` (generator/rasn/mod.rs `generate_module`, the closure
  over `module.imports`), over character lists.
-/
namespace Gen.Imports
open Gen.Names

/-- `usage.contains("{}")` -/
def containsBraces : List Char → Bool
  | '{' :: '}' :: _ => true
  | _ :: cs => containsBraces cs
  | [] => false

/-- `usage.chars().all(|c| c.is_uppercase() || c == '-')`: the test that takes a symbol for an
    information object class -/
def classLike (s : List Char) : Bool := s.all fun c => c.isUpper || c == '-'

/-- one symbol of an import list that does not turn the clause into a glob -/
def symbolUse (s : List Char) : Option (List Char) :=
  match s with
  | c :: _ => if c.isLower then some (toConst s) else if c.isUpper then some (toTitle s) else none
  | [] => none

/-- `usages`: `none` = the whole clause becomes `*` -/
def usagesOf : List (List Char) → Option (List (List Char))
  | [] => some []
  | s :: rest =>
    if containsBraces s || classLike s then none
    else match usagesOf rest with
      | none => none
      | some us => some ((symbolUse s).toList ++ us)

/-- one `use super::#module::{ #(#used_imports),* };` -/
structure UseLine where
  module : List Char
  symbols : Option (List (List Char))     -- none = `*`
  deriving DecidableEq, Repr

def useLine (wildcardCfg : Bool) (imp : List Char × List (List Char)) : UseLine :=
  ⟨toSnake imp.1, if wildcardCfg then none else usagesOf imp.2⟩

def useLines (wildcardCfg : Bool) (imports : List (List Char × List (List Char))) : List UseLine :=
  imports.map (useLine wildcardCfg)

/-! ### spec: exactly the imported symbols, value references in const case, type references in title case -/

def specSymbol (s : List Char) : List Char :=
  match s with
  | c :: _ => if c.isLower then toConst s else toTitle s
  | [] => []

/-- a symbol list the statement speaks about: references (no classes, no parameterized symbols),
    each starting with a letter -/
def plainSymbols (ss : List (List Char)) : Bool :=
  ss.all fun s => !containsBraces s && !classLike s && (match s with | c :: _ => c.isLower || c.isUpper | [] => false)

end Gen.Imports

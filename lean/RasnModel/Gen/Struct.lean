import RasnModel.IR.Src
import RasnModel.Lexer.Assemble
import RasnModel.Gen.Names
import RasnModel.Extracted.Tagging
/-
  Model of the rasn generator for constructed types (generator/rasn/builder.rs, utils.rs):
  format_sequence_or_set_members, format_choice_options, format_enum_members, format_tag,
  constraints_and_type_name, needs_unnesting, generate_{sequence_or_set,choice,enumerated,
  sequence_or_set_of}, apply_tagging_environment. Facts only (IR.ItemF), no token text.
-/
namespace Gen.Struct
open IR Lexer

def titleS (s : String) : String := String.ofList (Gen.Names.toTitle s.toList)
def snakeS (s : String) : String := String.ofList (Gen.Names.toSnake s.toList)
def enumIdS (s : String) : String := String.ofList (Gen.Names.toEnumIdent s.toList)

/-- `i >= first_extension_index.unwrap_or(usize::MAX)` then group-name test -/
def extAnnotation (i : Nat) (firstExt : Option Nat) (isGroupName : Bool) : ExtF :=
  match firstExt with
  | some k => if i ≥ k then (if isGroupName then ExtF.group else ExtF.addition) else ExtF.none
  | none => ExtF.none

/-- `name.starts_with(INTERNAL_EXTENSION_GROUP_NAME_PREFIX)` on the character list -/
def isGroupName (n : String) : Bool := n.toList.take extGroupPrefix.toList.length == extGroupPrefix.toList

/-- `seq.extensible.or(implied.then_some(len)).map(|_| #[non_exhaustive])` -/
def nonExhaustive (ext : Option Nat) (implied : Bool) (len : Nat) : Bool :=
  (ext.or (if implied then some len else none)).isSome

/-- tagging environment stored in an `AsnTag`: REGENERATED from /repo (Extracted/Tagging.lean),
    together with `envAdd` (`impl Add`) and `formatTagExplicit` (the test inside `format_tag`) -/
abbrev TEnv := Extracted.Tagging.TaggingEnvironment
open Extracted.Tagging (envAdd formatTagExplicit)

/-- `environments` + `ModuleHeader::from`: absent TAGS clause ↦ Implicit (sic) -/
def headerEnv : TagDefault → TEnv
  | .automatic => .Automatic
  | .explicit => .Explicit
  | .implicit => .Implicit
  | .none => .Implicit

/-- `AsnTag::from`: absent keyword ↦ Automatic -/
def kwEnv : TagKw → TEnv
  | .none => .Automatic
  | .implicit => .Implicit
  | .explicit => .Explicit

/-- `format_tag` on a tag whose environment is `e` -/
def tagFact (t : Tag) (e : TEnv) : TagF := ⟨t.cls, t.num, formatTagExplicit e, false⟩

/-- every tag — type assignment, component, alternative, at any depth — gets `module default + keyword`
    (`apply_tagging_environment`, recursive since the `fix:` commit for C03; the `firstLevel` argument
    is kept for the shape of the generator functions but no longer matters) -/
def tagAt (env : TEnv) (_firstLevel : Bool) (t : Option Tag) : Option TagF :=
  t.map fun t => tagFact t (envAdd env (kwEnv t.kw))

def primName : String → String
  | "NULL" => "()"
  | "BOOLEAN" => "bool"
  | "INTEGER" => "Integer"
  | "REAL" => "f64"
  | "OCTET STRING" => "OctetString"
  | "BIT STRING" => "BitString"
  | "OBJECT IDENTIFIER" => "ObjectIdentifier"
  | "UTCTime" => "UtcTime"
  | "GeneralizedTime" => "GeneralizedTime"
  | "NumericString" => "NumericString"
  | "VisibleString" => "VisibleString"
  | "IA5String" => "Ia5String"
  | "TeletexString" => "TeletexString"
  | "T61String" => "TeletexString"   -- X.680 41: a synonym
  | "UTF8String" => "Utf8String"
  | "UniversalString" => "UniversalString"
  | "PrintableString" => "PrintableString"
  | "GeneralString" => "GeneralString"
  | "BMPString" => "BmpString"
  | "GraphicString" => "GraphicString"
  | "ANY" => "Any"
  | s => s

def innerNameS (member parent : String) : String := parent ++ titleS member

/-- `needs_unnesting` -/
def needsUnnesting : SrcType → Bool
  | .enumerated .. | .choice .. | .seq .. => true
  | .seqOf _ e t => needsUnnesting e || t.isSome
  | _ => false

/-- `constraints_and_type_name` (Box omitted: boxing is observed separately) -/
def typeNameOf (member parent : String) : SrcType → String
  | .prim p => primName p
  | .ref n => titleS n
  | .enumerated .. | .choice .. | .seq .. => innerNameS member parent
  | .seqOf isSet e _ => (if isSet then "SetOf<" else "SequenceOf<") ++ typeNameOf member parent e ++ ">"

/-- `format_member_or_option`: hoisted name when the type needs unnesting -/
def memberTypeName (member parent : String) (ty : SrcType) : String :=
  if needsUnnesting ty then innerNameS member parent else typeNameOf member parent ty

def identAnn (rendered asn : String) : Option String := if rendered != asn then some asn else none

/-- one struct field (`format_sequence_member`) -/
def fieldOf (env : TEnv) (firstLevel : Bool) (parent : String) (firstExt : Option Nat) (i : Nat) (c : SrcComp) : FieldF :=
  let base := memberTypeName c.name parent c.ty
  let ty := if c.opt == .optional || isGroupName c.name then "Option<" ++ base ++ ">" else base
  { name := snakeS c.name, ty := ty, tag := tagAt env firstLevel c.tag,
    ext := extAnnotation i firstExt (isGroupName c.name), hasDefault := c.opt == .default,
    identifier := if snakeS c.name != c.name || isGroupName c.name then
        (if isGroupName c.name then some "SEQUENCE" else some c.name) else none }

/-- one CHOICE variant (`format_choice_option`) -/
def variantOf (env : TEnv) (firstLevel : Bool) (parent : String) (firstExt : Option Nat) (i : Nat) (c : SrcComp) : FieldF :=
  { name := enumIdS c.name, ty := memberTypeName c.name parent c.ty, tag := tagAt env firstLevel c.tag,
    ext := extAnnotation i firstExt (isGroupName c.name), hasDefault := false,
    identifier := if enumIdS c.name != c.name || isGroupName c.name then
        (if isGroupName c.name then some "SEQUENCE" else some c.name) else none }

def fieldsOf (mk : Nat → SrcComp → FieldF) (members : List SrcComp) : List FieldF :=
  members.zipIdx.map fun ci => mk ci.2 ci.1

/-- enum variants (`format_enum_members`): field-less, extension flag by index -/
def enumVariants (names : List String) (firstExt : Option Nat) : List FieldF :=
  names.zipIdx.map fun ni =>
    { name := enumIdS ni.1, ty := "", tag := none, ext := extAnnotation ni.2 firstExt false, hasDefault := false,
      identifier := identAnn (enumIdS ni.1) ni.1 }

structure Ctx where
  env : TEnv
  implied : Bool

/-- `tagging_environment == Automatic && !options.any(|o| o.tag.is_some())` (CHOICE; and SEQUENCE / SET before fix `377113c`) -/
def automaticTagsFlat (ctx : Ctx) (members : List SrcComp) : Bool :=
  ctx.env == .Automatic && !members.any (fun c => c.tag.isSome)

/-- a member that is a version group (the lexer's wrapper `ext_group_…` of type SEQUENCE) with a tagged component -/
def groupTagged (c : SrcComp) : Bool :=
  c.name.startsWith Lexer.extGroupPrefix &&
    (match c.ty with
     | .seq _ cs _ _ => cs.any (fun g => g.tag.isSome)
     | _ => false)

/-- SEQUENCE / SET since fix `377113c`: `tagging_environment == Automatic && !members.any(|m| m.tag.is_some() ||
    (m.name.starts_with(PREFIX) && matches!(&m.ty, Sequence(g) if g.members.any(|gm| gm.tag.is_some()))))` -/
def automaticTags (ctx : Ctx) (members : List SrcComp) : Bool :=
  ctx.env == .Automatic && !members.any (fun c => c.tag.isSome || groupTagged c)

abbrev Rec := Bool → String → Option Tag → SrcType → List ItemF

/-- hoisted anonymous member types, in member order -/
def nestedGen (rec : Rec) (parent : String) (members : List SrcComp) : List ItemF :=
  members.flatMap fun c =>
    if needsUnnesting c.ty then rec false (innerNameS c.name parent) none c.ty else []

def structItem (ctx : Ctx) (firstLevel : Bool) (name : String) (tag : Option Tag) (isSet : Bool)
    (members : List SrcComp) (ext : Option Nat) : ItemF :=
  { name := name, kind := .struct, isSet := isSet, nonExhaustive := nonExhaustive ext ctx.implied members.length,
    automaticTags := automaticTags ctx members, tag := tagAt ctx.env firstLevel tag,
    fields := fieldsOf (fieldOf ctx.env firstLevel name ext) members }

def choiceItem (ctx : Ctx) (firstLevel : Bool) (name : String) (tag : Option Tag)
    (members : List SrcComp) (ext : Option Nat) : ItemF :=
  { name := name, kind := .choice, isSet := false, nonExhaustive := nonExhaustive ext ctx.implied members.length,
    automaticTags := automaticTagsFlat ctx members,
    -- tagged top-level CHOICE: forced explicit unless the module default is EXPLICIT
    tag := tag.map (fun t => if ctx.env != .Explicit then tagFact t .Explicit
                              else tagFact t (envAdd ctx.env (kwEnv t.kw))),
    fields := fieldsOf (variantOf ctx.env firstLevel name ext) members }

def enumItem (ctx : Ctx) (firstLevel : Bool) (asnName : String) (tag : Option Tag)
    (members : List String) (ext : Option Nat) : ItemF :=
  { name := titleS asnName, kind := .enumerated, isSet := false,
    nonExhaustive := nonExhaustive ext ctx.implied members.length, automaticTags := false,
    tag := tagAt ctx.env firstLevel tag, fields := enumVariants members ext }

def newtypeItem (ctx : Ctx) (firstLevel : Bool) (name : String) (tag : Option Tag) (inner : String) : ItemF :=
  { name := name, kind := .newtype, isSet := false, nonExhaustive := false, automaticTags := false,
    tag := tagAt ctx.env firstLevel tag,
    fields := [{ name := "0", ty := inner, tag := none, ext := .none, hasDefault := false, identifier := none }] }

/-- one level of `generate_type` for `asnName ::= [tag] ty`; `rec` generates hoisted definitions -/
def genLevel (ctx : Ctx) (rec : Rec) (firstLevel : Bool) (asnName : String) (tag : Option Tag) : SrcType → List ItemF
  | .seq isSet root marker adds =>
    let name := titleS asnName
    let me := assembleBody root marker adds
    structItem ctx firstLevel name tag isSet me.1 me.2 :: nestedGen rec name me.1
  | .choice root marker adds =>
    let name := titleS asnName
    let me := assembleBody root marker adds
    choiceItem ctx firstLevel name tag me.1 me.2 :: nestedGen rec name me.1
  | .enumerated root marker adds =>
    let me := assemble root marker adds
    [enumItem ctx firstLevel asnName tag me.1 me.2]
  | .seqOf isSet e _ =>
    let name := titleS asnName
    let am : List ItemF × String := match e with
      | .ref n => ([], titleS n)
      | e' => (rec false ("Anonymous_" ++ name) none e', "Anonymous" ++ name)
    am.1 ++ [newtypeItem ctx firstLevel name tag ((if isSet then "SetOf<" else "SequenceOf<") ++ am.2 ++ ">")]
  | .prim p => [newtypeItem ctx firstLevel (titleS asnName) tag (primName p)]
  | .ref n => [newtypeItem ctx firstLevel (titleS asnName) tag (titleS n)]

/-- `generate_type` to any depth; `fuel` bounds the nesting (the driver passes 64) -/
def genItems (ctx : Ctx) : Nat → Rec
  | 0 => fun _ _ _ _ => []
  | fuel + 1 => genLevel ctx (genItems ctx fuel)

end Gen.Struct

import RasnModel.Extracted.IntType
/-
  Model for C06: the plumbing around the extracted width-selection functions.
  `Constraint::integer_constraints` = (hand-modelled prefix: unpack one constraint into
  (min, max, ext) starting from (i128::MAX, i128::MIN, false)) ∘ (extracted tail).
-/
namespace Gen
open Extracted.IntType

def i128Max : Int := 170141183460469231731687303715884105727
def i128Min : Int := -170141183460469231731687303715884105728

/-- What `unpack_as_value_range` / `unpack_as_strict_value` can see of one constraint. -/
inductive IntCons where
  /-- `Element(ValueRange{min,max,extensible})`; bounds are `none` when MIN/MAX or not an integer literal -/
  | range (lo hi : Option Int) (ext : Bool)
  /-- `Element(SingleValue{value = Integer v, extensible})` -/
  | single (v : Int) (ext : Bool)
  /-- anything else (set operations, size, alphabet, table …): both unpackers fail -/
  | other
  deriving Repr, DecidableEq

/-- The `(min, max, is_extensible)` triple computed by the prefix of `integer_constraints`. -/
def unpack : IntCons → Int × Int × Bool
  | .range lo hi ext =>
      ((match lo with | some l => min l i128Max | none => i128Max),
       (match hi with | some h => max h i128Min | none => i128Min), ext)
  | .single v ext => (min v i128Max, max v i128Min, ext)
  | .other => (i128Max, i128Min, false)

def integerConstraints (c : IntCons) : IntegerType :=
  let (mn, mx, ext) := unpack c
  integerConstraintsTail mn mx ext

/-- `Integer::int_type`: fold with `c.integer_constraints().max_restrictive(acc)` from Unbounded. -/
def intType (cs : List IntCons) : IntegerType :=
  cs.foldl (fun acc c => maxRestrictive (integerConstraints c) acc) IntegerType.Unbounded

/-- token of a type assignment / builtin-typed value: `int_type().to_token_stream()` -/
def assignmentToken (cs : List IntCons) : String := integerTypeToken (intType cs)

end Gen

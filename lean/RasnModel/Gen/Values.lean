import RasnModel.Link.Values
/-
  C07 — the rendering of a linked composite value as a Rust expression.  Model of the composite arms of
  `Rasn::value_to_tokens` (generator/rasn/utils.rs) and of the type name its callers hand it
  (`generate_value`: `supertypes.last()`; `format_default_methods`: the member's type; the struct arm: the
  type of each member, `type_to_tokens(ty).ok()`).

  What the code does, arm by arm:
  * `LinkedNestedValue { supertypes, value }`: the value is rendered with the SAME type name and then wrapped,
    `nester` popping the names from the end — `[A, B]` gives `A(B(v))`; when the value is a struct value, the last
    name is the struct's own: it names the constructor and is not a wrapper — `[A, B]` gives `A(B::new(..))`;
  * `LinkedStructLikeValue(fields)`: needs a type name (else "A type name is needed …"); every field is rendered
    with the name of ITS type (`type_to_tokens(ty).ok()`: a reference has one, an inline SEQUENCE / SET / CHOICE has
    none, a built-in type or a list has one that no composite arm looks at), positionally: `T::new(a, b, …)`;
  * `LinkedArrayLikeValue(xs)`: every element rendered WITHOUT a type name: `alloc::vec![a, b, …]`;
  * `Choice { type_name, variant_name, inner_value }`: `type_name` is what the linker stored — the name of the last
    reference on the way to the CHOICE (`supertypes.pop()`), or, when there was none, the name the linker was
    called with — for a value assignment the governing type's own name, which is also the name handed in here;
    `T::alt(inner)`, the inner value without a type name. (An inline anonymous CHOICE member gets a synthesised or
    keyword name: outside this model, `render` = `none`.)
  And the composite arms of `generate_value` (builder.rs), the glue around it for `v N ::= …` (`renderAssignment`):
  the value was linked with the BODY of `N` (`collect_supertypes`); a struct value becomes `N::new(..)`, a CHOICE
  value `N::alt(..)`, a value behind further references `N(A(B(..)))` with the struct named after the LAST reference
  (`supertypes.last()`), a list value `N(vec![..])`, and just `vec![..]` when the governing type is written in line.
  Leaves stay `Atom`s (`Lexer/Values`' business).  The governing type travels along, as in the code, where every
  field of a linked struct value carries its type.
  Import-free apart from the model of the linker.
-/
namespace Gen.Values
open Link.Values

/-- Rust expression, as far as the composite arms build it -/
inductive RExpr where
  | lit (a : Atom)
  | wrap (ty : String) (e : RExpr)                 -- `T(e)`
  | new (ty : String) (args : List RExpr)          -- `T::new(a, b, …)`
  | variant (ty alt : String) (e : RExpr)          -- `T::alt(e)`
  | vec (xs : List RExpr)                          -- `alloc::vec![a, b, …]`
  deriving Inhabited

/-- `nester`: `types.pop()` takes the LAST name first, so the first name ends up outermost -/
def nest (title : String → String) : List String → RExpr → RExpr
  | [], s => s
  | n :: rest, s => .wrap (title n) (nest title rest s)

/-- `type_to_tokens(ty).ok()` as far as a composite arm can tell the difference -/
def tyName (title : String → String) : VTy → Option String
  | .named n _ => some (title n)
  | .leaf => some "_"
  | .seqOf _ => some "_"
  | .seq _ => none
  | .choice _ => none

section
variable (title enumId : String → String)

mutual
def render (ty : VTy) (tn : Option String) : LVal → Option RExpr
  | .atom a => some (.lit a)
  | .nested sup v =>
    -- since fix `9a8438f`: a struct value is built by the `new` of the struct the chain ends in — the last
    -- name is the struct's own and names the constructor; it is not a wrapper
    match v with
    | .struct _ => (render ty ((sup.getLast?.map title).orElse (fun _ => tn)) v).map (nest title sup.dropLast)
    | _ => (render ty tn v).map (nest title sup)
  | .arr xs =>
    match core ty with
    | .seqOf e => (renderElems e xs).map .vec
    | _ => none
  | .struct fs =>
    match tn, core ty with
    | some t, .seq ms => (renderFields ms fs).map (.new t)
    | _, _ => none
  | .choice a v =>
    match strip ty with
    | (sup, .choice alts) =>
      match (sup.getLast?.map title).orElse (fun _ => tn), findAlt alts a with
      | some en, some aty => (render aty none v).map (.variant en (enumId a))
      | _, _ => none
    | _ => none
/-- the struct arm's `fields.iter().map(..)`: field and member side by side (a linked struct value has one
    entry per member, in declaration order: `C07_struct_one_entry_per_component`) -/
def renderFields : List VMember → List LField → Option (List RExpr)
  | [], [] => some []
  | .mk _ mty _ :: ms, .mk _ v :: fs =>
    match render mty (tyName title mty) v, renderFields ms fs with
    | some r, some rest => some (r :: rest)
    | _, _ => none
  | [], _ :: _ => none
  | _ :: _, [] => none
def renderElems (e : VTy) : List LVal → Option (List RExpr)
  | [] => some []
  | v :: rest =>
    match render e none v, renderElems e rest with
    | some r, some rs => some (r :: rs)
    | _, _ => none
end

/-- `assignment!`: the newtype of the governing type around the expression (none when it is written in line) -/
def wrapName (name : Option String) (e : RExpr) : RExpr :=
  match name with
  | some n => .wrap (title n) e
  | none => e

/-- the composite arms of `generate_value` for `v N ::= …` (`name = some N`, `body` = what `N` is defined as) or
    `v SEQUENCE OF … ::= …` (`name = none`, `body` the type itself) -/
def renderAssignment (name : Option String) (body : VTy) : LVal → Option RExpr
  | .struct fs => render title enumId body (name.map title) (.struct fs)
  | .choice a v =>
    -- behind a reference the linker leaves a `LinkedNestedValue` (its last name popped for the enum): the wrapper arm
    if (strip body).1.isEmpty then render title enumId body (name.map title) (.choice a v)
    else (render title enumId body none (.choice a v)).map (wrapName title name)
  | .nested sup v => (render title enumId body (sup.getLast?.map title) (.nested sup v)).map (wrapName title name)
  | .arr xs => (render title enumId body none (.arr xs)).map (wrapName title name)
  | .atom _ => none        -- the leaf arms (`generate_integer_value`, the primitive templates) are not modelled
/-- the type name `format_default_methods` hands over: the member's type -/
def defaultName (ty : VTy) : Option String := tyName title ty

end

/-! ### what a rendered expression denotes (reading of the Rust expression: a newtype constructor is
    transparent, `T::new` is positional, `T::alt(e)` is the alternative, `vec!` a list) -/

inductive PVal where
  | atom (a : Atom)
  | tuple (xs : List PVal)
  | list (xs : List PVal)
  | choice (alt : String) (v : PVal)
  deriving Inhabited

mutual
def evalR : RExpr → PVal
  | .lit a => .atom a
  | .wrap _ e => evalR e
  | .new _ args => .tuple (evalArgs args)
  | .variant _ alt e => .choice alt (evalR e)
  | .vec xs => .list (evalArgs xs)
def evalArgs : List RExpr → List PVal
  | [] => []
  | e :: rest => evalR e :: evalArgs rest
end

mutual
/-- positional view of an abstract value: component names dropped (order = declaration order), alternative names
    spelled as Rust variants -/
def pos (enumId : String → String) : AbsVal → PVal
  | .atom a => .atom a
  | .record fs => .tuple (posFields enumId fs)
  | .list xs => .list (posList enumId xs)
  | .choice a v => .choice (enumId a) (pos enumId v)
def posFields (enumId : String → String) : List AbsField → List PVal
  | [] => []
  | .mk _ v :: rest => pos enumId v :: posFields enumId rest
def posList (enumId : String → String) : List AbsVal → List PVal
  | [] => []
  | v :: rest => pos enumId v :: posList enumId rest
end

end Gen.Values

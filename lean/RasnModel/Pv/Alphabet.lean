import RasnModel.Pv.Fold
/-
  Model of permitted-alphabet handling (per_visible.rs: PerVisibleAlphabetConstraints::try_new,
  from_subtype_elem incl. `flatten_set`, the character arms of fold_constraint_set,
  intersect_single_and_range, union_single_and_range, ASN1Value::min/max by table index,
  AddAssign, finalize; generator/rasn/utils.rs format_alphabet_annotations).
  Characters are code points (Nat); a character table is a list (index = position) or a code-point
  interval with the surrogates removed (`(lo..hi).filter_map(char::from_u32).enumerate()`).
-/
namespace Alpha

inductive Table where
  | explicit (cs : List Nat)
  /-- `lo..=hi` without D800–DFFF -/
  | interval (lo hi : Nat)
  deriving Repr

def isSurrogate (c : Nat) : Bool := 0xD800 ≤ c && c ≤ 0xDFFF

def Table.len : Table → Nat
  | .explicit cs => cs.length
  | .interval lo hi => if hi < lo then 0 else
      let n := hi - lo + 1
      -- surrogates inside [lo, hi]
      let sLo := max lo 0xD800
      let sHi := min hi 0xDFFF
      if sLo ≤ sHi then n - (sHi - sLo + 1) else n

/-- `find_char_index` -/
def Table.index : Table → Nat → Option Nat
  | .explicit cs, c => cs.idxOf? c
  | .interval lo hi, c =>
      if c < lo || hi < c || isSurrogate c then none
      else
        let before := if lo ≤ 0xD800 && 0xDFFF < c then (min c 0xE000 - max lo 0xD800) else 0
        some (c - lo - before)

/-- `char_set.get(&i)` -/
def Table.get : Table → Nat → Option Nat
  | .explicit cs, i => cs[i]?
  | .interval lo hi, i =>
      let c := lo + i
      let c := if lo ≤ 0xD800 && 0xD800 ≤ c then c + 0x800 else c
      if c ≤ hi then some c else none

def Table.contains (t : Table) (c : Nat) : Bool := (t.index c).isSome

inductive AElem where
  | str (s : List Nat) (ext : Bool)
  /-- endpoints are one-character strings; `none` = MIN / MAX -/
  | range (lo hi : Option Nat) (ext : Bool)
  deriving Repr, DecidableEq, Inhabited

/-- right-nested set operation inside `FROM( … )` -/
inductive ASet where
  | elem : AElem → ASet
  | op : AElem → Pv.Op → ASet → ASet
  deriving Repr, Inhabited

inductive Subset where
  | single (c : Nat)
  | range (lo hi : Option Nat)
  deriving Repr, DecidableEq, Inhabited

/-- `Result<Option<_>, GrammarError>` -/
inductive Res (α : Type) where
  | ok (v : α)
  | none      -- Ok(None): not PER-visible / no contribution
  | err       -- GrammarError
  deriving Repr, Inhabited

/-- lexer/time.rs `t_string`: a quoted string over `0-9+-:.,/CDHMRPSTWYZ` with a digit and a non-digit is
    lexed as a TIME value (`asn1_value` tries `time_value` before `character_string_value`) -/
def tstringChars : List Nat := "0123456789+-:.,/CDHMRPSTWYZ".toList.map Char.toNat
def isTString (s : List Nat) : Bool :=
  !s.isEmpty && s.all tstringChars.contains && s.any (fun c => 48 ≤ c && c ≤ 57) && s.any (fun c => !(48 ≤ c && c ≤ 57))

/-- `from_subtype_elem` for SingleValue / ValueRange -/
def subsetsOfElem (t : Table) : AElem → Res (List Subset)
  | .str s false =>
      if isTString s then .none   -- SingleValue { value: Time(..) } is not a String: no contribution
      else if s.all t.contains then .ok (s.map Subset.single) else .err
  | .str _ true => .none
  | .range _ _ true => .none
  | .range lo hi false =>
      let lower : Option Nat := match lo with | some c => t.index c | none => some 0
      let upper : Option Nat := match hi with | some c => t.index c | none => some (t.len - 1)
      match lower, upper with
      | some l, some u => if l > u then .err else .ok [Subset.range (t.get l) (t.get u)]
      | _, _ => .err

/-- `flatten_set`: base and every operand, operators ignored -/
def flatten : ASet → List AElem
  | .elem e => [e]
  | .op base _ operant => base :: flatten operant

/-- `from_subtype_elem(PermittedAlphabet(inner))`: the subsets of all operands appended -/
def subsetsOfFrom (t : Table) (s : ASet) : Res (List Subset) :=
  (flatten s).foldl (fun acc e => match acc, subsetsOfElem t e with
      | .ok a, .ok b => .ok (a ++ b)
      | .ok a, .none => .ok a
      | .err, _ => .err
      | _, .err => .err
      | .none, x => x) (.ok [])

-- the character arms of fold_constraint_set (reached through `FROM(..) ^ SIZE(..)` in ONE constraint) ----

/-- `ASN1Value::min/max` on one-character strings: compare by table index; `none` = error -/
def pickByIndex (t : Table) (wantMin : Bool) (a b : Nat) : Option Nat :=
  match t.index a, t.index b with
  | some ia, some ib => if (if wantMin then ia ≤ ib else ia ≥ ib) then some a else some b
  | _, _ => none

/-- `compare_optional_asn1values` with a fallible predicate -/
def cmpOptC (f : Nat → Nat → Option Nat) : Option Nat → Option Nat → Res (Option Nat)
  | some a, some b => match f a b with | some c => .ok (some c) | none => .err
  | none, some b => .ok (some b)
  | some a, none => .ok (some a)
  | none, none => .ok none

/-- `union_optional_asn1values` -/
def unionOptC (f : Nat → Nat → Option Nat) : Option Nat → Option Nat → Res (Option Nat)
  | some a, some b => match f a b with | some c => .ok (some c) | none => .err
  | _, _ => .ok none

def minByIdx (t : Table) (l : List (Nat × Nat)) : Option Nat :=   -- (char, index); first minimal (`min_by`)
  l.foldl (fun acc ci => match acc with
    | none => some ci
    | some b => if ci.2 < b.2 then some ci else some b) none |>.map (·.1)
def maxByIdx (t : Table) (l : List (Nat × Nat)) : Option Nat :=   -- last maximal (`max_by`)
  l.foldl (fun acc ci => match acc with
    | none => some ci
    | some b => if ci.2 ≥ b.2 then some ci else some b) none |>.map (·.1)

/-- `intersect_single_and_range` (String arm with a char set) -/
def interStrRange (t : Table) (s : List Nat) (lo hi : Option Nat) (x : Bool) : Res AElem :=
  if x then .none else
  match s.mapM (fun c => (t.index c).map (fun i => (c, i))) with
  | none => .err
  | some idx =>
    match cmpOptC (pickByIndex t false) (minByIdx t idx) lo, cmpOptC (pickByIndex t true) (maxByIdx t idx) hi with
    | .ok mn, .ok mx => .ok (.range mn mx false)
    | _, _ => .err

def isContiguous : List Nat → Bool
  | [] => true
  | [_] => true
  | a :: b :: r => b == a + 1 && isContiguous (b :: r)

/-- `union_single_and_range` (String arm, both bounds present) -/
def unionStrRange (t : Table) (s : List Nat) (lo hi : Option Nat) (x : Bool) : Res AElem :=
  if x then .none else
  match lo, hi with
  | some lo, some hi =>
    match t.index lo, t.index hi, s.mapM t.index with
    | some mi, some ma, some si =>
      -- BTreeSet of the string's indices and `min_i..max_i` (upper end exclusive)
      let set := (si ++ (List.range (ma - mi)).map (· + mi)).eraseDups.mergeSort
      if isContiguous set then
        match set.head?, set.getLast? with
        | some a, some b => .ok (.range (t.get a) (t.get b) false)
        | _, _ => .err      -- `indices[0]` on an empty set panics; unreachable for non-empty strings
      else
        .ok (.str (s ++ ((List.range (ma + 1 - mi)).filterMap (fun k => t.get (k + mi)))) false)
    | _, _, _ => .err
  | _, _ => .err            -- open-ended range with a string: "Unsupported operation"

def interA (t : Table) : AElem → AElem → Res AElem
  | .str s1 x1, .str s2 x2 =>
      if x1 || x2 then .none else
      let p := s2.filter (fun c => s1.contains c)
      if p.isEmpty then .err else .ok (.str p false)
  | .str s x1, .range lo hi x2 => interStrRange t s lo hi (x1 || x2)
  | .range lo hi x2, .str s x1 => interStrRange t s lo hi (x1 || x2)
  | .range a b x1, .range c d x2 =>
      match cmpOptC (pickByIndex t false) a c, cmpOptC (pickByIndex t true) b d with
      | .ok mn, .ok mx => .ok (.range mn mx (x1 || x2))
      | _, _ => .err

def unionA (t : Table) : AElem → AElem → Res AElem
  | .str s1 x1, .str s2 x2 => .ok (.str (s2 ++ s1.filter (fun c => !s2.contains c)) (x1 || x2))
  | .range lo hi x1, .str s x2 => unionStrRange t s lo hi (x1 || x2)
  | .str s x1, .range lo hi x2 => unionStrRange t s lo hi (x1 || x2)
  | .range a b x1, .range c d x2 =>
      match unionOptC (pickByIndex t true) a c, unionOptC (pickByIndex t false) b d with
      | .ok mn, .ok mx => .ok (.range mn mx (x1 || x2))
      | _, _ => .err

/-- `fold_constraint_set(s, Some(char_set), false)` on character operands -/
def foldA (t : Table) : ASet → Res AElem
  | .elem e => .ok e
  | .op base o operant =>
    match foldA t operant with
    | .err => .err
    | .none =>
      -- folded operant is None
      (match o with
        | .inter => .ok base
        | .union => .none
        | .except => .ok base)
    | .ok f =>
      match o with
      | .inter => interA t base f
      | .union => unionA t base f
      | .except => .ok base

-- the same set folded WITHOUT a character set (the SIZE side of `FROM(..) ^ SIZE(..)`:
-- per_visible_range_constraints → fold_constraint_set(s, None, true)); only its failure matters --------

/-- shape of a folded element without char set: `none` = Ok(None) -/
def interNC : AElem → AElem → Res AElem
  | .str s1 x1, .str s2 x2 =>
      if x1 || x2 then .none else
      let p := s2.filter (fun c => s1.contains c)
      if p.isEmpty then .err else .ok (.str p false)
  | .str _ _, .range _ _ _ => .none
  | .range _ _ _, .str _ _ => .none
  | .range a b x1, .range c d x2 =>
      -- min/max of two strings without a character set is an error
      if (a.isSome && c.isSome) || (b.isSome && d.isSome) then .err
      else .ok (.range (a.or c) (b.or d) (x1 || x2))

def unionNC : AElem → AElem → Res AElem
  | .str s1 x1, .str s2 x2 => .ok (.str (s2 ++ s1.filter (fun c => !s2.contains c)) (x1 || x2))
  | .range _ _ _, .str _ _ => .none
  | .str _ _, .range _ _ _ => .none
  | .range a b x1, .range c d x2 =>
      if (a.isSome && c.isSome) || (b.isSome && d.isSome) then .err
      else .ok (.range none none (x1 || x2))

def foldNC : ASet → Res AElem
  | .elem e => .ok e
  | .op base o operant =>
    match foldNC operant with
    | .err => .err
    | .none => (match o with | .inter => .ok base | .union => .none | .except => .ok base)
    | .ok f =>
      match o with
      | .inter => interNC base f
      | .union => unionNC base f
      | .except => .ok base

def ASet.elems : ASet → List AElem
  | .elem e => [e]
  | .op b _ r => b :: r.elems

/-- how the FROM part reaches the alphabet -/
inductive FromForm where
  /-- `(FROM(X))` as a constraint of its own (also next to a serial SIZE constraint): flatten path -/
  | standalone
  /-- `(FROM(X) ^ SIZE(..))` / `(SIZE(..) ^ FROM(X))` in one constraint: fold path -/
  | withSize
  deriving Repr, DecidableEq

/-- subsets contributed by one FROM constraint -/
def subsetsOfCons (t : Table) (form : FromForm) (x : ASet) : Res (List Subset) :=
  match form with
  | .standalone => subsetsOfFrom t x
  | .withSize =>
    match foldNC x, foldA t x with
    | .err, _ => .err          -- the size annotation of the same constraint cannot be computed
    | _, .err => .err
    | _, .none => .none
    | _, .ok e => subsetsOfElem t e

/-- stable insertion sort by key (`sort_by_key` is stable) -/
def insertByKey (key : Subset → Nat) (x : Subset) : List Subset → List Subset
  | [] => [x]
  | y :: ys => if key x < key y then x :: y :: ys else y :: insertByKey key x ys

def sortByKey (key : Subset → Nat) (l : List Subset) : List Subset :=
  l.foldl (fun acc x => insertByKey key x acc) []

/-- `finalize`: sort by starting character (`from.unwrap_or('\0')`) -/
def subsetKey : Subset → Nat
  | .single c => c
  | .range lo _ => lo.getD 0

/-- `format_alphabet_annotations`: serial constraints are appended (`+=`), then sorted; empty ⇒ no annotation.
    `none` = GrammarError -/
def fromAttr (t : Table) (knownMultiplier : Bool) (cs : List (FromForm × ASet)) (sizeFolded : Bool := true) : Option (List Subset) :=
  -- the size side of a `FROM ^ SIZE` constraint is folded for type assignments of every string type,
  -- for components only of the known-multiplier types (format_member_or_option)
  if sizeFolded && cs.any (fun fx => fx.1 == .withSize && (match foldNC fx.2 with | .err => true | _ => false)) then none else
  if !knownMultiplier then some [] else
  let r := cs.foldl (fun acc fx => match acc, subsetsOfCons t fx.1 fx.2 with
      | some a, .ok b => some (a ++ b)
      | some a, .none => some a
      | _, _ => none) (some [])
  r.map (sortByKey subsetKey)

end Alpha

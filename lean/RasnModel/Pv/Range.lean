/-
  Model of `PerVisibleRangeConstraints` (intermediate/encoding_rules/per_visible.rs):
  the accumulator, `AddAssign` (serial constraints), and the per-element conversion.
-/
namespace Pv

structure PvRange where
  min : Option Int
  max : Option Int
  ext : Bool
  isSize : Bool
  deriving Repr, DecidableEq, Inhabited

/-- `PerVisibleRangeConstraints::default()` -/
def PvRange.default : PvRange := ⟨none, none, false, false⟩
/-- `default_unsigned()` -/
def PvRange.defaultUnsigned : PvRange := ⟨some 0, none, false, false⟩

/-- `Option<i128>::max`: `None` is smaller than every `Some`. -/
def optMaxNoneLow : Option Int → Option Int → Option Int
  | none, b => b
  | a, none => a
  | some a, some b => some (max a b)

/-- the `match (self.max, rhs.max)` of `add_assign` -/
def optMinNoneHigh : Option Int → Option Int → Option Int
  | some a, some b => some (min a b)
  | none, some m => some m
  | some m, none => some m
  | none, none => none

/-- `impl AddAssign for PerVisibleRangeConstraints` -/
def PvRange.addAssign (s r : PvRange) : PvRange :=
  { min := optMaxNoneLow s.min r.min
    max := optMinNoneHigh s.max r.max
    ext := s.ext || r.ext
    isSize := s.isSize || r.isSize }

end Pv

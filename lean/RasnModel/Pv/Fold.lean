import RasnModel.Pv.Range
/-
  Model of the PER-visible fold for integer-valued operands
  (intermediate/encoding_rules/per_visible.rs: fold_constraint_set, intersect_single_and_range,
  union_single_and_range, compare_optional_asn1values, union_optional_asn1values (since the `fix:`
  commit for C04), TryFrom<&Constraint>, per_visible_range_constraints) and of the lexer's
  association of a chain `e0 op1 e1 op2 e2 …` (lexer/constraint.rs set_operation: right-nested,
  no precedence). Character operands belong to C15.
-/
namespace Pv

inductive Elem where
  | single (v : Int) (ext : Bool)
  | range (lo hi : Option Int) (ext : Bool)
  deriving Repr, DecidableEq, Inhabited

inductive Op where | inter | union | except
  deriving Repr, DecidableEq, Inhabited

/-- `SetOperation { base, operator, operant }` / `ElementOrSetOperation` -/
inductive SetOp where
  | elem : Elem → SetOp
  | op : Elem → Op → SetOp → SetOp
  deriving Repr, Inhabited

/-- the chain as written: first element, then (operator, element) pairs -/
structure Chain where
  first : Elem
  rest : List (Op × Elem)
  deriving Repr, Inhabited

/-- lexer `set_operation`: `subtype_elements set_operator (set_operation | subtype_elements)` -/
def nestFrom (e : Elem) : List (Op × Elem) → SetOp
  | [] => .elem e
  | (o, e') :: rest => .op e o (nestFrom e' rest)

def nest (c : Chain) : SetOp := nestFrom c.first c.rest

/-- `compare_optional_asn1values` -/
def cmpOpt (f : Int → Int → Int) : Option Int → Option Int → Option Int
  | some a, some b => some (f a b)
  | none, some b => some b
  | some a, none => some a
  | none, none => none

/-- `union_optional_asn1values` -/
def unionOpt (f : Int → Int → Int) : Option Int → Option Int → Option Int
  | some a, some b => some (f a b)
  | _, _ => none

/-- Intersection arms of `fold_constraint_set` (integers); `none` = GrammarError -/
def interElem : Elem → Elem → Option Elem
  | .single v1 x1, .single v2 x2 => if v1 ≠ v2 then none else some (.single v2 (x1 || x2))
  | .single v x1, .range _ _ x2 => some (.single v (x1 || x2))
  | .range _ _ x2, .single v x1 => some (.single v (x1 || x2))
  | .range a b x1, .range c d x2 => some (.range (cmpOpt max a c) (cmpOpt min b d) (x1 || x2))

/-- Union arms of `fold_constraint_set` (integers) -/
def unionElem : Elem → Elem → Elem
  | .single v1 x1, .single v2 x2 => .range (some (min v2 v1)) (some (max v2 v1)) (x1 || x2)
  | .range a b x1, .single v x2 => .range (unionOpt min (some v) a) (unionOpt max (some v) b) (x1 || x2)
  | .single v x1, .range a b x2 => .range (unionOpt min (some v) a) (unionOpt max (some v) b) (x1 || x2)
  | .range a b x1, .range c d x2 => .range (unionOpt min a c) (unionOpt max b d) (x1 || x2)

def Elem.ext : Elem → Bool
  | .single _ x => x
  | .range _ _ x => x

def Elem.orExt (e : Elem) (m : Bool) : Elem :=
  match e with
  | .single v x => .single v (x || m)
  | .range a b x => .range a b (x || m)

/-- `fold_constraint_set`: the operant is folded first (errors propagate), then combined with the base;
    EXCEPT keeps the base and ignores everything to its right, except for the extension marker
    (`marker_follows`, since the `fix:` commit for C04) -/
def fold : SetOp → Option Elem
  | .elem e => some e
  | .op base o operant =>
    match fold operant with
    | none => none
    | some f =>
      match o with
      | .inter => interElem base f
      | .union => some (unionElem base f)
      | .except => some (base.orExt f.ext)

/-- `TryFrom<Option<&SubtypeElements>>` for single / range -/
def elemPv (isSize : Bool) : Elem → PvRange
  | .single v x => ⟨some v, some v, x, isSize⟩
  | .range lo hi x => ⟨lo, hi, x, isSize⟩

/-- one constraint as the IR has it -/
structure Cons where
  set : SetOp
  /-- `ElementSetSpecs.extensible` (a marker the element parsers did not already consume) -/
  outerExt : Bool
  /-- the set is the body of `SIZE( … )` -/
  isSize : Bool
  /-- `ALL EXCEPT …`: lexed as a non-PER-visible constraint, filtered out -/
  allExcept : Bool := false
  deriving Repr, Inhabited

/-- `TryFrom<&Constraint>` -/
def consPv (c : Cons) : Option PvRange :=
  match fold c.set with
  | none => none
  | some e =>
    let r := elemPv c.isSize e
    some (if c.outerExt && (r.min.or r.max).isSome then { r with ext := true } else r)

/-- `per_visible_range_constraints(signed, cs)` -/
def perVisibleRange (signed : Bool) (cs : List Cons) : Option PvRange :=
  (cs.filter (fun c => !c.allExcept)).foldl
    (fun acc c => match acc, consPv c with
      | some a, some r => some (a.addAssign r)
      | _, _ => none)
    (some (if signed then PvRange.default else PvRange.defaultUnsigned))

/-- what `format_range_annotations` emits: `none` = no annotation -/
structure RangeAttr where
  isSize : Bool
  lo : Option Int
  hi : Option Int
  ext : Bool
  deriving Repr, DecidableEq, Inhabited

def rangeAttr (signed : Bool) (cs : List Cons) : Option (Option RangeAttr) :=
  if cs.isEmpty then some none else
  -- the implicit lower bound 0 only applies to sizes (since the `fix:` commit for C04): a value
  -- constraint folded from the unsigned default is folded again from the signed default
  let folded := match perVisibleRange signed cs with
    | some r => if !signed && !r.isSize then perVisibleRange true cs else some r
    | none => none
  match folded with
  | none => none
  | some r =>
    -- default size constraint `size(0..)` is suppressed
    if r.isSize && !r.ext && r.min == some 0 && r.max.isNone then some none
    else if r.min.isNone && r.max.isNone then some none
    else some (some ⟨r.isSize, r.min, r.max, r.ext⟩)

end Pv

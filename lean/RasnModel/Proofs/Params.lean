import RasnModel.Link.Params
/- lemmas about scopes and reference following (Link/Params) -/
namespace Proofs.Params
open Link.Params

@[simp] theorem follow_lit (s : Scope) (f : Nat) (n : Int) : follow s f (.lit n) = .lit n := by
  cases f <;> simp [follow]

theorem follow_mono (s : Scope) : ∀ (f : Nat) (v : Val) (k : Int), follow s f v = .lit k → follow s (f + 1) v = .lit k := by
  intro f
  induction f with
  | zero =>
    intro v k h
    cases v with
    | lit n => simpa using h
    | ref x => simp [follow] at h
  | succ f ih =>
    intro v k h
    cases v with
    | lit n => simpa using h
    | ref x =>
      simp only [follow] at h ⊢
      cases hl : lookup s x with
      | none => simp [hl] at h
      | some v' =>
        simp only [hl] at h ⊢
        exact ih v' k h

theorem lookup_append (a b : Scope) (x : String) : lookup (a ++ b) x = (lookup a x).or (lookup b x) := by
  unfold lookup
  rw [List.find?_append]
  cases List.find? (fun d => d.1 == x) a <;> simp

theorem lookup_hide_of_not_mem (formals : List String) (s : Scope) (x : String) (h : x ∉ formals) :
    lookup (hide formals s) x = lookup s x := by
  induction s with
  | nil => simp [lookup, hide]
  | cons d ds ih =>
    unfold lookup hide at ih ⊢
    rw [List.filter_cons]
    cases hd : (d.1 == x) with
    | true =>
      have e : d.1 = x := by simpa using hd
      have hk : (!formals.contains d.1) = true := by simp [e, h]
      rw [if_pos hk, List.find?_cons, List.find?_cons, hd]
    | false =>
      by_cases hk : (!formals.contains d.1) = true
      · rw [if_pos hk, List.find?_cons, List.find?_cons, hd]
        exact ih
      · rw [if_neg hk, List.find?_cons, hd]
        exact ih

theorem lookup_hide_of_mem (formals : List String) (s : Scope) (x : String) (h : x ∈ formals) :
    lookup (hide formals s) x = none := by
  unfold lookup hide
  rw [List.find?_filter]
  simp only [Option.map_eq_none_iff, List.find?_eq_none]
  intro d _
  by_cases hd : (d.1 == x) = true
  · have : d.1 = x := by simpa using hd
    simp [this, h]
  · simp [hd]

theorem lookup_resolveChains (m : Scope) (x : String) :
    lookup (resolveChains m) x = (lookup m x).map (follow m (fuelOf m)) := by
  unfold lookup resolveChains
  rw [List.find?_map]
  simp [Function.comp_def, Option.map_map]

theorem lookup_zip_of_not_mem : ∀ (formals : List String) (vs : List Val) (x : String), x ∉ formals →
    lookup (formals.zip vs) x = none := by
  intro formals
  induction formals with
  | nil => intro vs x _; simp [lookup]
  | cons f fs ih =>
    intro vs x h
    cases vs with
    | nil => simp [lookup]
    | cons v vs =>
      have hne : (f == x) = false := by
        have : f ≠ x := fun e => h (by simp [e])
        simpa using this
      have hx : x ∉ fs := fun e => h (List.mem_cons_of_mem _ e)
      have := ih vs x hx
      simp only [lookup, List.zip_cons_cons, List.find?_cons, hne] at this ⊢
      exact this

theorem lookup_zip_map : ∀ (formals : List String) (args : List Val) (g : Val → Val) (x : String),
    lookup (formals.zip (args.map g)) x = (lookup (formals.zip args) x).map g := by
  intro formals
  induction formals with
  | nil => intro args g x; simp [lookup]
  | cons f fs ih =>
    intro args g x
    cases args with
    | nil => simp [lookup]
    | cons a as =>
      have := ih as g x
      simp only [lookup, List.map_cons, List.zip_cons_cons, List.find?_cons] at this ⊢
      by_cases hf : (f == x) = true
      · simp [hf]
      · simp only [hf]; exact this

theorem lookup_zip_of_mem : ∀ (formals : List String) (args : List Val) (x : String), x ∈ formals →
    formals.length = args.length → ∃ a ∈ args, lookup (formals.zip args) x = some a := by
  intro formals
  induction formals with
  | nil => intro args x h; simp at h
  | cons f fs ih =>
    intro args x h hl
    cases args with
    | nil => simp at hl
    | cons a as =>
      by_cases hf : (f == x) = true
      · exact ⟨a, by simp, by simp [lookup, hf]⟩
      · have hx : x ∈ fs := by
          rcases List.mem_cons.mp h with e | e
          · exact absurd (by simp [e]) hf
          · exact e
        obtain ⟨a', ha', hl'⟩ := ih as x hx (by simpa using hl)
        refine ⟨a', List.mem_cons_of_mem _ ha', ?_⟩
        simp only [lookup, List.zip_cons_cons, List.find?_cons, hf] at hl' ⊢
        exact hl'

end Proofs.Params

import RasnModel.Ts.Strings
/- helper lemmas for Props/C07 (TypeScript string constants) -/
namespace Ts.Strings

theorem readBody_plain (c : Char) (rest : List Char) (h1 : c ≠ '"') (h2 : c ≠ '\\') (h3 : c ≠ '\n') (h4 : c ≠ '\r') :
    readBody (c :: rest) = (readBody rest).map fun (s, r) => (c :: s, r) := by
  rw [readBody]
  · simp [h3, h4]
  · intro hr; exact h1 hr
  · intro c' r hc _; exact h2 hc
  · intro hc _; exact h2 hc

theorem readBody_escape : ∀ (s rest : List Char), readBody (escape s ++ '"' :: rest) = some (s, rest)
  | [], rest => by simp [escape, readBody]
  | c :: cs, rest => by
    have ih := readBody_escape cs rest
    by_cases h1 : c = '"'
    · subst h1; simp [escape, escChar, readBody, ih, unescape]
    · by_cases h2 : c = '\\'
      · subst h2; simp [escape, escChar, readBody, ih, unescape]
      · by_cases h3 : c = '\n'
        · subst h3; simp [escape, escChar, readBody, ih, unescape]
        · by_cases h4 : c = '\r'
          · subst h4; simp [escape, escChar, readBody, ih, unescape]
          · simp only [escape, escChar, beq_iff_eq, h1, h2, h3, h4, if_false, List.cons_append, List.nil_append]
            rw [readBody_plain c _ h1 h2 h3 h4, ih]; rfl

theorem readLiteral_stringLiteral (s rest : List Char) : readLiteral (stringLiteral s ++ rest) = some (s, rest) := by
  simp [stringLiteral, readLiteral, readBody_escape]

end Ts.Strings

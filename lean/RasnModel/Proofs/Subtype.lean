import RasnModel.Spec.Subtype
/- helper lemmas for Props/C04 -/
namespace Proofs.Subtype
open Pv Spec.Subtype

theorem cmpOpt_max (a b : Option Int) : cmpOpt max a b = optMax a b := by
  cases a <;> cases b <;> rfl
theorem cmpOpt_min (a b : Option Int) : cmpOpt min a b = optMin a b := by
  cases a <;> cases b <;> rfl
theorem unionOpt_min (a b : Option Int) : unionOpt min a b = joinLo a b := by
  cases a <;> cases b <;> rfl
theorem unionOpt_max (a b : Option Int) : unionOpt max a b = joinHi a b := by
  cases a <;> cases b <;> rfl

/-- the interval a fold result stands for -/
abbrev ivOf (e : Elem) : Iv := elemIv e

theorem nonempty_meet_left (a b : Iv) (h : (a.meet b).nonempty = true) : b.nonempty = true := by
  cases a with | mk al ah =>
  cases b with | mk bl bh =>
  cases al <;> cases ah <;> cases bl <;> cases bh <;>
    simp [Iv.meet, Iv.nonempty, optMax, optMin] at h ⊢ <;> omega

/-- intersection arm: when the true intersection is non-empty, `interElem` computes it -/
theorem interElem_meet (a b : Elem) (h : ((ivOf a).meet (ivOf b)).nonempty = true) :
    ∃ r, interElem a b = some r ∧ ivOf r = (ivOf a).meet (ivOf b) := by
  cases a with
  | single v1 x1 =>
    cases b with
    | single v2 x2 =>
      simp only [ivOf, elemIv, Iv.meet, optMax, optMin, Iv.nonempty, decide_eq_true_eq] at h
      have : v1 = v2 := by omega
      subst this
      refine ⟨.single v1 (x1 || x2), by simp [interElem], ?_⟩
      simp [ivOf, elemIv, Iv.meet, optMax, optMin]
    | range lo hi x2 =>
      refine ⟨_, rfl, ?_⟩
      cases lo <;> cases hi <;>
        simp [ivOf, elemIv, Iv.meet, optMax, optMin, Iv.nonempty] at h ⊢ <;> omega
  | range lo hi x1 =>
    cases b with
    | single v x2 =>
      refine ⟨_, rfl, ?_⟩
      cases lo <;> cases hi <;>
        simp [ivOf, elemIv, Iv.meet, optMax, optMin, Iv.nonempty] at h ⊢ <;> omega
    | range lo2 hi2 x2 =>
      exact ⟨_, rfl, by simp [ivOf, elemIv, Iv.meet, cmpOpt_max, cmpOpt_min]⟩

/-- union arm: `unionElem` computes the hull of the two intervals (after the fix: open ends stay open) -/
theorem unionElem_join (a b : Elem) (ha : (ivOf a).nonempty = true) (hb : (ivOf b).nonempty = true) :
    ivOf (unionElem a b) = (ivOf a).join (ivOf b) := by
  cases a with
  | single v1 x1 =>
    cases b with
    | single v2 x2 =>
      simp only [unionElem, ivOf, elemIv, Iv.join, joinLo, joinHi, Iv.mk.injEq, Option.some.injEq]
      constructor <;> omega
    | range lo hi x2 =>
      simp only [unionElem, ivOf, elemIv, Iv.join, unionOpt_min, unionOpt_max]
  | range lo hi x1 =>
    cases b with
    | single v x2 =>
      simp only [unionElem, ivOf, elemIv, Iv.join, unionOpt_min, unionOpt_max, Iv.mk.injEq]
      constructor
      · cases lo <;> simp [joinLo]; omega
      · cases hi <;> simp [joinHi]; omega
    | range lo2 hi2 x2 =>
      simp only [unionElem, ivOf, elemIv, Iv.join, unionOpt_min, unionOpt_max]

theorem join_nonempty (a b : Iv) (ha : a.nonempty = true) (hb : b.nonempty = true) : (a.join b).nonempty = true := by
  cases a with | mk al ah =>
  cases b with | mk bl bh =>
  cases al <;> cases ah <;> cases bl <;> cases bh <;>
    simp [Iv.join, Iv.nonempty, joinLo, joinHi] at ha hb ⊢ <;> omega

theorem orExt_iv (e : Elem) (m : Bool) : ivOf (e.orExt m) = ivOf e := by
  cases e <;> rfl

/-- shape of the chains on which right-nesting coincides with X.680 precedence:
    `… | … | … ^ … ^ … [EXCEPT x]` -/
def domX : List (Op × Elem) → Bool
  | [] => true
  | [(.except, _)] => true
  | _ => false

def domI : List (Op × Elem) → Bool
  | (.inter, _) :: r => domI r
  | r => domX r

def domU : List (Op × Elem) → Bool
  | (.union, _) :: r => domU r
  | r => domI r

theorem domX_fold (f : Factor) (rest : List (Op × Elem)) (h : domX rest = true) :
    (∃ r, fold (nestFrom f.elem rest) = some r ∧ ivOf r = ivOf f.elem) ∧
    (∃ f', parseF f rest = [[f']] ∧ f'.elem = f.elem) := by
  match rest, h with
  | [], _ => exact ⟨⟨f.elem, rfl, rfl⟩, ⟨f, rfl, rfl⟩⟩
  | [(.except, x)], _ =>
    refine ⟨⟨_, rfl, ?_⟩, ⟨_, rfl, rfl⟩⟩
    simp only [orExt_iv]

/-- intersection chains: one group, and the fold yields its interval -/
theorem domI_fold : ∀ (rest : List (Op × Elem)) (f : Factor), domI rest = true →
    ∃ grp, parseF f rest = [grp] ∧ (∃ f' tl, grp = f' :: tl ∧ f'.elem = f.elem) ∧
      ((groupIv grp).nonempty = true → ∃ r, fold (nestFrom f.elem rest) = some r ∧ ivOf r = groupIv grp) := by
  intro rest
  induction rest with
  | nil =>
    intro f _
    refine ⟨[f], rfl, ⟨f, [], rfl, rfl⟩, ?_⟩
    intro _
    refine ⟨f.elem, rfl, ?_⟩
    cases hf : elemIv f.elem with | mk lo hi =>
    cases lo <;> cases hi <;> simp [ivOf, groupIv, Iv.meet, hf, optMax, optMin]
  | cons oe r ih =>
    intro f h
    obtain ⟨o, e⟩ := oe
    cases o with
    | inter =>
      have hr : domI r = true := by simpa [domI] using h
      obtain ⟨grp, hp, ⟨f', tl, hg, hf'⟩, hfold⟩ := ih ⟨e, []⟩ hr
      refine ⟨f :: grp, by simp [parseF, hp], ⟨f, grp, rfl, rfl⟩, ?_⟩
      intro hne
      simp only [groupIv] at hne
      have hne' := nonempty_meet_left _ _ hne
      obtain ⟨r', hr', hiv⟩ := hfold hne'
      have hm : ((ivOf f.elem).meet (ivOf r')).nonempty = true := by rw [hiv]; exact hne
      obtain ⟨r'', hi, hiv'⟩ := interElem_meet f.elem r' hm
      refine ⟨r'', ?_, ?_⟩
      · simp only [nestFrom, fold]
        rw [hr']; exact hi
      · rw [hiv', hiv]; rfl
    | union => simp [domI, domX] at h
    | except =>
      have hx : r = [] := by
        cases r with
        | nil => rfl
        | cons a b => simp [domI, domX] at h
      subst hx
      refine ⟨[{ f with excl := f.excl ++ [e] }], rfl, ⟨_, [], rfl, rfl⟩, ?_⟩
      intro _
      refine ⟨_, rfl, ?_⟩
      simp only [orExt_iv]
      cases hf : elemIv f.elem with | mk lo hi =>
      cases lo <;> cases hi <;> simp [ivOf, groupIv, Iv.meet, hf, optMax, optMin]

end Proofs.Subtype

import RasnModel.Basic.SortedMap
/- invariants of the BTreeMap model: sortedness, and permutation-invariance of `ofList` on distinct keys -/
namespace Proofs.SortedMap
open _root_.SMap Std

variable {κ : Type} {α : Type} [Ord κ] [TransOrd κ] [LawfulEqOrd κ]

theorem mem_insert (k : κ) (v : α) : ∀ (m : List (κ × α)) (x : κ × α), x ∈ ins k v m → x = (k, v) ∨ x ∈ m := by
  intro m
  induction m with
  | nil => intro x h; simp [ins] at h; exact Or.inl h
  | cons a t ih =>
    intro x h
    obtain ⟨k', v'⟩ := a
    simp only [ins] at h
    split at h
    · rcases List.mem_cons.mp h with e | e
      · exact Or.inl e
      · exact Or.inr e
    · rcases List.mem_cons.mp h with e | e
      · exact Or.inl e
      · exact Or.inr (List.mem_cons_of_mem _ e)
    · rcases List.mem_cons.mp h with e | e
      · exact Or.inr (by rw [e]; exact List.mem_cons_self)
      · rcases ih x e with e' | e'
        · exact Or.inl e'
        · exact Or.inr (List.mem_cons_of_mem _ e')

theorem insert_sorted (k : κ) (v : α) : ∀ (m : List (κ × α)), Sorted m → Sorted (ins k v m) := by
  intro m
  induction m with
  | nil => intro _; simp [ins, Sorted]
  | cons a t ih =>
    intro hs
    obtain ⟨k', v'⟩ := a
    simp only [Sorted, List.pairwise_cons] at hs
    simp only [ins]
    split
    · rename_i hlt
      simp only [Sorted, List.pairwise_cons]
      refine ⟨?_, hs⟩
      intro b hb
      rcases List.mem_cons.mp hb with e | e
      · rw [e]; exact hlt
      · exact TransCmp.lt_trans hlt (hs.1 b e)
    · rename_i heq
      have hk : k = k' := LawfulEqOrd.eq_of_compare heq
      subst hk
      simp only [Sorted, List.pairwise_cons]
      exact ⟨hs.1, hs.2⟩
    · rename_i hgt
      have hlt : compare k' k = .lt := OrientedCmp.lt_of_gt hgt
      simp only [Sorted, List.pairwise_cons]
      refine ⟨?_, ih hs.2⟩
      intro b hb
      rcases mem_insert k v t b hb with e | e
      · rw [e]; exact hlt
      · exact hs.1 b e

/-- inserting a fresh key only adds the pair -/
theorem insert_perm (k : κ) (v : α) : ∀ (m : List (κ × α)), k ∉ keys m → (ins k v m).Perm ((k, v) :: m) := by
  intro m
  induction m with
  | nil => intro _; simp [ins]
  | cons a t ih =>
    intro hk
    obtain ⟨k', v'⟩ := a
    simp only [keys, List.map_cons, List.mem_cons, not_or] at hk
    simp only [ins]
    split
    · exact List.Perm.refl _
    · rename_i heq
      exact absurd (LawfulEqOrd.eq_of_compare heq) hk.1
    · have := ih hk.2
      exact (List.Perm.cons _ this).trans (List.Perm.swap _ _ _)

/-- `insR` is `ins` together with what `ins` overwrites -/
theorem insR_fst (k : κ) (v : α) : ∀ (m : List (κ × α)), (insR k v m).1 = ins k v m := by
  intro m
  induction m with
  | nil => rfl
  | cons a t ih =>
    obtain ⟨k', v'⟩ := a
    simp only [insR, ins]
    split <;> simp_all

/-- nothing is lost by an insert: the new map's values plus the value it reports as replaced are the old
    values plus the new one (no sortedness needed) -/
theorem insR_perm (k : κ) (v : α) : ∀ (m : List (κ × α)),
    ((insR k v m).1.map (·.2) ++ (insR k v m).2.toList).Perm (v :: m.map (·.2)) := by
  intro m
  induction m with
  | nil => simp [insR]
  | cons a t ih =>
    obtain ⟨k', v'⟩ := a
    simp only [insR]
    split
    · simp
    · simp only [List.map_cons, Option.toList_some]
      refine (List.perm_append_comm).trans ?_
      simp only [List.singleton_append]
      exact List.Perm.swap _ _ _
    · simp only [List.map_cons, List.cons_append]
      exact (List.Perm.cons v' ih).trans (List.Perm.swap _ _ _)

/-- a fresh key replaces nothing -/
theorem insR_none (k : κ) (v : α) : ∀ (m : List (κ × α)), k ∉ keys m → (insR k v m).2 = none := by
  intro m
  induction m with
  | nil => intro _; rfl
  | cons a t ih =>
    intro hk
    obtain ⟨k', v'⟩ := a
    simp only [keys, List.map_cons, List.mem_cons, not_or] at hk
    simp only [insR]
    split
    · rfl
    · rename_i heq
      exact absurd (LawfulEqOrd.eq_of_compare heq) hk.1
    · exact ih hk.2

theorem ofList_sorted_aux : ∀ (l m : List (κ × α)), Sorted m → Sorted (l.foldl (fun m kv => ins kv.1 kv.2 m) m) := by
  intro l
  induction l with
  | nil => intro m h; exact h
  | cons a t ih => intro m h; exact ih _ (insert_sorted a.1 a.2 m h)

/-- the map is always key-sorted -/
theorem ofList_sorted (l : List (κ × α)) : Sorted (ofList l) :=
  ofList_sorted_aux l [] (by simp [Sorted])

theorem keys_perm {a b : List (κ × α)} (h : a.Perm b) : (keys a).Perm (keys b) := h.map _

theorem ofList_perm_aux : ∀ (l m : List (κ × α)), (keys (m ++ l)).Nodup →
    (l.foldl (fun m kv => ins kv.1 kv.2 m) m).Perm (m ++ l) := by
  intro l
  induction l with
  | nil => intro m _; simp
  | cons a t ih =>
    intro m hn
    simp only [List.foldl_cons]
    have hk : a.1 ∉ keys m := by
      simp only [keys, List.map_append, List.map_cons] at hn
      have := (List.nodup_append.mp hn).2.2
      intro hm
      exact this a.1 hm a.1 List.mem_cons_self rfl
    have hp := insert_perm a.1 a.2 m hk
    have hn' : (keys (ins a.1 a.2 m ++ t)).Nodup := by
      have p : (ins a.1 a.2 m ++ t).Perm (m ++ a :: t) := by
        have : (a.1, a.2) = a := rfl
        rw [this] at hp
        exact (hp.append_right t).trans (by simpa using (List.perm_middle (a := a) (l₁ := m) (l₂ := t)).symm)
      exact (keys_perm p).nodup_iff.mpr hn
    have := ih _ hn'
    refine this.trans ?_
    have : (a.1, a.2) = a := rfl
    rw [this] at hp
    exact (hp.append_right t).trans (by simpa using (List.perm_middle (a := a) (l₁ := m) (l₂ := t)).symm)

/-- with distinct keys the map holds exactly the given pairs -/
theorem ofList_perm (l : List (κ × α)) (h : (keys l).Nodup) : (ofList l).Perm l := by
  have := ofList_perm_aux l [] (by simpa using h)
  simpa [ofList] using this

/-- `collect()` into a BTreeMap does not depend on the order of the input when the keys are distinct -/
theorem ofList_eq_of_perm (l l' : List (κ × α)) (hp : l.Perm l') (h : (keys l).Nodup) : ofList l = ofList l' := by
  have h' : (keys l').Nodup := (keys_perm hp).nodup_iff.mp h
  have p : (ofList l).Perm (ofList l') := (ofList_perm l h).trans (hp.trans (ofList_perm l' h').symm)
  have s1 : (ofList l).Pairwise (fun (a b : κ × α) => compare a.1 b.1 = .lt) := ofList_sorted l
  have s2 : (ofList l').Pairwise (fun (a b : κ × α) => compare a.1 b.1 = .lt) := ofList_sorted l'
  refine List.Perm.eq_of_pairwise (le := fun (a b : κ × α) => compare a.1 b.1 = .lt) ?_ s1 s2 p
  intro a b _ _ h1 h2
  exact absurd (OrientedCmp.gt_of_lt h1) (by rw [h2]; simp)

end Proofs.SortedMap

import RasnModel.Link.Values
/- helper lemmas for Props/C07 (composite values) -/
namespace Link.Values

@[simp] theorem absL_wrap (sup : List String) (x : LVal) : absL (wrap sup x) = absL x := by
  unfold wrap; split <;> simp [absL]

theorem core_of_strip {ty : VTy} {sup c} (h : strip ty = (sup, c)) : core ty = c := by
  simp [core, h]

/-- every given field names a component (first loop of `link_struct_like`) -/
theorem linkGiven_names (ms : List VMember) : ∀ (fs : List SField) given, linkGiven ms fs = some given →
    ∀ f, f ∈ fs → ∃ t, findMember ms f.name = some t
  | [], _, _, f, hf => by cases hf
  | .mk n v :: rest, given, h, f, hf => by
    simp only [linkGiven] at h
    split at h
    · rename_i mty hm
      split at h
      · rename_i l r hl hr
        cases hf with
        | head => exact ⟨mty, hm⟩
        | tail _ hf' => exact linkGiven_names ms rest r hr f hf'
      · cases h
    · cases h

/-- nothing is found under a name that no given field carries -/
theorem linkGiven_none (ms : List VMember) : ∀ (fs : List SField) given, linkGiven ms fs = some given →
    ∀ n, findGiven given n = none → ∀ v, SField.mk (some n) v ∉ fs
  | [], _, _, _, _, _ => by simp
  | .mk n' v' :: rest, given, h, n, hn, v => by
    simp only [linkGiven] at h
    split at h
    · split at h
      · rename_i l r hl hr
        cases h
        simp only [findGiven] at hn
        split at hn
        · cases hn
        · rename_i hne
          intro hmem
          cases hmem with
          | head => simp at hne
          | tail _ hm => exact linkGiven_none ms rest r hr n hn v hm
      · cases h
    · cases h

/-- second loop of `link_struct_like` against the reference reading -/
theorem assemble_denotes (all : List VMember) (fs : List SField) (given : List (Option String × LVal))
    (hg : ∀ n lv, findGiven given n = some lv →
      ∃ v gty, SField.mk (some n) v ∈ fs ∧ findMember all (some n) = some gty ∧ Denotes gty v (absL lv))
    (hn : ∀ n, findGiven given n = none → ∀ v, SField.mk (some n) v ∉ fs) :
    ∀ ms out, assemble given ms = some out → DenotesMembers all ms fs (absFields out)
  | [], out, h => by
    simp only [assemble] at h; cases h; exact .nil
  | .mk n mty d :: ms, out, h => by
    simp only [assemble] at h
    split at h
    · rename_i v rest hv hrest
      cases h
      simp only [absFields]
      cases hf : findGiven given n with
      | some lv =>
        simp [hf, Option.orElse] at hv
        subst hv
        obtain ⟨sv, gty, hmem, hty, hden⟩ := hg n lv hf
        exact .given hmem hty hden (assemble_denotes all fs given hg hn ms rest hrest)
      | none =>
        simp [hf, Option.orElse] at hv
        subst hv
        exact .dflt (hn n hf) (assemble_denotes all fs given hg hn ms rest hrest)
    · cases h

/-- with pairwise distinct names the component called `n` is the member itself -/
theorem findMember_self : ∀ (pre : List VMember) (n : String) (t : VTy) (d : Option LVal) (post : List VMember),
    (∀ m, m ∈ pre → m.name ≠ n) → findMember (pre ++ .mk n t d :: post) (some n) = some t
  | [], n, t, d, post, _ => by simp [findMember]
  | .mk n' t' d' :: pre, n, t, d, post, h => by
    have hne : n' ≠ n := h (.mk n' t' d') (List.mem_cons_self) 
    simp only [List.cons_append, findMember]
    have : (some n' == some n) = false := by simp [hne]
    rw [this]
    exact findMember_self pre n t d post (fun m hm => h m (List.mem_cons_of_mem _ hm))

end Link.Values

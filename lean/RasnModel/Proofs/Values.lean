import RasnModel.Link.Values
/- helper lemmas for Props/C07 (composite values) -/
namespace Link.Values

@[simp] theorem absL_wrap (sup : List String) (x : LVal) : absL (wrap sup x) = absL x := by
  unfold wrap; split <;> simp [absL]

theorem core_of_strip {ty : VTy} {sup c} (h : strip ty = (sup, c)) : core ty = c := by
  simp [core, h]

/-- every given field names a component (first loop of `link_struct_like`) -/
theorem linkGiven_names (ms : List VMember) : ∀ (fs : List SField) given, linkGiven ms fs = some given →
    ∀ f, f ∈ fs → ∃ t, findMember ms f.name = some t
  | [], _, _, f, hf => by cases hf
  | .mk n v :: rest, given, h, f, hf => by
    simp only [linkGiven] at h
    split at h
    · rename_i mty hm
      split at h
      · rename_i l r hl hr
        cases hf with
        | head => exact ⟨mty, hm⟩
        | tail _ hf' => exact linkGiven_names ms rest r hr f hf'
      · cases h
    · cases h

/-- nothing is found under a name that no given field carries -/
theorem linkGiven_none (ms : List VMember) : ∀ (fs : List SField) given, linkGiven ms fs = some given →
    ∀ n, findGiven given n = none → ∀ v, SField.mk (some n) v ∉ fs
  | [], _, _, _, _, _ => by simp
  | .mk n' v' :: rest, given, h, n, hn, v => by
    simp only [linkGiven] at h
    split at h
    · split at h
      · rename_i l r hl hr
        cases h
        simp only [findGiven] at hn
        split at hn
        · cases hn
        · rename_i hne
          intro hmem
          cases hmem with
          | head => simp at hne
          | tail _ hm => exact linkGiven_none ms rest r hr n hn v hm
      · cases h
    · cases h

/-- second loop of `link_struct_like` against the reference reading -/
theorem assemble_denotes (all : List VMember) (fs : List SField) (given : List (Option String × LVal))
    (hg : ∀ n lv, findGiven given n = some lv →
      ∃ v gty, SField.mk (some n) v ∈ fs ∧ findMember all (some n) = some gty ∧ Denotes gty v (absL lv))
    (hn : ∀ n, findGiven given n = none → ∀ v, SField.mk (some n) v ∉ fs) :
    ∀ ms out, assemble given ms = some out → DenotesMembers all ms fs (absFields out)
  | [], out, h => by
    simp only [assemble] at h; cases h; exact .nil
  | .mk n mty d :: ms, out, h => by
    simp only [assemble] at h
    split at h
    · rename_i v rest hv hrest
      cases h
      simp only [absFields]
      cases hf : findGiven given n with
      | some lv =>
        simp [hf, Option.orElse] at hv
        subst hv
        obtain ⟨sv, gty, hmem, hty, hden⟩ := hg n lv hf
        exact .given hmem hty hden (assemble_denotes all fs given hg hn ms rest hrest)
      | none =>
        simp [hf, Option.orElse] at hv
        subst hv
        exact .dflt (hn n hf) (assemble_denotes all fs given hg hn ms rest hrest)
    · cases h

/-- with pairwise distinct names the component called `n` is the member itself -/
theorem findMember_self : ∀ (pre : List VMember) (n : String) (t : VTy) (d : Option LVal) (post : List VMember),
    (∀ m, m ∈ pre → m.name ≠ n) → findMember (pre ++ .mk n t d :: post) (some n) = some t
  | [], n, t, d, post, _ => by simp [findMember]
  | .mk n' t' d' :: pre, n, t, d, post, h => by
    have hne : n' ≠ n := h (.mk n' t' d') (List.mem_cons_self) 
    simp only [List.cons_append, findMember]
    have : (some n' == some n) = false := by simp [hne]
    rw [this]
    exact findMember_self pre n t d post (fun m hm => h m (List.mem_cons_of_mem _ hm))

theorem wfFields_mem : ∀ (fs : List SField), wfFields fs → ∀ n v, SField.mk n v ∈ fs → wfVal v
  | [], _, _, _, h => by cases h
  | .mk n' v' :: rest, hw, n, v, h => by
    simp only [wfFields] at hw
    cases h with
    | head => exact hw.1
    | tail _ hm => exact wfFields_mem rest hw.2 n v hm

mutual
/-- **the reading is a function**: a value notation that names no component twice denotes at most one abstract value
    under a governing type -/
theorem denotes_unique : ∀ (v : SVal), wfVal v → ∀ (ty : VTy) (x y : AbsVal), Denotes ty v x → Denotes ty v y → x = y
  | .atom a, _, ty, x, y, hx, hy => by
    cases hx; cases hy; rfl
  | .choice a v, hw, ty, x, y, hx, hy => by
    cases hx with
    | choice hc1 hf1 hd1 =>
      cases hy with
      | choice hc2 hf2 hd2 =>
        rw [hc1] at hc2
        cases hc2
        rw [hf1] at hf2
        cases hf2
        rw [denotes_unique v (by simpa [wfVal] using hw) _ _ _ hd1 hd2]
  | .braces fs, hw, ty, x, y, hx, hy => by
    simp only [wfVal] at hw
    cases hx with
    | list hc1 ha1 =>
      cases hy with
      | list hc2 ha2 =>
        rw [hc1] at hc2; cases hc2
        rw [all_unique fs hw.2 _ _ _ ha1 ha2]
      | record hc2 _ _ => rw [hc1] at hc2; cases hc2
    | record hc1 hn1 hm1 =>
      cases hy with
      | list hc2 _ => rw [hc1] at hc2; cases hc2
      | record hc2 hn2 hm2 =>
        rw [hc1] at hc2; cases hc2
        rw [members_unique fs hw.1 hw.2 _ _ _ _ hm1 hm2]
theorem all_unique : ∀ (fs : List SField), wfFields fs → ∀ (e : VTy) (xs ys : List AbsVal), DenotesAll e fs xs → DenotesAll e fs ys → xs = ys
  | [], _, e, xs, ys, hx, hy => by cases hx; cases hy; rfl
  | .mk n v :: rest, hw, e, xs, ys, hx, hy => by
    simp only [wfFields] at hw
    cases hx with
    | cons h1 r1 =>
      cases hy with
      | cons h2 r2 =>
        rw [denotes_unique v hw.1 _ _ _ h1 h2, all_unique rest hw.2 _ _ _ r1 r2]
theorem members_unique : ∀ (fs : List SField), fieldsOnce fs → wfFields fs → ∀ (all ms : List VMember) (xs ys : List AbsField),
    DenotesMembers all ms fs xs → DenotesMembers all ms fs ys → xs = ys
  | fs, ho, hw, all, [], xs, ys, hx, hy => by cases hx; cases hy; rfl
  | fs, ho, hw, all, m :: ms, xs, ys, hx, hy => by
    cases hx with
    | given hm1 ht1 hd1 r1 =>
      cases hy with
      | given hm2 ht2 hd2 r2 =>
        have ev := ho _ _ _ hm1 hm2
        subst ev
        rw [ht1] at ht2; cases ht2
        have := denotes_unique _ (wfFields_mem fs hw _ _ hm1) _ _ _ hd1 hd2
        rw [this, members_unique fs ho hw all ms _ _ r1 r2]
      | dflt hno _ => exact absurd hm1 (hno _)
    | dflt hno1 r1 =>
      cases hy with
      | given hm2 _ _ _ => exact absurd hm2 (hno1 _)
      | dflt _ r2 => rw [members_unique fs ho hw all ms _ _ r1 r2]
end


end Link.Values

import RasnModel.Lexer.Enumerated
import RasnModel.Spec.Enumerated
/- helper lemmas for Props/C14 -/
namespace Proofs.Enum
open Lexer.Enum Spec.Enum

theorem skipAux_ge : ∀ (f : Nat) (U : List Int) (n : Int), n ≤ skipAux f U n := by
  intro f
  induction f with
  | zero => intro U n; simp [skipAux]
  | succ f ih =>
    intro U n
    simp only [skipAux]
    split
    · have := ih (U.erase n) (n + 1); omega
    · omega

theorem skipAux_between : ∀ (f : Nat) (U : List Int) (n m : Int), n ≤ m → m < skipAux f U n → m ∈ U := by
  intro f
  induction f with
  | zero => intro U n m h1 h2; simp [skipAux] at h2; omega
  | succ f ih =>
    intro U n m h1 h2
    simp only [skipAux] at h2
    split at h2
    · rename_i h
      by_cases e : m = n
      · subst e; exact h
      · exact List.mem_of_mem_erase (ih _ _ m (by omega) h2)
    · omega

theorem skipAux_not_mem : ∀ (f : Nat) (U : List Int) (n : Int), U.length ≤ f → skipAux f U n ∉ U := by
  intro f
  induction f with
  | zero =>
    intro U n h
    have : U = [] := List.eq_nil_of_length_eq_zero (by omega)
    subst this; simp
  | succ f ih =>
    intro U n hl
    simp only [skipAux]
    split
    · rename_i h
      intro hm
      have hge := skipAux_ge f (U.erase n) (n + 1)
      have hne : skipAux f (U.erase n) (n + 1) ≠ n := by omega
      have hlen : (U.erase n).length ≤ f := by
        have := List.length_erase_of_mem h
        have : 0 < U.length := List.length_pos_of_mem h
        omega
      exact ih _ _ hlen ((List.mem_erase_of_ne hne).mpr hm)
    · assumption

theorem skip_ge (U : List Int) (n : Int) : n ≤ skipUsed U n := skipAux_ge _ U n
theorem skip_between (U : List Int) (n : Int) : ∀ m, n ≤ m → m < skipUsed U n → m ∈ U :=
  fun m => skipAux_between _ U n m
theorem skip_not_mem (U : List Int) (n : Int) : skipUsed U n ∉ U := skipAux_not_mem _ U n (Nat.le_refl _)

theorem allUsedBetween_iff (U : List Int) (lo v : Int) :
    allUsedBetween U lo v = true ↔ ∀ m, lo ≤ m → m < v → m ∈ U := by
  unfold allUsedBetween
  simp only [List.all_eq_true, List.mem_range, List.contains_iff_mem]
  constructor
  · intro h m h1 h2
    have := h (m - lo).toNat (by omega)
    have e : lo + ((m - lo).toNat : Int) = m := by omega
    rw [e] at this; exact this
  · intro h i hi
    exact h _ (by omega) (by omega)

/-- invariant of the root pass -/
structure RootInv (E prev : List Int) (next : Int) : Prop where
  nonneg : 0 ≤ next
  below : ∀ p ∈ prev, p < next
  dense : ∀ m, 0 ≤ m → m < next → m ∈ E ∨ m ∈ prev

theorem rootInv_step {E prev : List Int} {next : Int} (h : RootInv E prev next) :
    RootInv E (skipUsed E next :: prev) (skipUsed E next + 1) := by
  have hge := skip_ge E next
  refine ⟨by have := h.nonneg; omega, ?_, ?_⟩
  · intro p hp
    rcases List.mem_cons.mp hp with e | e
    · omega
    · have := h.below p e; omega
  · intro m h0 hm
    by_cases c : m < next
    · rcases h.dense m h0 c with x | x
      · exact Or.inl x
      · exact Or.inr (List.mem_cons_of_mem _ x)
    · by_cases c2 : m = skipUsed E next
      · right; rw [c2]; exact List.mem_cons_self
      · left; exact skip_between E next m (by omega) (by omega)

theorem checkRoot_model (E : List Int) : ∀ (root : List (Option Int)) (prev : List Int) (next : Int),
    RootInv E prev next → checkRoot E prev root (numberRootAux E next root) = true := by
  intro root
  induction root with
  | nil => intro prev next _; simp [numberRootAux, checkRoot]
  | cons it rest ih =>
    intro prev next inv
    cases it with
    | some n => simp [numberRootAux, checkRoot, ih prev next inv]
    | none =>
      have hge := skip_ge E next
      have hnm := skip_not_mem E next
      have inv' := rootInv_step inv
      simp only [numberRootAux, checkRoot, Bool.and_eq_true, ih _ _ inv', and_true]
      refine ⟨⟨⟨?_, ?_⟩, ?_⟩, ?_⟩
      · have := inv.nonneg; simp; omega
      · simpa using hnm
      · simp only [List.all_eq_true, decide_eq_true_eq]
        intro p hp; have := inv.below p hp; omega
      · rw [allUsedBetween_iff]
        intro m h0 hm
        rw [List.mem_append]
        by_cases c : m < next
        · exact inv.dense m h0 c
        · exact Or.inl (skip_between E next m (by omega) hm)

/-- any numbering accepted by the root checker is the model's (exactness) -/
theorem checkRoot_unique (E : List Int) : ∀ (root : List (Option Int)) (prev : List Int) (next : Int) (vs : List Int),
    RootInv E prev next → checkRoot E prev root vs = true → vs = numberRootAux E next root := by
  intro root
  induction root with
  | nil =>
    intro prev next vs _ h
    cases vs with
    | nil => rfl
    | cons _ _ => simp [checkRoot] at h
  | cons it rest ih =>
    intro prev next vs inv h
    cases vs with
    | nil => cases it <;> simp [checkRoot] at h
    | cons v vs =>
      cases it with
      | some n =>
        simp only [checkRoot, Bool.and_eq_true, beq_iff_eq] at h
        simp only [numberRootAux]
        rw [h.1, ih prev next vs inv h.2]
      | none =>
        simp only [checkRoot, Bool.and_eq_true, decide_eq_true_eq, Bool.not_eq_true', List.all_eq_true] at h
        obtain ⟨⟨⟨⟨h0, hE⟩, hprev⟩, hdense⟩, hrest⟩ := h
        rw [allUsedBetween_iff] at hdense
        have hE' : v ∉ E := by simpa using hE
        have hvn : next ≤ v := by
          apply Decidable.byContradiction; intro c
          rcases inv.dense v h0 (by omega) with x | x
          · exact hE' x
          · have := hprev v x; omega
        have hk : v = skipUsed E next := by
          have hge := skip_ge E next
          apply Decidable.byContradiction; intro c
          by_cases c2 : v < skipUsed E next
          · exact hE' (skip_between E next v hvn c2)
          · have := hdense (skipUsed E next) (by have := inv.nonneg; omega) (by omega)
            rcases List.mem_append.mp this with x | x
            · exact skip_not_mem E next x
            · have := inv.below _ x; omega
        simp only [numberRootAux]
        subst hk
        rw [ih _ _ vs (rootInv_step inv) hrest]

/-- relation between the `Option` running maximum of the model and the list of preceding additions -/
def IsMax : Option Int → List Int → Prop
  | none, l => l = []
  | some p, l => p ∈ l ∧ ∀ q ∈ l, q ≤ p

theorem isMax_bump {prev : Option Int} {l : List Int} (v : Int) (h : IsMax prev l) :
    IsMax (bump prev v) (v :: l) := by
  cases prev with
  | none => simp only [IsMax] at h; subst h; simp [bump, IsMax]
  | some p =>
    simp only [IsMax] at h
    simp only [bump, IsMax]
    refine ⟨?_, ?_⟩
    · by_cases c : p ≤ v
      · have : max p v = v := by omega
        rw [this]; exact List.mem_cons_self
      · have : max p v = p := by omega
        rw [this]; exact List.mem_cons_of_mem _ h.1
    · intro q hq
      rcases List.mem_cons.mp hq with e | e
      · omega
      · have := h.2 q e; omega

theorem checkAdds_model (R : List Int) : ∀ (adds : List (Option Int)) (prev : Option Int) (l : List Int),
    IsMax prev l → checkAdds R l adds (numberAddsAux R prev adds) = true := by
  intro adds
  induction adds with
  | nil => intro prev l _; simp [numberAddsAux, checkAdds]
  | cons it rest ih =>
    intro prev l hm
    cases it with
    | some n => simp [numberAddsAux, checkAdds, ih _ _ (isMax_bump n hm)]
    | none =>
      simp only [numberAddsAux]
      have hge := skip_ge R (candOf prev)
      have hnm := skip_not_mem R (candOf prev)
      have h0 : 0 ≤ candOf prev := by cases prev <;> simp [candOf]; omega
      simp only [checkAdds, Bool.and_eq_true, ih _ _ (isMax_bump _ hm), and_true]
      refine ⟨⟨⟨?_, ?_⟩, ?_⟩, ?_⟩
      · simp; omega
      · simpa using hnm
      · simp only [List.all_eq_true, decide_eq_true_eq]
        intro q hq
        cases prev with
        | none => simp only [IsMax] at hm; subst hm; simp at hq
        | some p => have := hm.2 q hq; simp only [candOf] at hge ⊢; omega
      · simp only [List.all_eq_true, List.mem_range, Bool.or_eq_true, List.contains_iff_mem, List.any_eq_true, decide_eq_true_eq]
        intro i hi
        by_cases c : candOf prev ≤ (i : Int)
        · left; exact skip_between R _ _ c (by omega)
        · right
          cases prev with
          | none => simp only [candOf] at c; omega
          | some p => exact ⟨p, hm.1, by simp only [candOf] at c; omega⟩

theorem checkAdds_unique (R : List Int) : ∀ (adds : List (Option Int)) (prev : Option Int) (l : List Int) (vs : List Int),
    IsMax prev l → checkAdds R l adds vs = true → vs = numberAddsAux R prev adds := by
  intro adds
  induction adds with
  | nil =>
    intro prev l vs _ h
    cases vs with
    | nil => rfl
    | cons _ _ => simp [checkAdds] at h
  | cons it rest ih =>
    intro prev l vs hm h
    cases vs with
    | nil => cases it <;> simp [checkAdds] at h
    | cons v vs =>
      cases it with
      | some n =>
        simp only [checkAdds, Bool.and_eq_true, beq_iff_eq] at h
        simp only [numberAddsAux]
        obtain ⟨h1, h2⟩ := h
        subst h1
        rw [ih _ _ vs (isMax_bump v hm) h2]
      | none =>
        simp only [checkAdds, Bool.and_eq_true, decide_eq_true_eq, Bool.not_eq_true', List.all_eq_true,
          List.mem_range, Bool.or_eq_true, List.contains_iff_mem, List.any_eq_true] at h
        obtain ⟨⟨⟨⟨h0, hR⟩, hprev⟩, hmin⟩, hrest⟩ := h
        have hR' : v ∉ R := by simpa using hR
        have hcv : candOf prev ≤ v := by
          cases prev with
          | none => simpa [candOf] using h0
          | some p => have := hprev p hm.1; simp only [candOf]; omega
        have hge := skip_ge R (candOf prev)
        have hk : v = skipUsed R (candOf prev) := by
          apply Decidable.byContradiction; intro c
          by_cases c2 : v < skipUsed R (candOf prev)
          · exact hR' (skip_between R _ v hcv c2)
          · have hk0 : 0 ≤ skipUsed R (candOf prev) := by
              have : 0 ≤ candOf prev := by cases prev <;> simp [candOf]; omega
              omega
            have := hmin (skipUsed R (candOf prev)).toNat (by omega)
            have e : (((skipUsed R (candOf prev)).toNat : Nat) : Int) = skipUsed R (candOf prev) := by omega
            rw [e] at this
            rcases this with x | ⟨q, hq, hle⟩
            · exact skip_not_mem R _ x
            · cases prev with
              | none => simp only [IsMax] at hm; subst hm; simp at hq
              | some p => have := hm.2 q hq; simp only [candOf] at hge hle ⊢; omega
        simp only [numberAddsAux]
        subst hk
        rw [ih _ _ vs (isMax_bump _ hm) hrest]

end Proofs.Enum

import RasnModel.Lexer.Lines
/- helper lemmas for Props/C07 (character strings written over several lines) -/
namespace Lexer.Lines

theorem splitNl_ne_nil : ∀ s, splitNl s ≠ []
  | [] => by simp [splitNl]
  | c :: cs => by
    simp only [splitNl]
    split
    · simp
    · split <;> simp

theorem splitNl_noNl : ∀ (l : List Char), (∀ c ∈ l, isNl c = false) → splitNl l = [l]
  | [], _ => rfl
  | c :: cs, h => by
    simp only [splitNl, h c List.mem_cons_self, Bool.false_eq_true, if_false,
      splitNl_noNl cs (fun x hx => h x (List.mem_cons_of_mem _ hx))]

theorem splitNl_line : ∀ (l : List Char) (nl : Char) (rest : List Char), (∀ c ∈ l, isNl c = false) → isNl nl = true →
    splitNl (l ++ nl :: rest) = l :: splitNl rest
  | [], nl, rest, _, hn => by simp [splitNl, hn]
  | c :: cs, nl, rest, h, hn => by
    simp only [List.cons_append, splitNl, h c List.mem_cons_self, Bool.false_eq_true, if_false,
      splitNl_line cs nl rest (fun x hx => h x (List.mem_cons_of_mem _ hx)) hn]

theorem trimStart_pad : ∀ (q l : List Char), (∀ c ∈ q, isSp c = true) → (∀ c, l.head? = some c → isSp c = false) →
    trimStart (q ++ l) = l
  | [], l, _, hl => by
    cases l with
    | nil => rfl
    | cons c t => simp [trimStart, List.dropWhile, hl c rfl]
  | c :: q, l, hq, hl => by
    simp only [trimStart, List.cons_append, List.dropWhile, hq c List.mem_cons_self]
    exact trimStart_pad q l (fun x hx => hq x (List.mem_cons_of_mem _ hx)) hl

theorem trimEnd_pad (l p : List Char) (hp : ∀ c ∈ p, isSp c = true) (hl : ∀ c, l.getLast? = some c → isSp c = false) :
    trimEnd (l ++ p) = l := by
  unfold trimEnd
  rw [List.reverse_append]
  have := trimStart_pad p.reverse l.reverse (by simpa using hp) (by simpa [List.head?_reverse] using hl)
  unfold trimStart at this
  rw [this, List.reverse_reverse]

end Lexer.Lines
namespace Lexer.Lines

/-- one line break inside a string: spacing before it, the end-of-line character, indentation after it, and the
    text of the next line -/
structure Break where
  padBefore : List Char
  nl : Char
  padAfter : List Char
  text : List Char

def seg (b : Break) : List Char := b.padBefore ++ b.nl :: (b.padAfter ++ b.text)

/-- the string as written over several lines -/
def layout (l0 : List Char) (bs : List Break) : List Char := l0 ++ bs.flatMap seg
/-- the string it stands for (X.680 12.14.1) -/
def content (l0 : List Char) (bs : List Break) : List Char := l0 ++ bs.flatMap (·.text)

def allSp (l : List Char) : Prop := ∀ c ∈ l, isSp c = true
def noNl (l : List Char) : Prop := ∀ c ∈ l, isNl c = false
def startOk (l : List Char) : Prop := ∀ c, l.head? = some c → isSp c = false
def endOk (l : List Char) : Prop := ∀ c, l.getLast? = some c → isSp c = false

def BreakOk (b : Break) : Prop :=
  allSp b.padBefore ∧ isNl b.nl = true ∧ allSp b.padAfter ∧ noNl b.text ∧ startOk b.text ∧ endOk b.text

theorem sp_not_nl (c : Char) (h : isSp c = true) : isNl c = false := by
  simp only [isSp, Bool.or_eq_true, beq_iff_eq] at h
  rcases h with (h | h) | h <;> subst h <;> decide

theorem dropWhile_allSp : ∀ (l : List Char), allSp l → l.dropWhile isSp = []
  | [], _ => rfl
  | c :: t, h => by
    simp only [List.dropWhile, h c List.mem_cons_self]
    exact dropWhile_allSp t (fun x hx => h x (List.mem_cons_of_mem _ hx))

theorem trim_both (q t p : List Char) (hq : allSp q) (hp : allSp p) (hs : startOk t) (he : endOk t) :
    trimEnd (trimStart (q ++ (t ++ p))) = t := by
  cases t with
  | nil =>
    have : allSp (q ++ ([] ++ p)) := by
      intro c hc; simp at hc; exact hc.elim (hq c) (hp c)
    have h2 : allSp (q ++ p) := by simpa using this
    simp [trimStart, trimEnd, dropWhile_allSp _ h2]
  | cons c t' =>
    rw [trimStart_pad q _ hq (by intro x hx; simp at hx; subst hx; exact hs c rfl)]
    exact trimEnd_pad _ p hp he

theorem join_layout : ∀ (bs : List Break) (first : Bool) (q t : List Char),
    (∀ b ∈ bs, BreakOk b) → allSp q → (first = true → q = []) → noNl t → startOk t ∨ first = true → endOk t →
    joinPieces first (splitNl (q ++ (t ++ bs.flatMap seg))) = t ++ bs.flatMap (·.text)
  | [], first, q, t, _, hq, hf, hn, hs, _ => by
    have hnn : noNl (q ++ t) := by
      intro c hc; simp at hc; exact hc.elim (fun h => sp_not_nl c (hq c h)) (hn c)
    simp only [List.flatMap_nil, List.append_nil]
    rw [splitNl_noNl _ hnn]
    cases first with
    | true => simp [joinPieces, hf rfl]
    | false =>
      simp only [joinPieces, Bool.false_eq_true, if_false]
      exact trimStart_pad q t hq (hs.elim id (fun h => by cases h))
  | b :: bs, first, q, t, hb, hq, hf, hn, hs, he => by
    obtain ⟨hpb, hnl, hpa, htn, hts, hte⟩ := hb b List.mem_cons_self
    have hline : noNl (q ++ (t ++ b.padBefore)) := by
      intro c hc; simp at hc
      rcases hc with h | h | h
      · exact sp_not_nl c (hq c h)
      · exact hn c h
      · exact sp_not_nl c (hpb c h)
    have hshape : q ++ (t ++ (b :: bs).flatMap seg) =
        (q ++ (t ++ b.padBefore)) ++ b.nl :: (b.padAfter ++ (b.text ++ bs.flatMap seg)) := by
      simp [seg, List.append_assoc]
    rw [hshape, splitNl_line _ _ _ hline hnl]
    have ih := join_layout bs false b.padAfter b.text (fun x hx => hb x (List.mem_cons_of_mem _ hx)) hpa
      (by intro h; cases h) htn (Or.inl hts) hte
    cases hsp : splitNl (b.padAfter ++ (b.text ++ bs.flatMap seg)) with
    | nil => exact absurd hsp (splitNl_ne_nil _)
    | cons p ps =>
      rw [hsp] at ih
      simp only [joinPieces, ih, List.flatMap_cons]
      have hhead : trimEnd (if first = true then q ++ (t ++ b.padBefore) else trimStart (q ++ (t ++ b.padBefore))) = t := by
        cases first with
        | true =>
          simp only [if_true, hf rfl, List.nil_append]
          exact trimEnd_pad t _ hpb he
        | false =>
          simp only [Bool.false_eq_true, if_false]
          exact trim_both q t _ hq hpb (hs.elim id (fun h => by cases h)) he
      rw [hhead]

/-- however a string is broken over lines — any spacing before each line break, any end-of-line character, any
    indentation after it, blank lines included — it stands for the concatenation of its lines -/
theorem joinLines_layout (l0 : List Char) (bs : List Break) (h0 : noNl l0) (he : endOk l0) (hb : ∀ b ∈ bs, BreakOk b) :
    joinLines (layout l0 bs) = content l0 bs := by
  have := join_layout bs true [] l0 hb (by intro c hc; cases hc) (fun _ => rfl) h0 (Or.inr rfl) he
  simpa [joinLines, layout, content] using this

/-- a string written on one line is left alone -/
theorem joinLines_one_line (s : List Char) (h : noNl s) : joinLines s = s := by
  simp [joinLines, splitNl_noNl s h, joinPieces]

end Lexer.Lines

import RasnModel.Link.Recursion
/-
  Proofs about the recursion analysis (Link/Recursion.lean):
  (1) `go` decides reachability of `name` through members that are not marked;
  (2) after `markAll`, no SEQUENCE / SET / CHOICE lies on a cycle of unmarked (= unboxed) inline
      references — for every set of definitions.
-/
namespace Link.Recursion

/-- an inline reference that a search follows: `a` is defined and mentions `b` in an unmarked member -/
def Edge (env : Env) (a b : String) : Prop := ∃ d, env.lookup a = some d ∧ b ∈ succ d

/-- `name` can be reached from a reference by following edges -/
inductive Reach (env : Env) (name : String) : String → Prop
  | here : Reach env name name
  | step {a b : String} : Edge env a b → Reach env name b → Reach env name a

/-- every successor of an entered definition from which `name` can be reached has been entered or is
    waiting on the stack -/
def Inv (env : Env) (name : String) (vis stack : List String) : Prop :=
  (∀ v ∈ vis, ∀ w, Edge env v w → Reach env name w → w ∈ vis ∨ w ∈ stack) ∧ name ∉ vis

theorem go_sound (name : String) (env : Env) (vis stack : List String) :
    go name env vis stack = true → ∃ r ∈ stack, Reach env name r := by
  fun_induction go name env vis stack with
  | case1 vis => intro h; cases h
  | case2 vis r rest hv ih =>
    intro h
    obtain ⟨x, hx, hr⟩ := ih h
    exact ⟨x, List.mem_cons_of_mem _ hx, hr⟩
  | case3 vis r rest hv hn =>
    intro _
    have : r = name := by simpa using hn
    exact ⟨r, List.mem_cons_self, this ▸ Reach.here⟩
  | case4 vis r rest hv hn hl ih =>
    intro h
    obtain ⟨x, hx, hr⟩ := ih h
    exact ⟨x, List.mem_cons_of_mem _ hx, hr⟩
  | case5 vis r rest hv hn d hl ih =>
    intro h
    obtain ⟨x, hx, hr⟩ := ih h
    rcases List.mem_append.mp hx with hx | hx
    · exact ⟨r, List.mem_cons_self, Reach.step ⟨d, hl, hx⟩ hr⟩
    · exact ⟨x, List.mem_cons_of_mem _ hx, hr⟩

/-- under the invariant, if nothing waiting reaches `name` then nothing entered does -/
theorem closed (name : String) (env : Env) (vis stack : List String) (hi : Inv env name vis stack)
    (hs : ∀ r ∈ stack, ¬ Reach env name r) : ∀ v, Reach env name v → v ∉ vis := by
  intro v hr
  induction hr with
  | here => exact hi.2
  | step he hb ih =>
    intro hv
    rcases hi.1 _ hv _ he hb with h | h
    · exact ih h
    · exact hs _ h hb

theorem go_complete (name : String) (env : Env) (vis stack : List String) :
    Inv env name vis stack → go name env vis stack = false → ∀ r ∈ stack, ¬ Reach env name r := by
  fun_induction go name env vis stack with
  | case1 vis => intro _ _ r hr; cases hr
  | case2 vis r rest hv ih =>
    intro hi h
    have hv' : r ∈ vis := by simpa using hv
    have hi' : Inv env name vis rest := by
      refine ⟨fun v hvv w he hw => ?_, hi.2⟩
      rcases hi.1 v hvv w he hw with h | h
      · exact Or.inl h
      · rcases List.mem_cons.mp h with h | h
        · exact Or.inl (h ▸ hv')
        · exact Or.inr h
    have hrest := ih hi' h
    intro x hx
    rcases List.mem_cons.mp hx with hx | hx
    · subst hx
      intro hr
      exact closed name env vis rest hi' hrest _ hr hv'
    · exact hrest x hx
  | case3 vis r rest hv hn => intro _ h; cases h
  | case4 vis r rest hv hn hl ih =>
    intro hi h
    have hne : r ≠ name := by simpa using hn
    -- `r` is not defined: it has no edges and is not `name`
    have hr : ¬ Reach env name r := by
      intro hr
      cases hr with
      | here => exact hne rfl
      | step he _ =>
        obtain ⟨d, hd, _⟩ := he
        rw [hl] at hd; cases hd
    have hi' : Inv env name vis rest := by
      refine ⟨fun v hvv w he hw => ?_, hi.2⟩
      rcases hi.1 v hvv w he hw with h | h
      · exact Or.inl h
      · rcases List.mem_cons.mp h with h | h
        · exact absurd (h ▸ hw) hr
        · exact Or.inr h
    intro x hx
    rcases List.mem_cons.mp hx with hx | hx
    · exact hx ▸ hr
    · exact ih hi' h x hx
  | case5 vis r rest hv hn d hl ih =>
    intro hi h
    have hne : r ≠ name := by simpa using hn
    have hi' : Inv env name (r :: vis) (succ d ++ rest) := by
      refine ⟨fun v hvv w he hw' => ?_, ?_⟩
      · rcases List.mem_cons.mp hvv with hvv | hvv
        · subst hvv
          obtain ⟨d', hd', hw⟩ := he
          rw [hl] at hd'; cases hd'
          exact Or.inr (List.mem_append.mpr (Or.inl hw))
        · rcases hi.1 v hvv w he hw' with h | h
          · exact Or.inl (List.mem_cons_of_mem _ h)
          · rcases List.mem_cons.mp h with h | h
            · exact Or.inl (h ▸ List.mem_cons_self)
            · exact Or.inr (List.mem_append.mpr (Or.inr h))
      · intro hmem
        rcases List.mem_cons.mp hmem with h | h
        · exact hne h.symm
        · exact hi.2 h
    have hall := ih hi' h
    intro x hx
    rcases List.mem_cons.mp hx with hx | hx
    · subst hx
      intro hr
      exact closed name env (x :: vis) (succ d ++ rest) hi' hall _ hr List.mem_cons_self
    · exact hall x (List.mem_append.mpr (Or.inr hx))

end Link.Recursion

namespace Link.Recursion

/-! ### (1) one member: marked exactly when the definition under analysis can be reached -/

theorem inv_nil (env : Env) (name : String) (stack : List String) : Inv env name [] stack :=
  ⟨fun _ hv => (nomatch hv), fun h => (nomatch h)⟩

theorem go_iff (name : String) (env : Env) (refs : List String) :
    go name env [] refs = true ↔ ∃ r ∈ refs, Reach env name r := by
  constructor
  · exact go_sound name env [] refs
  · intro ⟨r, hr, hreach⟩
    cases hgo : go name env [] refs with
    | true => rfl
    | false => exact absurd hreach (go_complete name env [] refs (inv_nil env name refs) hgo r hr)

/-! ### (2) the whole pass -/

def keys (env : Env) : List String := env.map (·.1)

def Unmarked (d : Def) : Prop := ∀ m ∈ d.members, m.marked = false

def InitEnv (env : Env) : Prop := ∀ p ∈ env, Unmarked p.2

/-- `n` lies on a cycle of references that are followed inline -/
def OnCycle (env : Env) (n : String) : Prop := ∃ c, Edge env n c ∧ Reach env n c

theorem lookup_skip (done rest : Env) (n a : String) (d : Def) (h : a ≠ n) :
    (done ++ (n, d) :: rest).lookup a = (done ++ rest).lookup a := by
  induction done with
  | nil =>
    have : (a == n) = false := by simp [h]
    simp only [List.nil_append, List.lookup, this]
  | cons p t ih =>
    obtain ⟨k, v⟩ := p
    simp only [List.cons_append, List.lookup]
    split <;> simp_all

theorem lookup_mid (done rest : Env) (n : String) (d : Def) (h : n ∉ keys done) :
    (done ++ (n, d) :: rest).lookup n = some d := by
  induction done with
  | nil => simp [List.lookup]
  | cons p t ih =>
    obtain ⟨k, v⟩ := p
    have hk : n ≠ k := by
      intro e; apply h; simp [keys, e]
    have ht : n ∉ keys t := by
      intro e; apply h; simp only [keys, List.map_cons, List.mem_cons]; right; exact e
    have : (n == k) = false := by simp [hk]
    simp only [List.cons_append, List.lookup, this]
    exact ih ht

theorem succ_unmarked (d : Def) (h : Unmarked d) : succ d = d.members.flatMap (·.refs) := by
  unfold succ
  congr 1
  apply List.filter_eq_self.mpr
  intro m hm
  simp [h m hm]

theorem mem_succ_markDef (name : String) (env : Env) (d : Def) (b : String) (hb : b ∈ succ (markDef name env d)) :
    ∃ m ∈ d.members, b ∈ m.refs ∧ (d.markable = true → go name env [] m.refs = false) ∧
      (d.markable = false → m.marked = false) := by
  unfold markDef at hb
  by_cases hm : d.markable = true
  · simp only [hm, if_true, succ, List.mem_flatMap, List.mem_filter, List.mem_map] at hb
    obtain ⟨m', ⟨⟨m, hmem, rfl⟩, hmark⟩, hbm⟩ := hb
    refine ⟨m, hmem, hbm, fun _ => by simpa using hmark, fun h => by rw [hm] at h; cases h⟩
  · simp only [hm, Bool.false_eq_true, if_false, succ, List.mem_flatMap, List.mem_filter] at hb
    obtain ⟨m, ⟨hmem, hmark⟩, hbm⟩ := hb
    refine ⟨m, hmem, hbm, fun h => absurd h hm, fun _ => by simpa using hmark⟩

theorem succ_markDef_subset (name : String) (env : Env) (d : Def) (h : Unmarked d) (b : String)
    (hb : b ∈ succ (markDef name env d)) : b ∈ succ d := by
  obtain ⟨m, hm, hbm, _, _⟩ := mem_succ_markDef name env d b hb
  rw [succ_unmarked d h]
  exact List.mem_flatMap.mpr ⟨m, hm, hbm⟩

theorem markDef_markable (name : String) (env : Env) (d : Def) : (markDef name env d).markable = d.markable := by
  unfold markDef; split <;> rfl

/-- removing the definition searched for changes nothing for the search: a path to `n` is cut at its
    first arrival at `n` -/
theorem reach_remove (done rest : Env) (n : String) (d : Def) (c : String)
    (h : Reach (done ++ (n, d) :: rest) n c) : Reach (done ++ rest) n c := by
  induction h with
  | here => exact Reach.here
  | @step a b he _ ih =>
    by_cases ha : a = n
    · subst ha; exact Reach.here
    · obtain ⟨da, hda, hb⟩ := he
      rw [lookup_skip done rest n a d ha] at hda
      exact Reach.step ⟨da, hda, hb⟩ ih

/-- marking only removes edges -/
theorem edge_mono (done rest : Env) (n : String) (d : Def) (hn : n ∉ keys done) (hd : Unmarked d) (a b : String)
    (h : Edge (done ++ (n, markDef n (done ++ rest) d) :: rest) a b) : Edge (done ++ (n, d) :: rest) a b := by
  obtain ⟨da, hda, hb⟩ := h
  by_cases ha : a = n
  · subst ha
    rw [lookup_mid done rest a _ hn] at hda
    cases hda
    exact ⟨d, lookup_mid done rest a d hn, succ_markDef_subset a (done ++ rest) d hd b hb⟩
  · rw [lookup_skip done rest n a _ ha] at hda
    exact ⟨da, by rw [lookup_skip done rest n a d ha]; exact hda, hb⟩

theorem reach_mono (done rest : Env) (n : String) (d : Def) (hn : n ∉ keys done) (hd : Unmarked d) (x y : String)
    (h : Reach (done ++ (n, markDef n (done ++ rest) d) :: rest) x y) : Reach (done ++ (n, d) :: rest) x y := by
  induction h with
  | here => exact Reach.here
  | step he _ ih => exact Reach.step (edge_mono done rest n d hn hd _ _ he) ih

theorem markFrom_acyclic : ∀ (todo done : Env), (keys (done ++ todo)).Nodup → InitEnv todo →
    (∀ p ∈ done, p.2.markable = true → ¬ OnCycle (done ++ todo) p.1) →
    ∀ p ∈ markFrom done todo, p.2.markable = true → ¬ OnCycle (markFrom done todo) p.1 := by
  intro todo
  induction todo with
  | nil => intro done _ _ h; simpa [markFrom] using h
  | cons nd rest ih =>
    obtain ⟨n, d⟩ := nd
    intro done hk h0 hdone
    have hn : n ∉ keys done := by
      simp only [keys, List.map_append, List.map_cons] at hk
      have := (List.nodup_append.mp hk).2.2
      intro hmem
      exact this n hmem n List.mem_cons_self rfl
    have hd : Unmarked d := h0 (n, d) List.mem_cons_self
    have hassoc : (done ++ [(n, markDef n (done ++ rest) d)]) ++ rest = done ++ (n, markDef n (done ++ rest) d) :: rest := by simp
    simp only [markFrom]
    apply ih (done ++ [(n, markDef n (done ++ rest) d)])
    · rw [hassoc]
      simpa [keys] using hk
    · exact fun p hp => h0 p (List.mem_cons_of_mem _ hp)
    · intro p hp hmark
      rw [hassoc]
      rcases List.mem_append.mp hp with hp | hp
      · -- an earlier definition: a cycle now was a cycle before
        intro ⟨c, he, hr⟩
        exact hdone p hp hmark ⟨c, edge_mono done rest n d hn hd _ _ he, reach_mono done rest n d hn hd _ _ hr⟩
      · -- the definition just marked
        have : p = (n, markDef n (done ++ rest) d) := by simpa using hp
        subst this
        intro ⟨c, he, hr⟩
        obtain ⟨d', hd', hc⟩ := he
        rw [lookup_mid done rest n _ hn] at hd'
        cases hd'
        obtain ⟨m, _, hcm, hgo, _⟩ := mem_succ_markDef n (done ++ rest) d c hc
        have hmk : d.markable = true := by rw [← markDef_markable n (done ++ rest) d]; exact hmark
        have hno := go_complete n (done ++ rest) [] m.refs (inv_nil _ _ _) (hgo hmk) c hcm
        exact hno (reach_remove done rest n _ c hr)

/-- after the pass, no SEQUENCE / SET / CHOICE lies on a cycle of inline references whose members are
    all unmarked — for every set of definitions with distinct names -/
theorem markAll_acyclic (env : Env) (hk : (keys env).Nodup) (h0 : InitEnv env) :
    ∀ p ∈ markAll env, p.2.markable = true → ¬ OnCycle (markAll env) p.1 :=
  markFrom_acyclic env [] (by simpa using hk) h0 (fun _ hp => by cases hp)

/-- the pass changes marks only: same names, same order, same references -/
def skeleton (env : Env) : List (String × Bool × List (List String)) :=
  env.map fun p => (p.1, p.2.markable, p.2.members.map (·.refs))

theorem markDef_skeleton (name : String) (env : Env) (d : Def) :
    ((markDef name env d).markable, (markDef name env d).members.map (·.refs)) = (d.markable, d.members.map (·.refs)) := by
  unfold markDef
  split
  · simp [List.map_map, Function.comp_def]
  · rfl

theorem markFrom_skeleton : ∀ (todo done : Env), skeleton (markFrom done todo) = skeleton done ++ skeleton todo := by
  intro todo
  induction todo with
  | nil => intro done; simp [markFrom, skeleton]
  | cons nd rest ih =>
    obtain ⟨n, d⟩ := nd
    intro done
    simp only [markFrom]
    rw [ih]
    have := markDef_skeleton n (done ++ rest) d
    simp only [Prod.mk.injEq] at this
    simp [skeleton, this.1, this.2]

theorem markAll_skeleton (env : Env) : skeleton (markAll env) = skeleton env := by
  simpa [markAll, skeleton] using markFrom_skeleton env []

end Link.Recursion

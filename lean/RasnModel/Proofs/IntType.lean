import RasnModel.Spec.IntTy
import RasnModel.Gen.IntType
/- helper lemmas for Props/C06 -/
namespace Proofs.IntType
open Extracted.IntType Spec Gen

theorem tail_gt (mn mx : Int) (ext : Bool) (h : mx < mn) :
    integerConstraintsTail mn mx ext = IntegerType.Unbounded := by
  unfold integerConstraintsTail
  simp [h]

theorem tail_big (mn mx : Int) (ext : Bool) (h : 18446744073709551615 < mx) (h0 : 0 ≤ mn) :
    integerConstraintsTail mn mx ext = IntegerType.Unbounded := by
  unfold integerConstraintsTail
  simp only []
  repeat' split
  all_goals (simp at *; try omega)

theorem tail_small (mn mx : Int) (ext : Bool) (h : mn < -9223372036854775808) :
    integerConstraintsTail mn mx ext = IntegerType.Unbounded := by
  unfold integerConstraintsTail
  simp only []
  repeat' split
  all_goals (simp at *; try omega)

theorem unb_holds (v : Int) : holds (integerTypeToken IntegerType.Unbounded) v := by
  simp [holds, tokenRange, integerTypeToken]

/-- one-sided range `(MIN..h)`: always Unbounded -/
theorem upper_only (h : Int) (ext : Bool) (hh : h ≤ i128Max) :
    integerConstraintsTail i128Max (max h i128Min) ext = IntegerType.Unbounded := by
  by_cases e : max h i128Min < i128Max
  · exact tail_gt _ _ _ e
  · apply tail_big
    · simp only [i128Max, i128Min] at *; omega
    · simp [i128Max]

/-- one-sided range `(l..MAX)`: always Unbounded -/
theorem lower_only (l : Int) (ext : Bool) :
    integerConstraintsTail (min l i128Max) i128Min ext = IntegerType.Unbounded := by
  by_cases e : i128Min < min l i128Max
  · exact tail_gt _ _ _ e
  · apply tail_small
    simp only [i128Max, i128Min] at *; omega

theorem none_none (ext : Bool) : integerConstraintsTail i128Max i128Min ext = IntegerType.Unbounded :=
  tail_gt _ _ _ (by simp [i128Max, i128Min])

end Proofs.IntType

import RasnModel.Lexer.Context
/- lemmas about the excerpt model (Lexer/Context): lines of a text and where they start -/
namespace Proofs.Context
open Lexer.Input Lexer.Context

theorem splitLines_ne_nil (c : Bytes) : splitLines c ≠ [] := by
  cases c with
  | nil => simp [splitLines]
  | cons b bs =>
    simp only [splitLines]
    split
    · simp
    · split <;> simp

theorem countNL_cons (b : UInt8) (bs : Bytes) : countNL (b :: bs) = (if b == 10 then 1 else 0) + countNL bs := by
  simp only [countNL, List.count_cons]
  split <;> omega

/-- the first line is the text up to the first line feed -/
theorem splitLines_head (c : Bytes) : (splitLines c)[0]? = some (c.takeWhile (· != 10)) := by
  induction c with
  | nil => simp [splitLines]
  | cons b bs ih =>
    simp only [splitLines]
    by_cases hb : (b == 10) = true
    · have hne : (b != 10) = false := by simp [bne, hb]
      simp [hb, List.takeWhile_cons, hne]
    · simp only [hb, Bool.false_eq_true, if_false]
      have hne : (b != 10) = true := by simp [bne, hb]
      cases hs : splitLines bs with
      | nil => exact absurd hs (splitLines_ne_nil bs)
      | cons l ls =>
        rw [hs] at ih
        simp only [List.getElem?_cons_zero, Option.some.injEq] at ih
        simp [hne, ih]

/-- LINE START LEMMA: the i-th line of a text starts at a position that is preceded by exactly i line
    feeds (position 0, or directly behind a line feed), and it is the text from there up to the next
    line feed. -/
theorem splitLines_spec (c : Bytes) : ∀ (i : Nat) (l : Bytes), (splitLines c)[i]? = some l →
    ∃ pos, pos ≤ c.length ∧ countNL (c.take pos) = i ∧ (pos = 0 ∨ c[pos - 1]? = some 10) ∧
      l = (c.drop pos).takeWhile (· != 10) := by
  induction c with
  | nil =>
    intro i l h
    simp only [splitLines] at h
    cases i with
    | zero => simp at h; subst h; exact ⟨0, by simp, by simp [countNL], Or.inl rfl, by simp⟩
    | succ j => simp at h
  | cons b bs ih =>
    intro i l h
    cases i with
    | zero =>
      rw [splitLines_head] at h
      exact ⟨0, by simp, by simp [countNL], Or.inl rfl, by simpa using h.symm⟩
    | succ j =>
      by_cases hb : (b == 10) = true
      · simp only [splitLines, hb, if_true, List.getElem?_cons_succ] at h
        obtain ⟨pos, hle, hc, hp, hl⟩ := ih j l h
        refine ⟨pos + 1, by simp; omega, ?_, Or.inr ?_, by simpa using hl⟩
        · simp only [List.take_succ_cons, countNL_cons, hb, if_true, hc]; omega
        · cases pos with
          | zero => simp; exact (beq_iff_eq.mp hb)
          | succ p =>
            rcases hp with hp | hp
            · exact absurd hp (by omega)
            · simpa using hp
      · simp only [splitLines, hb, Bool.false_eq_true, if_false] at h
        cases hs : splitLines bs with
        | nil => exact absurd hs (splitLines_ne_nil bs)
        | cons l0 ls =>
          rw [hs] at h
          simp only [List.getElem?_cons_succ] at h
          have h' : (splitLines bs)[j + 1]? = some l := by rw [hs]; simpa using h
          obtain ⟨pos, hle, hc, hp, hl⟩ := ih (j + 1) l h'
          have hpos : pos ≠ 0 := by intro h0; subst h0; simp [countNL] at hc
          refine ⟨pos + 1, by simp; omega, ?_, Or.inr ?_, by simpa using hl⟩
          · simp only [List.take_succ_cons, countNL_cons, hb, Bool.false_eq_true, if_false, hc]; omega
          · rcases hp with rfl | hp
            · exact absurd rfl hpos
            · obtain ⟨p, rfl⟩ := Nat.exists_eq_succ_of_ne_zero hpos
              simpa using hp

/-- `trim_end` returns a prefix -/
theorem trimEnd_prefix (l : Bytes) : trimEnd l <+: l := by
  unfold trimEnd
  refine ⟨(l.reverse.takeWhile isWs).reverse, ?_⟩
  rw [← List.reverse_append, List.takeWhile_append_dropWhile, List.reverse_reverse]

theorem prefix_eq_take {l m : Bytes} (h : l <+: m) : l = m.take l.length := by
  obtain ⟨t, rfl⟩ := h
  simp

theorem takeWhile_take_prefix (f : UInt8 → Bool) : ∀ (m : Bytes) (k : Nat), (m.take k).takeWhile f <+: m.takeWhile f := by
  intro m
  induction m with
  | nil => intro k; simp
  | cons b bs ih =>
    intro k
    cases k with
    | zero => simp
    | succ k =>
      simp only [List.take_succ_cons, List.takeWhile_cons]
      split
      · exact List.cons_prefix_cons.mpr ⟨rfl, ih k⟩
      · exact List.nil_prefix

/-- the context handed to the excerpt is always a prefix of the text behind the context start -/
theorem context_is_prefix (input : Bytes) (atLeast fb : Nat) :
    ∃ n, untilNextUnindented input atLeast fb = input.take n := by
  unfold untilNextUnindented
  simp only
  split
  · exact ⟨_, rfl⟩
  · generalize boundaryDown input _ = m
    refine ⟨min (trimEnd (input.take m)).length m, ?_⟩
    rw [← List.take_take]
    exact prefix_eq_take (trimEnd_prefix _)

/-- every entry of the fold comes from a non-blank line and carries `ctxLine + its index` -/
theorem entriesFrom_spec (ctxLine line : Nat) : ∀ (ls : List Bytes) (i : Nat) (e : Entry), e ∈ entriesFrom ctxLine line ls i →
    ∃ j l, ls[j]? = some l ∧ blank l = false ∧ e = ⟨ctxLine + (i + j), trimEnd l, ctxLine + (i + j) == line⟩ := by
  intro ls
  induction ls with
  | nil => intro i e h; simp [entriesFrom] at h
  | cons l ls ih =>
    intro i e h
    simp only [entriesFrom] at h
    by_cases hb : blank l = true
    · simp only [hb, if_true] at h
      obtain ⟨j, l', hj, hl', he⟩ := ih (i + 1) e h
      exact ⟨j + 1, l', by simpa using hj, hl', by rw [he]; congr 2 <;> omega⟩
    · simp only [hb, Bool.false_eq_true, if_false, List.mem_cons] at h
      rcases h with rfl | h
      · exact ⟨0, l, by simp, by simpa using hb, by simp⟩
      · obtain ⟨j, l', hj, hl', he⟩ := ih (i + 1) e h
        exact ⟨j + 1, l', by simpa using hj, hl', by rw [he]; congr 2 <;> omega⟩

/-- the labels of the fold increase strictly -/
theorem entriesFrom_labels_lt (ctxLine line : Nat) : ∀ (ls : List Bytes) (i : Nat),
    (∀ e ∈ entriesFrom ctxLine line ls i, ctxLine + i ≤ e.label) ∧
    (entriesFrom ctxLine line ls i).Pairwise (fun a b => a.label < b.label) := by
  intro ls
  induction ls with
  | nil => intro i; simp [entriesFrom]
  | cons l ls ih =>
    intro i
    obtain ⟨hge, hpw⟩ := ih (i + 1)
    simp only [entriesFrom]
    split
    · exact ⟨fun e he => by have := hge e he; omega, hpw⟩
    · refine ⟨?_, ?_⟩
      · intro e he
        rcases List.mem_cons.mp he with rfl | he
        · simp
        · have := hge e he; omega
      · refine List.pairwise_cons.mpr ⟨?_, hpw⟩
        intro e he
        have := hge e he
        simp only; omega

theorem takeWhile_stops (f : UInt8 → Bool) : ∀ (l : Bytes), l[(l.takeWhile f).length]? = none ∨ ∃ b, l[(l.takeWhile f).length]? = some b ∧ f b = false := by
  intro l
  induction l with
  | nil => simp
  | cons b bs ih =>
    simp only [List.takeWhile_cons]
    by_cases hb : f b = true
    · simp only [hb, if_true, List.length_cons, List.getElem?_cons_succ]; exact ih
    · simp only [hb, Bool.false_eq_true, if_false, List.length_nil, List.getElem?_cons_zero]
      exact Or.inr ⟨b, rfl, by simpa using hb⟩

/-- `boundaryUp` stops at the end of the text or at a byte that is not a continuation byte -/
theorem boundaryUp_is_boundary (input : Bytes) (n : Nat) :
    input[boundaryUp input n]? = none ∨ ∃ b, input[boundaryUp input n]? = some b ∧ isCont b = false := by
  unfold boundaryUp
  have := takeWhile_stops isCont (input.drop n)
  simpa [List.getElem?_drop] using this

theorem le_boundaryUp (input : Bytes) (n : Nat) : n ≤ boundaryUp input n := by
  unfold boundaryUp; omega

/-- moving down from `m` never passes a boundary `a ≤ m` -/
theorem le_boundaryDown (input : Bytes) (a : Nat)
    (ha : input[a]? = none ∨ ∃ b, input[a]? = some b ∧ isCont b = false) : ∀ m, a ≤ m → a ≤ boundaryDown input m := by
  intro m
  induction m with
  | zero => intro h; simpa [boundaryDown] using h
  | succ m ih =>
    intro h
    simp only [boundaryDown]
    split
    · rename_i b hb
      split
      · rename_i hc
        have : a ≠ m + 1 := by
          intro e; subst e
          rcases ha with ha | ⟨b', hb', hc'⟩
          · rw [ha] at hb; cases hb
          · rw [hb'] at hb; cases hb; rw [hc'] at hc; cases hc
        exact ih (by omega)
      · exact h
    · exact h

/-- a byte that is not a line feed lies on the line whose index is the number of line feeds before it -/
theorem splitLines_line_of_pos (c : Bytes) : ∀ (q : Nat) (b : UInt8), c[q]? = some b → (b == 10) = false →
    ∃ l, (splitLines c)[countNL (c.take q)]? = some l ∧ b ∈ l := by
  induction c with
  | nil => intro q b h; simp at h
  | cons x xs ih =>
    intro q b h hb
    cases q with
    | zero =>
      simp only [List.getElem?_cons_zero, Option.some.injEq] at h
      subst h
      simp only [List.take_zero, countNL, List.count_nil, splitLines, hb, Bool.false_eq_true, if_false]
      cases hs : splitLines xs with
      | nil => exact absurd hs (splitLines_ne_nil xs)
      | cons l ls => exact ⟨x :: l, by simp, by simp⟩
    | succ q =>
      simp only [List.getElem?_cons_succ] at h
      obtain ⟨l, hl, hm⟩ := ih q b h hb
      simp only [List.take_succ_cons, countNL_cons, splitLines]
      by_cases hx : (x == 10) = true
      · simp only [hx, if_true]
        refine ⟨l, ?_, hm⟩
        rw [Nat.add_comm, List.getElem?_cons_succ]; exact hl
      · simp only [hx, Bool.false_eq_true, if_false, Nat.zero_add]
        cases hs : splitLines xs with
        | nil => exact absurd hs (splitLines_ne_nil xs)
        | cons l0 ls =>
          rw [hs] at hl
          cases hc : countNL (List.take q xs) with
          | zero =>
            rw [hc] at hl
            simp only [List.getElem?_cons_zero, Option.some.injEq] at hl
            subst hl
            exact ⟨x :: l0, by simp, by simp [hm]⟩
          | succ j =>
            rw [hc] at hl
            exact ⟨l, by simpa using hl, hm⟩

/-- a non-blank line at index `j` yields the entry labelled `ctxLine + (i + j)` -/
theorem entriesFrom_complete (ctxLine line : Nat) : ∀ (ls : List Bytes) (i j : Nat) (l : Bytes), ls[j]? = some l → blank l = false →
    (⟨ctxLine + (i + j), trimEnd l, ctxLine + (i + j) == line⟩ : Entry) ∈ entriesFrom ctxLine line ls i := by
  intro ls
  induction ls with
  | nil => intro i j l h; simp at h
  | cons x xs ih =>
    intro i j l h hb
    cases j with
    | zero =>
      simp only [List.getElem?_cons_zero, Option.some.injEq] at h
      subst h
      simp [entriesFrom, hb]
    | succ j =>
      simp only [List.getElem?_cons_succ] at h
      have := ih (i + 1) j l h hb
      have e : i + 1 + j = i + (j + 1) := by omega
      rw [e] at this
      simp only [entriesFrom]
      split
      · exact this
      · exact List.mem_cons_of_mem _ this

theorem mem_takeWhile_true (f : UInt8 → Bool) : ∀ (l : Bytes) (x : UInt8), x ∈ l.takeWhile f → f x = true := by
  intro l
  induction l with
  | nil => intro x h; simp at h
  | cons b bs ih =>
    intro x h
    simp only [List.takeWhile_cons] at h
    by_cases hb : f b = true
    · simp only [hb, if_true, List.mem_cons] at h
      rcases h with rfl | h
      · exact hb
      · exact ih x h
    · simp [hb] at h

/-- `trim_end` keeps everything up to a byte that is not white space -/
theorem trimEnd_keeps (l : Bytes) (q : Nat) (b : UInt8) (h : l[q]? = some b) (hb : isWs b = false) :
    ∃ m, q < m ∧ trimEnd l = l.take m := by
  refine ⟨(trimEnd l).length, ?_, prefix_eq_take (trimEnd_prefix l)⟩
  -- l = trimEnd l ++ w with w all white space; position q cannot lie in w
  unfold trimEnd
  have hsplit : l = (l.reverse.dropWhile isWs).reverse ++ (l.reverse.takeWhile isWs).reverse := by
    rw [← List.reverse_append, List.takeWhile_append_dropWhile, List.reverse_reverse]
  by_cases hq : q < (l.reverse.dropWhile isWs).reverse.length
  · exact hq
  · exfalso
    have hq' : (l.reverse.dropWhile isWs).reverse.length ≤ q := by omega
    rw [hsplit, List.getElem?_append_right hq'] at h
    have hmem : b ∈ (l.reverse.takeWhile isWs).reverse := List.mem_of_getElem? h
    rw [List.mem_reverse] at hmem
    have := mem_takeWhile_true isWs _ _ hmem
    rw [hb] at this
    cases this

end Proofs.Context

import RasnModel.Io.Pipeline
import RasnModel.Proofs.SortedMap
/- lemmas about the pipeline skeleton shared by Props/C10, C11, C12 -/
namespace Proofs.Pipeline
open Pipe Proofs.SortedMap

variable {β : Type}

/-- splitting a list by two disjoint predicates -/
theorem filter_or_perm {α : Type} (p q : α → Bool) : ∀ (l : List α), (∀ x ∈ l, ¬ (p x = true ∧ q x = true)) →
    (l.filter (fun x => p x || q x)).Perm (l.filter p ++ l.filter q) := by
  intro l
  induction l with
  | nil => intro _; simp
  | cons a t ih =>
    intro h
    have iht := ih (fun x hx => h x (List.mem_cons_of_mem _ hx))
    have ha := h a List.mem_cons_self
    cases hp : p a <;> cases hq : q a
    · simp [List.filter_cons, hp, hq]; exact iht
    · simp only [List.filter_cons, hp, hq, Bool.false_or, if_true, Bool.false_eq_true, if_false]
      exact (List.Perm.cons a iht).trans (List.perm_middle.symm)
    · simp only [List.filter_cons, hp, hq, Bool.or_false, if_true, Bool.false_eq_true, if_false, List.cons_append]
      exact List.Perm.cons a iht
    · exact absurd ⟨hp, hq⟩ ha

/-- grouping by a key over a duplicate-free list of keys only rearranges -/
theorem group_perm {α : Type} (key : α → String) (l : List α) : ∀ (names : List String), names.Nodup →
    (names.flatMap fun n => l.filter fun d => key d == n).Perm (l.filter fun d => names.contains (key d)) := by
  intro names
  induction names with
  | nil => intro _; simp
  | cons n ns ih =>
    intro hn
    simp only [List.nodup_cons] at hn
    simp only [List.flatMap_cons]
    have e : (l.filter fun d => (n :: ns).contains (key d)) =
        l.filter (fun d => (key d == n) || ns.contains (key d)) := by
      apply List.filter_congr
      intro d _
      by_cases hk : key d = n <;> simp [List.contains_cons, hk]
    rw [e]
    refine (List.Perm.append_left _ (ih hn.2)).trans ?_
    apply (filter_or_perm _ _ l _).symm
    intro x _ ⟨h1, h2⟩
    simp only [beq_iff_eq] at h1
    simp only [List.contains_iff_mem] at h2
    rw [h1] at h2
    exact hn.1 h2

theorem mem_keys_ofList {α : Type} (l : List (String × α)) (k : String) : k ∈ SMap.keys (SMap.ofList l) ↔ k ∈ l.map (·.1) := by
  suffices ∀ (m : List (String × α)), k ∈ SMap.keys (l.foldl (fun m kv => SMap.ins kv.1 kv.2 m) m) ↔ (k ∈ SMap.keys m ∨ k ∈ l.map (·.1)) by
    simpa [SMap.ofList, SMap.keys] using this []
  induction l with
  | nil => intro m; simp
  | cons a t ih =>
    intro m
    simp only [List.foldl_cons, ih, List.map_cons, List.mem_cons]
    have hk : k ∈ SMap.keys (SMap.ins a.1 a.2 m) ↔ (k = a.1 ∨ k ∈ SMap.keys m) := by
      induction m with
      | nil => simp [SMap.ins, SMap.keys]
      | cons b r ihm =>
        obtain ⟨k', v'⟩ := b
        simp only [SMap.ins]
        split
        · simp [SMap.keys]
        · rename_i heq
          have : a.1 = k' := Std.LawfulEqOrd.eq_of_compare heq
          simp [SMap.keys, this]
        · simp only [SMap.keys, List.map_cons, List.mem_cons] at ihm ⊢
          rw [ihm]
          constructor
          · rintro (h | h | h)
            · exact Or.inr (Or.inl h)
            · exact Or.inl h
            · exact Or.inr (Or.inr h)
          · rintro (h | h | h)
            · exact Or.inr (Or.inl h)
            · exact Or.inl h
            · exact Or.inr (Or.inr h)
    rw [hk]
    constructor
    · rintro ((h | h) | h)
      · exact Or.inr (Or.inl h)
      · exact Or.inl h
      · exact Or.inr (Or.inr h)
    · rintro (h | h | h)
      · exact Or.inl (Or.inr h)
      · exact Or.inl (Or.inl h)
      · exact Or.inr h

theorem sorted_keys_nodup {α : Type} (m : List (String × α)) (h : SMap.Sorted m) : (SMap.keys m).Nodup := by
  induction m with
  | nil => simp [SMap.keys]
  | cons a t ih =>
    simp only [SMap.Sorted, List.pairwise_cons] at h
    simp only [SMap.keys, List.map_cons, List.nodup_cons]
    refine ⟨?_, ih h.2⟩
    intro hm
    rcases List.mem_map.mp hm with ⟨b, hb, e⟩
    have := h.1 b hb
    rw [e] at this
    have r : compare a.1 a.1 = .eq := Std.ReflOrd.compare_self
    rw [r] at this; cases this

/-- grouping into modules loses nothing and duplicates nothing -/
theorem groupByModule_perm (ds : List (Def β)) : ((groupByModule ds).flatMap (·.2)).Perm ds := by
  simp only [groupByModule, List.flatMap_map]
  have hn : (moduleNames ds).Nodup := sorted_keys_nodup _ (ofList_sorted _)
  refine (group_perm (fun d : Def β => d.hdr.name) ds _ hn).trans ?_
  have : (ds.filter fun d => (moduleNames ds).contains d.hdr.name) = ds := by
    apply List.filter_eq_self.mpr
    intro d hd
    simp only [List.contains_iff_mem, moduleNames]
    rw [mem_keys_ofList]
    simp only [List.map_map, List.mem_map, Function.comp]
    exact ⟨d, hd, rfl⟩
  rw [this]

/-! `Validator::new` with the replaced definitions -/

private abbrev stepW (acc : List (String × Def β) × List (Def β)) (d : Def β) : List (String × Def β) × List (Def β) :=
  let r := SMap.insR d.name d acc.1; (r.1, acc.2 ++ r.2.toList)

theorem indexW_fst_aux : ∀ (l : List (Def β)) (acc : List (String × Def β) × List (Def β)),
    (l.foldl stepW acc).1 = l.foldl (fun m d => SMap.ins d.name d m) acc.1 := by
  intro l
  induction l with
  | nil => intro acc; rfl
  | cons d t ih =>
    intro acc
    simp only [List.foldl_cons]
    rw [ih]
    simp only [stepW, insR_fst]

/-- the map built by `Validator::new` is the `collect()` of the definitions keyed by bare name -/
theorem indexW_fst (ds : List (Def β)) : (indexW ds).1 = index ds := by
  have := indexW_fst_aux ds ([], [])
  simp only [indexW, index, SMap.ofList, List.foldl_map] at this ⊢
  exact this

theorem indexW_perm_aux : ∀ (l : List (Def β)) (acc : List (String × Def β) × List (Def β)),
    ((l.foldl stepW acc).1.map (·.2) ++ (l.foldl stepW acc).2).Perm (acc.1.map (·.2) ++ acc.2 ++ l) := by
  intro l
  induction l with
  | nil => intro acc; simp
  | cons d t ih =>
    intro acc
    simp only [List.foldl_cons]
    refine (ih _).trans ?_
    have h := insR_perm d.name d acc.1
    simp only [stepW]
    have h1 : ((SMap.insR d.name d acc.1).1.map (·.2) ++ (acc.2 ++ (SMap.insR d.name d acc.1).2.toList)).Perm
        (d :: (acc.1.map (·.2) ++ acc.2)) := by
      refine (List.Perm.append_left _ List.perm_append_comm).trans ?_
      rw [← List.append_assoc]
      exact (List.Perm.append_right acc.2 h)
    refine (List.Perm.append_right t h1).trans ?_
    simp only [List.cons_append]
    exact List.perm_middle.symm

/-- every definition handed to `Validator::new` is in the map or among the replaced ones, exactly once —
    whatever the names -/
theorem indexW_perm (ds : List (Def β)) : ((indexW ds).1.map (·.2) ++ (indexW ds).2).Perm ds := by
  have := indexW_perm_aux ds ([], [])
  simpa [indexW] using this

theorem indexW_snd_nil_aux : ∀ (l : List (Def β)) (acc : List (String × Def β) × List (Def β)),
    acc.2 = [] → (SMap.keys acc.1 ++ l.map (·.name)).Nodup → (l.foldl stepW acc).2 = [] := by
  intro l
  induction l with
  | nil => intro acc h _; exact h
  | cons d t ih =>
    intro acc h hn
    simp only [List.foldl_cons]
    have hk : d.name ∉ SMap.keys acc.1 := by
      intro hm
      have := (List.nodup_append.mp hn).2.2 d.name hm d.name (by simp)
      exact this rfl
    apply ih
    · simp only [stepW, h, insR_none d.name d acc.1 hk]; rfl
    · simp only [stepW, insR_fst]
      have hp := keys_perm (insert_perm d.name d acc.1 hk)
      have : (SMap.keys (SMap.ins d.name d acc.1) ++ t.map (·.name)).Perm (SMap.keys acc.1 ++ (d :: t).map (·.name)) := by
        refine (List.Perm.append_right _ hp).trans ?_
        simp only [SMap.keys, List.map_cons, List.cons_append]
        exact List.perm_middle.symm
      exact this.nodup_iff.mpr hn

/-- with distinct bare names nothing is replaced -/
theorem indexW_snd_nil (ds : List (Def β)) (hn : (ds.map (·.name)).Nodup) : (indexW ds).2 = [] :=
  indexW_snd_nil_aux ds ([], []) rfl (by simpa [SMap.keys] using hn)

theorem generateModule_subjects (gen : BState → Def β → Option String) (st : BState) (tlds : List (Def β)) :
    (generateModule gen st tlds).2.map Ev.subject = tlds.map (·.name) := by
  cases tlds with
  | nil => rfl
  | cons d t =>
    simp only [generateModule, List.map_map]
    apply List.map_congr_left
    intro x _
    simp only [Function.comp]
    split <;> rfl

theorem generateAll_subjects (gen : BState → Def β → Option String) : ∀ (mods : List (String × List (Def β))) (st : BState) (acc : List Ev),
    (mods.foldl (fun acc m => let r := generateModule gen acc.1 m.2; (r.1, acc.2 ++ r.2)) (st, acc)).2.map Ev.subject =
      acc.map Ev.subject ++ (mods.flatMap (·.2)).map (·.name) := by
  intro mods
  induction mods with
  | nil => intro st acc; simp
  | cons m t ih =>
    intro st acc
    simp only [List.foldl_cons, List.flatMap_cons, List.map_append]
    rw [ih]
    simp only [List.map_append, generateModule_subjects, List.append_assoc]

/-- the state a module is generated with is the one written at its own start:
    whatever state precedes it, a non-empty module yields the same events -/
theorem generateModule_state_irrelevant (gen : BState → Def β → Option String) (st st' : BState) (tlds : List (Def β)) :
    (generateModule gen st tlds).2 = (generateModule gen st' tlds).2 := by
  cases tlds <;> rfl

theorem generateAll_no_leak (gen : BState → Def β → Option String) (any : BState) : ∀ (mods : List (String × List (Def β))) (st : BState) (acc : List Ev),
    (mods.foldl (fun acc m => let r := generateModule gen acc.1 m.2; (r.1, acc.2 ++ r.2)) (st, acc)).2 =
      acc ++ mods.flatMap (fun m => (generateModule gen any m.2).2) := by
  intro mods
  induction mods with
  | nil => intro st acc; simp
  | cons m t ih =>
    intro st acc
    simp only [List.foldl_cons, List.flatMap_cons]
    rw [ih, generateModule_state_irrelevant gen st any m.2, List.append_assoc]

end Proofs.Pipeline

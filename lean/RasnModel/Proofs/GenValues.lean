import RasnModel.Gen.Values
/- helper lemmas for Props/C07 (rendering of composite values) -/
namespace Gen.Values
open Link.Values

/-- newtype constructors are transparent: the wrappers `nester` puts around a value do not change what it denotes -/
@[simp] theorem evalR_nest (title : String → String) : ∀ (sup : List String) (s : RExpr), evalR (nest title sup s) = evalR s
  | [], s => by simp [nest]
  | n :: rest, s => by simp [nest, evalR, evalR_nest title rest s]

/-- the wrappers are exactly the names of the chain, the first one outermost -/
theorem nest_append (title : String → String) : ∀ (a b : List String) (s : RExpr),
    nest title (a ++ b) s = nest title a (nest title b s)
  | [], b, s => by simp [nest]
  | n :: a, b, s => by simp [nest, nest_append title a b s]

variable (title enumId : String → String)

mutual
/-- **rendering keeps the value**: whatever the composite arms of `value_to_tokens` build denotes the linked value,
    positionally — for every type, every type name handed in, every linked value (any depth) -/
theorem evalR_render : ∀ (l : LVal) (ty : VTy) (tn : Option String) (r : RExpr),
    render title enumId ty tn l = some r → evalR r = pos enumId (absL l)
  | .atom a, ty, tn, r, h => by
    simp only [render] at h; cases h; simp [evalR, absL, pos]
  | .nested sup v, ty, tn, r, h => by
    simp only [render] at h
    split at h
    · rename_i fs
      simp only [Option.map_eq_some_iff] at h
      obtain ⟨a, ha, rfl⟩ := h
      simp [absL, evalR_render (.struct fs) ty _ a ha]
    · cases hv : render title enumId ty tn v with
      | none => simp [hv] at h
      | some r' =>
        simp [hv] at h; subst h
        simp [absL, evalR_render v ty tn r' hv]
  | .arr xs, ty, tn, r, h => by
    simp only [render] at h
    split at h
    · rename_i e _
      cases hx : renderElems title enumId e xs with
      | none => simp [hx] at h
      | some rs =>
        simp [hx] at h; subst h
        simp [evalR, absL, pos, evalArgs_elems xs e rs hx]
    · cases h
  | .struct fs, ty, tn, r, h => by
    simp only [render] at h
    split at h
    · rename_i _ _ t ms _
      cases hx : renderFields title enumId ms fs with
      | none => simp [hx] at h
      | some rs =>
        simp [hx] at h; subst h
        simp [evalR, absL, pos, evalArgs_fields fs ms rs hx]
    · cases h
  | .choice a v, ty, tn, r, h => by
    simp only [render] at h
    split at h
    · split at h
      · rename_i _ _ en aty _ _
        cases hv : render title enumId aty none v with
        | none => simp [hv] at h
        | some r' =>
          simp [hv] at h; subst h
          simp [evalR, absL, pos, evalR_render v aty none r' hv]
      · cases h
    · cases h
theorem evalArgs_fields : ∀ (fs : List LField) (ms : List VMember) (rs : List RExpr),
    renderFields title enumId ms fs = some rs → evalArgs rs = posFields enumId (absFields fs)
  | [], [], rs, h => by simp only [renderFields] at h; cases h; simp [evalArgs, absFields, posFields]
  | [], _ :: _, rs, h => by simp [renderFields] at h
  | _ :: _, [], rs, h => by simp [renderFields] at h
  | .mk n v :: fs, .mk mn mty d :: ms, rs, h => by
    simp only [renderFields] at h
    split at h
    · rename_i r rest hr hrest
      cases h
      simp [evalArgs, absFields, posFields, evalR_render v mty _ r hr, evalArgs_fields fs ms rest hrest]
    · cases h
theorem evalArgs_elems : ∀ (xs : List LVal) (e : VTy) (rs : List RExpr),
    renderElems title enumId e xs = some rs → evalArgs rs = posList enumId (absList xs)
  | [], e, rs, h => by simp only [renderElems] at h; cases h; simp [evalArgs, absList, posList]
  | v :: rest, e, rs, h => by
    simp only [renderElems] at h
    split at h
    · rename_i r rs' hr hrs
      cases h
      simp [evalArgs, absList, posList, evalR_render v e none r hr, evalArgs_elems rest e rs' hrs]
    · cases h
end

/-- the glue of `generate_value` keeps the value too -/
theorem evalR_renderAssignment (name : Option String) (body : VTy) (l : LVal) (r : RExpr)
    (h : renderAssignment title enumId name body l = some r) : evalR r = pos enumId (absL l) := by
  have hw : ∀ e, evalR (wrapName title name e) = evalR e := by
    intro e; cases name <;> simp [wrapName, evalR]
  cases l with
  | atom a => simp [renderAssignment] at h
  | struct fs => exact evalR_render title enumId _ _ _ _ h
  | choice a v =>
    simp only [renderAssignment] at h
    split at h
    · exact evalR_render title enumId _ _ _ _ h
    · simp only [Option.map_eq_some_iff] at h
      obtain ⟨r', hr', rfl⟩ := h
      rw [hw]; exact evalR_render title enumId _ _ _ _ hr'
  | nested sup v =>
    simp only [renderAssignment] at h
    cases hv : render title enumId body (sup.getLast?.map title) (.nested sup v) with
    | none => simp [hv] at h
    | some r' => simp [hv] at h; subst h; rw [hw]; exact evalR_render title enumId _ _ _ _ hv
  | arr xs =>
    simp only [renderAssignment] at h
    cases hv : render title enumId body none (.arr xs) with
    | none => simp [hv] at h
    | some r' => simp [hv] at h; subst h; rw [hw]; exact evalR_render title enumId _ _ _ _ hv

/-- the struct arm emits one argument per field -/
theorem renderFields_length : ∀ (ms : List VMember) (fs : List LField) (rs : List RExpr),
    renderFields title enumId ms fs = some rs → rs.length = fs.length ∧ fs.length = ms.length
  | [], [], rs, h => by simp only [renderFields] at h; cases h; simp
  | [], _ :: _, rs, h => by simp [renderFields] at h
  | _ :: _, [], rs, h => by simp [renderFields] at h
  | .mk mn mty d :: ms, .mk n v :: fs, rs, h => by
    simp only [renderFields] at h
    split at h
    · rename_i r rest hr hrest
      cases h
      have := renderFields_length ms fs rest hrest
      simp [this.1, this.2]
    · cases h

end Gen.Values

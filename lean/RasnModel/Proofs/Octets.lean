/- helper lemmas for Props/C07 (OCTET STRING values that do not fill their last octet) -/
import RasnModel.Lexer.Values
import RasnModel.Spec.Values
namespace Lexer.Values
open Spec.Values

def listsOfLen : Nat → List (List Bool)
  | 0 => [[]]
  | n + 1 => (listsOfLen n).flatMap fun l => [false :: l, true :: l]

theorem mem_listsOfLen : ∀ (l : List Bool), l ∈ listsOfLen l.length
  | [] => by simp [listsOfLen]
  | b :: t => by
    simp only [List.length_cons, listsOfLen, List.mem_flatMap]
    exact ⟨t, mem_listsOfLen t, by cases b <;> simp⟩

theorem chunk_table : ∀ n ∈ List.range 9, ∀ l ∈ listsOfLen n,
    chunkValue l = bitsToNat (l ++ List.replicate (8 - l.length) false) := by decide +kernel

theorem chunkValue_padded (l : List Bool) (h : l.length ≤ 8) :
    chunkValue l = bitsToNat (l ++ List.replicate (8 - l.length) false) :=
  chunk_table l.length (List.mem_range.mpr (by omega)) l (mem_listsOfLen l)

theorem bitsToOctets_padded : ∀ (f : Nat) (bits : List Bool), bits.length ≤ 8 * f →
    bitsToOctets (f + 1) bits = some (octetsOfBits (f + 1) bits)
  | 0, bits, h => by
    have : bits = [] := List.eq_nil_of_length_eq_zero (by omega)
    subst this; simp [bitsToOctets, octetsOfBits]
  | f + 1, bits, h => by
    rw [bitsToOctets, octetsOfBits]
    by_cases he : bits.isEmpty
    · simp [he]
    · have hd : (bits.drop 8).length ≤ 8 * f := by simp only [List.length_drop]; omega
      have ht : (bits.take 8).length ≤ 8 := by simp only [List.length_take]; omega
      simp only [he, if_false, Bool.false_eq_true]
      rw [bitsToOctets_padded f (bits.drop 8) hd, chunkValue_padded _ ht]
      rfl

end Lexer.Values

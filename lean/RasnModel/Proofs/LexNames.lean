import RasnModel.Props.Names
import RasnModel.Spec.RustIdent
/- helper lemmas: what the name scanners take lies in `Spec.Ident.Asn1Ident` -/
namespace Proofs.LexNames
open Lexer.Names Spec.Ident

theorem upper_tab : ∀ k, k < 26 → upperLetters.contains (Char.ofNat (65 + k)) = true := by decide
theorem lower_tab : ∀ k, k < 26 → lowerLetters.contains (Char.ofNat (97 + k)) = true := by decide
theorem digit_tab : ∀ k, k < 10 → digits.contains (Char.ofNat (48 + k)) = true := by decide

theorem upper_mem (c : Char) (h : isUpper c = true) : upperLetters.contains c = true := by
  have h1 : 65 ≤ c.toNat ∧ c.toNat ≤ 90 := by simpa [isUpper] using h
  have e : c = Char.ofNat (65 + (c.toNat - 65)) := by
    have : 65 + (c.toNat - 65) = c.toNat := by omega
    rw [this]; simp
  rw [e]; exact upper_tab _ (by omega)

theorem lower_mem (c : Char) (h : isLower c = true) : lowerLetters.contains c = true := by
  have h1 : 97 ≤ c.toNat ∧ c.toNat ≤ 122 := by simpa [isLower] using h
  have e : c = Char.ofNat (97 + (c.toNat - 97)) := by
    have : 97 + (c.toNat - 97) = c.toNat := by omega
    rw [this]; simp
  rw [e]; exact lower_tab _ (by omega)

theorem digit_mem (c : Char) (h : isDigit c = true) : digits.contains c = true := by
  have h1 : 48 ≤ c.toNat ∧ c.toNat ≤ 57 := by simpa [isDigit] using h
  have e : c = Char.ofNat (48 + (c.toNat - 48)) := by
    have : 48 + (c.toNat - 48) = c.toNat := by omega
    rw [this]; simp
  rw [e]; exact digit_tab _ (by omega)

theorem alpha_letter (c : Char) (h : isAlpha c = true) : isLetter c = true := by
  simp only [isAlpha, Bool.or_eq_true] at h
  simp only [isLetter, Bool.or_eq_true]
  rcases h with h | h
  · right; exact upper_mem c h
  · left; exact lower_mem c h

theorem alnum_asnChar (c : Char) (h : isAlnum c = true) : asnChar c = true := by
  simp only [isAlnum, Bool.or_eq_true] at h
  simp only [asnChar, Bool.or_eq_true]
  rcases h with h | h
  · left; left; exact alpha_letter c h
  · left; right; exact digit_mem c h

theorem alnum_ne_hyphen (c : Char) (h : isAlnum c = true) : c ≠ '-' := by
  intro e; subst e; revert h; decide

/-- every character of a well-formed tail is a character of a name -/
theorem wfTail_chars : ∀ (t : List Char), wfTail t = true → ∀ d ∈ t, asnChar d = true
  | [], _, d, hd => by cases hd
  | c :: cs, hw, d, hd => by
    unfold wfTail at hw
    split at hw
    · rename_i h
      cases hd with
      | head => exact alnum_asnChar _ h
      | tail _ hm => exact wfTail_chars cs hw d hm
    · split at hw
      · rename_i hc
        have e : c = '-' := by simpa using hc
        cases cs with
        | nil => simp at hw
        | cons x xs =>
          simp only [Bool.and_eq_true] at hw
          cases hd with
          | head => subst e; decide
          | tail _ hm =>
            cases hm with
            | head => exact alnum_asnChar _ hw.1
            | tail _ hm2 => exact wfTail_chars xs hw.2 d hm2
      · cases hw

theorem hyphensOk_cons_ne (p : Char) (t : List Char) (hp : p ≠ '-') : hyphensOk (p :: t) = hyphensOk t := by
  rw [hyphensOk]
  · intro h; exact absurd h hp
  · intro _ h; exact absurd h hp
theorem hyphensOk_hyphen_cons (x : Char) (xs : List Char) (hx : x ≠ '-') : hyphensOk ('-' :: x :: xs) = hyphensOk (x :: xs) := by
  rw [hyphensOk]
  · intro _ h; simp at h
  · intro _ _ h; simp at h; exact absurd h.1 hx

/-- a well-formed tail behind a character that is no hyphen has its hyphens in order -/
theorem wfTail_hyphens : ∀ (t : List Char) (p : Char), p ≠ '-' → wfTail t = true → hyphensOk (p :: t) = true
  | [], p, hp, _ => by
    rw [hyphensOk_cons_ne p [] hp]; rfl
  | c :: cs, p, hp, hw => by
    rw [hyphensOk_cons_ne p _ hp]
    unfold wfTail at hw
    split at hw
    · rename_i h
      exact wfTail_hyphens cs c (alnum_ne_hyphen c h) hw
    · split at hw
      · rename_i hc
        have e : c = '-' := by simpa using hc
        subst e
        cases cs with
        | nil => simp at hw
        | cons x xs =>
          simp only [Bool.and_eq_true] at hw
          have hx := alnum_ne_hyphen x hw.1
          rw [hyphensOk_hyphen_cons x xs hx]
          exact wfTail_hyphens xs x hx hw.2
      · cases hw

/-- **the names the lexer hands on lie in the domain of the C16 theorems**: whatever one of the three scanners
    takes is an `Asn1Ident` (the hypothesis of `C16_title_legal`, `C16_snake_legal`, `C16_recoverable`, …) -/
theorem scanned_is_Asn1Ident (first : Char → Bool) (hf : ∀ c, first c = true → isAlpha c = true)
    (inp name rest : List Char) (h : scanName first inp = some (name, rest)) : Asn1Ident name := by
  have hs := (Props.Names.scan_sound first inp name rest h).1
  cases name with
  | nil => simp [wfName] at hs
  | cons c t =>
    simp only [wfName, Bool.and_eq_true] at hs
    have hl := alpha_letter c (hf c hs.1)
    have hne : c ≠ '-' := by intro e; subst e; revert hl; decide
    exact ⟨hl, wfTail_chars t hs.2, wfTail_hyphens t c hne hs.2⟩

end Proofs.LexNames

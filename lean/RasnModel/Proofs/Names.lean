import RasnModel.Gen.Names
import RasnModel.Spec.RustIdent
/- helper lemmas for Props/C16: finite per-character facts by `decide`, lifted by induction -/
namespace Proofs.Names
open Gen.Names Spec.Ident Extracted.Names

/-- alphabet of an ASN.1 name after `-` ↦ `_` -/
def A' : List Char := lowerLetters ++ upperLetters ++ digits ++ ['_']
def letters : List Char := lowerLetters ++ upperLetters
/-- characters `to_rust_snake_case` may emit -/
def snakeOut (c : Char) : Bool := lowerLetters.contains c || digits.contains c || c == '_'
def snakeA : List Char := lowerLetters ++ digits ++ ['_']
def constOut (c : Char) : Bool := upperLetters.contains c || digits.contains c || c == '_'

-- finite facts ------------------------------------------------------------------------------
theorem f_snake_step : A'.all (fun c => if (c.isLower || c == '_' || c.isDigit) then snakeOut c else snakeOut c.toLower) = true := by decide
theorem f_snake_head : letters.all (fun c => if (c.isLower || c == '_' || c.isDigit) then lowerLetters.contains c else lowerLetters.contains c.toLower) = true := by decide
theorem f_snakeA_cont : snakeA.all identCont = true := by decide
theorem f_lower_start : lowerLetters.all (fun c => identStart c && c != '_') = true := by decide
theorem f_upper_start : upperLetters.all (fun c => identStart c && c != '_') = true := by decide
theorem f_kwsub : strictReserved2021.all (fun k => rustKeywords.contains k) = true := by decide
theorem f_rprefix : rustKeywords.all (fun k => !strictReserved2021.contains ('r' :: '_' :: k)) = true := by decide
theorem f_Rprefix : rustKeywords.all (fun k => !strictReserved2021.contains ('R' :: '_' :: k)) = true := by decide
theorem f_Rprefix_hy : rustKeywords.all (fun k => !strictReserved2021.contains ('R' :: '_' :: k.map hy)) = true := by decide
theorem f_res_has_lower : strictReserved2021.all (fun k => k.any (fun c => lowerLetters.contains c)) = true := by decide
theorem f_res_no_underscore : strictReserved2021.all (fun k => !k.contains '_') = true := by decide
theorem f_res_tail_no_upper : strictReserved2021.all (fun k => k.tail.all (fun c => !upperLetters.contains c)) = true := by decide
theorem f_upper_of_snakeA : snakeA.all (fun c => constOut c.toUpper && !lowerLetters.contains c.toUpper) = true := by decide
theorem f_upper_of_lower : lowerLetters.all (fun c => upperLetters.contains c.toUpper) = true := by decide
theorem f_A'_cont : A'.all identCont = true := by decide
theorem f_A'_upper_cont : A'.all (fun c => identCont c.toUpper) = true := by decide
theorem f_letters_title_first : letters.all (fun c => if c.isLower then upperLetters.contains c.toUpper else upperLetters.contains c) = true := by decide
theorem f_hy_A' : (lowerLetters ++ upperLetters ++ digits ++ ['-']).all (fun c => A'.contains (hy c)) = true := by decide
theorem f_hy_letter : letters.all (fun c => hy c == c) = true := by decide

theorem all_mem {p : Char → Bool} {l : List Char} (h : l.all p = true) {c : Char} (hc : c ∈ l) : p c = true :=
  List.all_eq_true.mp h c hc

theorem contains_mem {l : List Char} {c : Char} (h : l.contains c = true) : c ∈ l := by
  simpa using h

theorem snakeOut_mem {c : Char} (h : snakeOut c = true) : c ∈ snakeA := by
  simp only [snakeOut, Bool.or_eq_true, beq_iff_eq] at h
  simp only [snakeA, List.mem_append, List.mem_singleton]
  rcases h with (h | h) | h
  · exact Or.inl (Or.inl (contains_mem h))
  · exact Or.inl (Or.inr (contains_mem h))
  · exact Or.inr h

theorem isLetter_mem {c : Char} (h : isLetter c = true) : c ∈ letters := by
  simp only [isLetter, Bool.or_eq_true] at h
  simp only [letters, List.mem_append]
  rcases h with h | h
  · exact Or.inl (contains_mem h)
  · exact Or.inr (contains_mem h)

theorem asnChar_hy_mem {c : Char} (h : asnChar c = true) : hy c ∈ A' := by
  have hm : c ∈ lowerLetters ++ upperLetters ++ digits ++ ['-'] := by
    simp only [asnChar, isLetter, Bool.or_eq_true, beq_iff_eq] at h
    simp only [List.mem_append, List.mem_singleton]
    rcases h with ((h | h) | h) | h
    · exact Or.inl (Or.inl (Or.inl (contains_mem h)))
    · exact Or.inl (Or.inl (Or.inr (contains_mem h)))
    · exact Or.inl (Or.inr (contains_mem h))
    · exact Or.inr h
  exact contains_mem (all_mem f_hy_A' hm)

theorem letter_asnChar {c : Char} (h : isLetter c = true) : asnChar c = true := by
  simp [asnChar, h]

-- snake ----------------------------------------------------------------------------------------
theorem snakeLoop_chars : ∀ s : List Char, (∀ c ∈ s, c ∈ A') → ∀ d ∈ snakeLoop s, snakeOut d = true := by
  intro s
  induction s with
  | nil => intro _ d hd; simp [snakeLoop] at hd
  | cons c rest ih =>
    intro hs d hd
    have hc := all_mem f_snake_step (hs c List.mem_cons_self)
    have ih' := ih (fun x hx => hs x (List.mem_cons_of_mem _ hx))
    simp only [snakeLoop] at hd
    split at hd
    · rename_i hcond
      simp only [hcond, if_true] at hc
      split at hd
      · rcases List.mem_cons.mp hd with e | e
        · rw [e]; exact hc
        · rcases List.mem_cons.mp e with e | e
          · rw [e]; decide
          · exact ih' d e
      · rcases List.mem_cons.mp hd with e | e
        · rw [e]; exact hc
        · exact ih' d e
    · rename_i hcond
      simp only [hcond] at hc
      rcases List.mem_cons.mp hd with e | e
      · rw [e]; exact hc
      · exact ih' d e

theorem snakeLoop_head (c : Char) (rest : List Char) (hc : c ∈ letters) :
    ∃ h t, snakeLoop (c :: rest) = h :: t ∧ h ∈ lowerLetters := by
  have hf := all_mem f_snake_head hc
  simp only [snakeLoop]
  split
  · rename_i hcond
    simp only [hcond, if_true] at hf
    split
    · exact ⟨c, _, rfl, contains_mem hf⟩
    · exact ⟨c, _, rfl, contains_mem hf⟩
  · rename_i hcond
    simp only [hcond] at hf
    exact ⟨c.toLower, _, rfl, contains_mem hf⟩

theorem map_hy_A' {s : List Char} (h : ∀ d ∈ s, asnChar d = true) : ∀ c ∈ s.map hy, c ∈ A' := by
  intro c hc
  rcases List.mem_map.mp hc with ⟨d, hd, e⟩
  rw [← e]; exact asnChar_hy_mem (h d hd)

theorem hy_letter {c : Char} (hc : c ∈ letters) : hy c = c := by
  have := all_mem f_hy_letter hc
  simpa using this

theorem not_reserved_of_not_kw {s : List Char} (h : rustKeywords.contains s = false) : s ∉ strictReserved2021 := by
  intro hm
  have := List.all_eq_true.mp f_kwsub s hm
  rw [h] at this; cases this

/-- the unescaped snake string of an ASN.1 name -/
theorem snake_core (c : Char) (t : List Char) (hl : isLetter c = true) (ht : ∀ d ∈ t, asnChar d = true) :
    ∃ h r, snakeLoop ((c :: t).map hy) = h :: r ∧ h ∈ lowerLetters ∧ ∀ d ∈ h :: r, snakeOut d = true := by
  have hcl := isLetter_mem hl
  have hall : ∀ d ∈ c :: t, asnChar d = true := by
    intro d hd
    rcases List.mem_cons.mp hd with e | e
    · rw [e]; exact letter_asnChar hl
    · exact ht d e
  have hchars := snakeLoop_chars _ (map_hy_A' hall)
  simp only [List.map_cons, hy_letter hcl] at hchars ⊢
  obtain ⟨h, r, e, hh⟩ := snakeLoop_head c (t.map hy) hcl
  exact ⟨h, r, e, hh, by rw [← e]; exact hchars⟩

end Proofs.Names

import RasnModel.Gen.Struct
import RasnModel.Spec.Struct
/- helper lemmas for Props/C05 and Props/C02: index arithmetic of the extension marks -/
namespace Proofs.Struct
open IR Lexer Gen.Struct Spec.Struct

theorem isGroupName_group (cs : List SrcComp) : isGroupName (groupMember cs).name = true := by
  simp [isGroupName, groupMember, SrcComp.name, extGroupPrefix, String.toList_append]

/-- positions before the first-extension index carry no mark -/
theorem ext_before (p : SrcComp → Bool) (n : Nat) : ∀ (l : List SrcComp) (k : Nat), k + l.length ≤ n →
    (l.zipIdx k).map (fun (ci : SrcComp × Nat) => extAnnotation ci.2 (some n) (p ci.1)) = l.map (fun _ => ExtF.none) := by
  intro l
  induction l with
  | nil => intro k _; rfl
  | cons c t ih =>
    intro k h
    simp only [List.zipIdx_cons, List.map_cons, List.length_cons] at h ⊢
    rw [ih (k + 1) (by omega)]
    have : ¬ k ≥ n := by omega
    simp [extAnnotation, this]

/-- positions from the first-extension index on are additions (groups by name) -/
theorem ext_after (p : SrcComp → Bool) (n : Nat) : ∀ (l : List SrcComp) (k : Nat), n ≤ k →
    (l.zipIdx k).map (fun (ci : SrcComp × Nat) => extAnnotation ci.2 (some n) (p ci.1)) =
      l.map (fun c => if p c then ExtF.group else ExtF.addition) := by
  intro l
  induction l with
  | nil => intro k _; rfl
  | cons c t ih =>
    intro k h
    simp only [List.zipIdx_cons, List.map_cons]
    rw [ih (k + 1) (by omega)]
    simp [extAnnotation, h]

theorem ext_none (p : SrcComp → Bool) : ∀ (l : List SrcComp) (k : Nat),
    (l.zipIdx k).map (fun (ci : SrcComp × Nat) => extAnnotation ci.2 none (p ci.1)) = l.map (fun _ => ExtF.none) := by
  intro l
  induction l with
  | nil => intro k; rfl
  | cons c t ih => intro k; simp only [List.zipIdx_cons, List.map_cons]; rw [ih (k + 1)]; rfl

/-- the same three facts for ENUMERATED items (no groups) -/
theorem enum_before (n : Nat) : ∀ (l : List String) (k : Nat), k + l.length ≤ n →
    (l.zipIdx k).map (fun (ci : String × Nat) => extAnnotation ci.2 (some n) false) = l.map (fun _ => ExtF.none) := by
  intro l
  induction l with
  | nil => intro k _; rfl
  | cons c t ih =>
    intro k h
    simp only [List.zipIdx_cons, List.map_cons, List.length_cons] at h ⊢
    rw [ih (k + 1) (by omega)]
    have : ¬ k ≥ n := by omega
    simp [extAnnotation, this]

theorem enum_after (n : Nat) : ∀ (l : List String) (k : Nat), n ≤ k →
    (l.zipIdx k).map (fun (ci : String × Nat) => extAnnotation ci.2 (some n) false) = l.map (fun _ => ExtF.addition) := by
  intro l
  induction l with
  | nil => intro k _; rfl
  | cons c t ih =>
    intro k h
    simp only [List.zipIdx_cons, List.map_cons]
    rw [ih (k + 1) (by omega)]
    simp [extAnnotation, h]

theorem enum_none : ∀ (l : List String) (k : Nat),
    (l.zipIdx k).map (fun (ci : String × Nat) => extAnnotation ci.2 none false) = l.map (fun _ => ExtF.none) := by
  intro l
  induction l with
  | nil => intro k; rfl
  | cons c t ih => intro k; simp only [List.zipIdx_cons, List.map_cons]; rw [ih (k + 1)]; rfl

/-- the extension mark the spec gives an addition -/
def addExt : SrcAdd → ExtF
  | .comp _ => .addition
  | .group _ _ => .group

/-- user-written component names are ASN.1 identifiers: they never carry the internal group prefix -/
def addNamesOk : SrcAdd → Bool
  | .comp c => !isGroupName c.name
  | .group _ _ => true

theorem lexAdds_ext (adds : List SrcAdd) (h : ∀ a ∈ adds, addNamesOk a = true) :
    (lexAdds adds).map (fun c => if isGroupName c.name then ExtF.group else ExtF.addition) = adds.map addExt := by
  induction adds with
  | nil => rfl
  | cons a t ih =>
    simp only [lexAdds, List.map_cons] at ih ⊢
    rw [ih (fun x hx => h x (List.mem_cons_of_mem _ hx))]
    have ha := h a List.mem_cons_self
    cases a with
    | comp c => simp only [addNamesOk, Bool.not_eq_true'] at ha; simp [lexAdd, addExt, ha]
    | group v cs => simp [lexAdd, addExt, isGroupName_group]

theorem flatMap_congr' {α β : Type} {f g : α → List β} : ∀ (l : List α), (∀ a ∈ l, f a = g a) → l.flatMap f = l.flatMap g := by
  intro l
  induction l with
  | nil => intro _; rfl
  | cons a t ih =>
    intro h
    simp only [List.flatMap_cons]
    rw [h a List.mem_cons_self, ih (fun x hx => h x (List.mem_cons_of_mem _ hx))]

end Proofs.Struct

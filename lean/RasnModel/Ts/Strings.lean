/-
  C07 / C18 — character string constants of the TypeScript backend.  Model of
  generator/typescript/utils.rs::string_literal: one pass over the characters, `"` and `\` get a backslash in
  front, line feed and carriage return become `\n` and `\r`, everything else is copied; double quotes around it.
  Spec: `readBody`, the reading of a double-quoted ECMAScript string literal (ECMA-262 12.9.4) as far as the
  printer uses it: a backslash makes the next character literal (`n` and `r` stand for line feed and carriage
  return), an unescaped `"` ends the literal, a raw line terminator is not allowed inside.
  Import-free.
-/
namespace Ts.Strings

def escChar (c : Char) : List Char :=
  if c == '"' then ['\\', '"']
  else if c == '\\' then ['\\', '\\']
  else if c == '\n' then ['\\', 'n']
  else if c == '\r' then ['\\', 'r']
  else [c]

def escape : List Char → List Char
  | [] => []
  | c :: cs => escChar c ++ escape cs

def stringLiteral (s : List Char) : List Char := '"' :: (escape s ++ ['"'])

/-- the seeded variant of round nine, kept as a counterexample: a chain of whole-string replacements that
    escapes `"` BEFORE `\` (the backslash just written is escaped again) -/
def escapeChained (s : List Char) : List Char :=
  let a := s.flatMap fun c => if c == '"' then ['\\', '"'] else [c]
  a.flatMap fun c => if c == '\\' then ['\\', '\\'] else [c]

def unescape (c : Char) : Char := if c == 'n' then '\n' else if c == 'r' then '\r' else c

/-- read the body of a literal (behind the opening quote): the characters it denotes and what follows the closing quote -/
def readBody : List Char → Option (List Char × List Char)
  | [] => none                                   -- unterminated
  | '"' :: rest => some ([], rest)
  | '\\' :: c :: rest => (readBody rest).map fun (s, r) => (unescape c :: s, r)
  | ['\\'] => none
  | c :: rest => if c == '\n' || c == '\r' then none else (readBody rest).map fun (s, r) => (c :: s, r)

def readLiteral : List Char → Option (List Char × List Char)
  | '"' :: rest => readBody rest
  | _ => none

end Ts.Strings

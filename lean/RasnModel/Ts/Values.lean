/-
  C18 — brackets of a TypeScript list value.  Model of the `LinkedArrayLikeValue` arm of
  generator/typescript/utils.rs::value_to_tokens: a fold that appends every rendered element and a
  comma to "[", then removes the separator behind the last element and closes the bracket.
  `renderListOld` is the arm as it was before fix `e19183e` (it removed the last character whatever it was).
-/
namespace Ts.Values

def step (d : Int) (c : Char) : Int := if c == '[' then d + 1 else if c == ']' then d - 1 else d

/-- scanning left to right from depth `d`, the depth never drops below zero and ends at zero -/
def balancedFrom : Int → List Char → Bool
  | d, [] => d == 0
  | d, c :: cs => decide (0 ≤ step d c) && balancedFrom (step d c) cs

def balanced (s : List Char) : Bool := balancedFrom 0 s

/-- `try_fold(String::from("["), |acc, v| acc + v + ",")` -/
def foldElems (xs : List (List Char)) : List Char := xs.foldl (fun acc v => acc ++ v ++ [',']) ['[']

/-- after the fix: only a trailing separator is removed -/
def renderList (xs : List (List Char)) : List Char :=
  let s := foldElems xs
  (if s.getLast? == some ',' then s.dropLast else s) ++ [']']

/-- before the fix: `s.pop()` -/
def renderListOld (xs : List (List Char)) : List Char := (foldElems xs).dropLast ++ [']']

theorem step_add (d e : Int) (c : Char) : step (d + e) c = d + step e c := by
  unfold step
  split
  · omega
  · split <;> omega

/-- a chunk that is balanced on its own is transparent at any depth -/
theorem balanced_chunk : ∀ (x : List Char) (e d : Int) (rest : List Char), 0 ≤ d → 0 ≤ e →
    balancedFrom e x = true → balancedFrom (d + e) (x ++ rest) = balancedFrom d rest
  | [], e, d, rest, _, _, h => by
    simp only [balancedFrom, beq_iff_eq] at h
    simp [h]
  | c :: cs, e, d, rest, hd, he, h => by
    simp only [balancedFrom, Bool.and_eq_true, decide_eq_true_eq] at h
    simp only [List.cons_append, balancedFrom, step_add]
    have : (0 : Int) ≤ d + step e c := by omega
    simp only [this, decide_true, Bool.true_and]
    exact balanced_chunk cs (step e c) d rest hd h.1 h.2

theorem foldl_eq (xs : List (List Char)) (acc : List Char) :
    xs.foldl (fun acc v => acc ++ v ++ [',']) acc = acc ++ xs.flatMap (fun v => v ++ [',']) := by
  induction xs generalizing acc with
  | nil => simp
  | cons x xs ih =>
    rw [List.foldl_cons, ih, List.flatMap_cons]
    simp only [List.append_assoc]

theorem foldElems_eq (xs : List (List Char)) : foldElems xs = '[' :: xs.flatMap (fun v => v ++ [',']) := by
  unfold foldElems
  rw [foldl_eq]
  rfl

theorem chunks_transparent (xs : List (List Char)) (h : ∀ x, x ∈ xs → balanced x = true) (d : Int) (hd : 0 ≤ d) (rest : List Char) :
    balancedFrom d (xs.flatMap (fun v => v ++ [',']) ++ rest) = balancedFrom d rest := by
  induction xs with
  | nil => simp
  | cons x xs ih =>
    have hx : balanced x = true := h x List.mem_cons_self
    simp only [List.flatMap_cons, List.append_assoc]
    have := balanced_chunk x 0 d ([','] ++ (xs.flatMap (fun v => v ++ [',']) ++ rest)) hd (by omega) hx
    simp only [Int.add_zero] at this
    rw [this]
    have hs : step d ',' = d := by unfold step; simp
    simp only [List.cons_append, List.nil_append, balancedFrom, hs, hd, decide_true, Bool.true_and]
    exact ih (fun y hy => h y (List.mem_cons_of_mem _ hy))

/-- **every list value has balanced brackets** when its elements have, the empty list included -/
theorem renderList_balanced (xs : List (List Char)) (h : ∀ x, x ∈ xs → balanced x = true) : balanced (renderList xs) = true := by
  rcases List.eq_nil_or_concat xs with rfl | ⟨ys, z, hx⟩
  · decide
  · have hx' : xs = ys ++ [z] := by simpa using hx
    subst hx'
    have hz : balanced z = true := h z (by simp)
    have hys : ∀ y, y ∈ ys → balanced y = true := fun y hy => h y (by simp [hy])
    have e : foldElems (ys ++ [z]) = ('[' :: (ys.flatMap (fun v => v ++ [',']) ++ z)) ++ [','] := by
      rw [foldElems_eq, List.flatMap_append]
      simp only [List.flatMap_cons, List.flatMap_nil, List.append_nil, List.cons_append, List.append_assoc]
    have hl : (foldElems (ys ++ [z])).getLast? = some ',' := by rw [e]; exact List.getLast?_concat
    have hdrop : (foldElems (ys ++ [z])).dropLast = '[' :: (ys.flatMap (fun v => v ++ [',']) ++ z) := by
      rw [e]; exact List.dropLast_concat
    simp only [renderList, hl, beq_self_eq_true, ↓reduceIte, hdrop, balanced]
    have h1 : step 0 '[' = 1 := by decide
    simp only [List.cons_append, balancedFrom, h1]
    simp only [show decide ((0:Int) ≤ 1) = true by decide, Bool.true_and, List.append_assoc]
    rw [chunks_transparent ys hys 1 (by omega)]
    have := balanced_chunk z 0 1 [']'] (by omega) (by omega) hz
    simp only [Int.add_zero] at this
    rw [this]
    decide

/-- the arm as it was: the empty list value renders as `]` -/
theorem renderListOld_counterexample : renderListOld [] = [']'] ∧ balanced (renderListOld []) = false := by decide

/-- non-vacuity: `[[1],[]]` -/
example : renderList [['[', '1', ']'], ['[', ']']] = "[[1],[]]".toList ∧ balanced (renderList [['[', '1', ']'], ['[', ']']]) = true := by decide

end Ts.Values

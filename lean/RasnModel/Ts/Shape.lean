import RasnModel.IR.Src
import RasnModel.Lexer.Assemble
import RasnModel.Gen.Struct
/-
  C18 — TypeScript declarations.
  `Ty` is the parse tree of a TypeScript type under TypeScript's own precedence (postfix `[]` binds
  tighter than `|`). `specTy` is the JER shape (X.697) of a type of the supported notation;
  `modelTy` mirrors generator/typescript/utils.rs (`type_to_tokens`, `format_sequence_or_set_members`,
  `format_choice_options`, `array_element_to_tokens`) on what the lexer assembles, reading the
  string concatenations of the code through TypeScript's grammar.
-/
namespace Ts
open IR Lexer

mutual
inductive Ty where
  | name : String → Ty
  | lit : String → Ty
  | obj : List Member → Bool → Ty          -- members in order; index signature `[key: string]: any`
  | arr : Ty → Ty
  | union : List Ty → Ty
inductive Member where
  | mk : String → Bool → Ty → Member       -- name, `?`, type
end

/-- `to_jer_identifier` -/
def mangle (s : String) : String := String.ofList (s.toList.map fun c => if c == '-' then '_' else c)

/-- a one-alternative union is printed (and parsed) as the alternative itself -/
def mkUnion : List Ty → Ty
  | [x] => x
  | xs => .union xs

def bitStringObj : Ty := .obj [.mk "value" false (.name "string"), .mk "length" false (.name "number")] false

/-- `type_to_tokens` on built-in types (taken from the code: modelled, not judged) -/
def primTs (p : String) : Ty :=
  if p == "NULL" then .name "null"
  else if p == "BOOLEAN" then .name "boolean"
  else if p == "INTEGER" || p == "REAL" then .name "number"
  else if p == "BIT STRING" then bitStringObj
  else if p == "ANY" || p == "EXTERNAL" || p == "EMBEDDED PDV" then .name "any"
  else .name "string"

def isUnion : Ty → Bool
  | .union _ => true
  | _ => false

/-! ### the JER shape -/

mutual
def specTy : SrcType → Ty
  | .prim p => primTs p
  | .ref r => .name (mangle r)
  | .seq _ root marker adds => .obj (specComps root ++ specAdds adds) marker
  | .choice root _ adds => mkUnion (specAlts root ++ specAddAlts adds)
  | .enumerated root _ adds => mkUnion ((root ++ adds).map Ty.lit)
  | .seqOf _ e _ => .arr (specTy e)
def specComp : SrcComp → Member
  | .mk n _ t o => .mk (mangle n) (o != .required) (specTy t)
def specComps : List SrcComp → List Member
  | [] => []
  | c :: cs => specComp c :: specComps cs
def specAdd : SrcAdd → List Member
  | .comp c => [specComp c]
  | .group _ cs => specComps cs          -- the components of a version group are components of the type
def specAdds : List SrcAdd → List Member
  | [] => []
  | a :: as => specAdd a ++ specAdds as
def specAlt : SrcComp → Ty
  | .mk n _ t _ => .obj [.mk (mangle n) false (specTy t)] false
def specAlts : List SrcComp → List Ty
  | [] => []
  | c :: cs => specAlt c :: specAlts cs
def specAddAlt : SrcAdd → List Ty
  | .comp c => [specAlt c]
  | .group _ cs => specAlts cs
def specAddAlts : List SrcAdd → List Ty
  | [] => []
  | a :: as => specAddAlt a ++ specAddAlts as
end

/-! ### the code -/

mutual
/-- appending `[]` to the text of a type: it attaches to the last alternative of a union -/
def appendArr : Ty → Ty
  | .union xs => .union (appendArrLast xs)
  | t => .arr t
def appendArrLast : List Ty → List Ty
  | [] => []
  | [x] => [appendArr x]
  | x :: y :: xs => x :: appendArrLast (y :: xs)
end

mutual
def modelTy : SrcType → Ty
  | .prim p => primTs p
  | .ref r => .name (mangle r)
  | .seq _ root marker adds => .obj (modelComps root ++ modelAdds adds) marker
  | .choice root _ adds => mkUnion (modelAlts root ++ modelAddAlts adds)
  | .enumerated root _ adds => mkUnion ((root ++ adds).map Ty.lit)
  -- `array_element_to_tokens`: parentheses exactly around inline ENUMERATED / CHOICE elements
  | .seqOf _ (.enumerated root m adds) _ => .arr (modelTy (.enumerated root m adds))
  | .seqOf _ (.choice root m adds) _ => .arr (modelTy (.choice root m adds))
  | .seqOf _ e _ => appendArr (modelTy e)
/-- a member whose name carries the lexer's group prefix and whose type is an inline SEQUENCE is inlined -/
def modelComp : SrcComp → List Member
  | .mk n _ (.seq s root marker adds) o =>
    if Gen.Struct.isGroupName n then modelComps root ++ modelAdds adds
    else [.mk (mangle n) (o != .required) (.obj (modelComps root ++ modelAdds adds) marker)]
  | .mk n _ t o => [.mk (mangle n) (o != .required) (modelTy t)]
def modelComps : List SrcComp → List Member
  | [] => []
  | c :: cs => modelComp c ++ modelComps cs
/-- the lexer turns `[[ cs ]]` into the member `groupMember cs` = `ext_group_<first> SEQUENCE { cs }` -/
def modelAdd : SrcAdd → List Member
  | .comp c => modelComp c
  | .group _ cs =>
    if Gen.Struct.isGroupName (groupMember cs).name then modelComps cs
    else [.mk (mangle (groupMember cs).name) false (.obj (modelComps cs) false)]
def modelAdds : List SrcAdd → List Member
  | [] => []
  | a :: as => modelAdd a ++ modelAdds as
def modelAlt : SrcComp → Ty
  | .mk n _ t _ => .obj [.mk (mangle n) false (modelTy t)] false
def modelAlts : List SrcComp → List Ty
  | [] => []
  | c :: cs => modelAlt c :: modelAlts cs
def modelAddAlt : SrcAdd → List Ty
  | .comp c => [modelAlt c]
  | .group _ cs => modelAlts cs
def modelAddAlts : List SrcAdd → List Ty
  | [] => []
  | a :: as => modelAddAlt a ++ modelAddAlts as
end

/-! ### top-level declarations (builder.rs) -/

inductive Decl where
  | alias (name : String) (ty : Ty)
  | enum (name : String) (members : List (String × String))   -- (identifier, string value)

/-- shared by spec and model: which template a type assignment uses -/
def declWith (f : SrcType → Ty) (name : String) : SrcType → Decl
  | .enumerated root _ adds => .enum (mangle name) ((root ++ adds).map fun n => (mangle n, n))
  | .prim "OCTET STRING" => .alias (mangle name) (.union [.name "string", .name "object"])
  | t => .alias (mangle name) (f t)

def specDecl := declWith specTy
def modelDecl := declWith modelTy

/-! ### domain: identifiers of the notation cannot carry the lexer's group prefix (no `_` in ASN.1) -/

mutual
def Plain : SrcType → Bool
  | .prim _ => true
  | .ref _ => true
  | .seq _ root _ adds => PlainComps root && PlainAdds adds
  | .choice root _ adds => PlainComps root && PlainAdds adds
  | .enumerated _ _ _ => true
  | .seqOf _ e _ => Plain e
def PlainComp : SrcComp → Bool
  | .mk n _ t _ => !Gen.Struct.isGroupName n && Plain t
def PlainComps : List SrcComp → Bool
  | [] => true
  | c :: cs => PlainComp c && PlainComps cs
def PlainAdd : SrcAdd → Bool
  | .comp c => PlainComp c
  | .group _ cs => PlainComps cs
def PlainAdds : List SrcAdd → Bool
  | [] => true
  | a :: as => PlainAdd a && PlainAdds as
end

end Ts

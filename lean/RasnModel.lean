-- root of the library: property theorems and the driver handlers
import RasnModel.Props.C06
import RasnModel.Driver.C06
import RasnModel.Props.C14
import RasnModel.Driver.C14
import RasnModel.Props.C16
import RasnModel.Driver.C16
import RasnModel.Props.C05
import RasnModel.Driver.Struct
import RasnModel.Props.C02
import RasnModel.Props.C03
import RasnModel.Props.C04
import RasnModel.Driver.C04
import RasnModel.Props.C15
import RasnModel.Props.C07
import RasnModel.Driver.C07
import RasnModel.Props.C17
import RasnModel.Driver.C17

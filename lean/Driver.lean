import RasnModel.Driver.C04
import RasnModel.Driver.C06
import RasnModel.Driver.C07
import RasnModel.Driver.C14
import RasnModel.Driver.C15
import RasnModel.Driver.C16
import RasnModel.Driver.C17
import RasnModel.Driver.Struct
import RasnModel.Driver.Pipeline
import RasnModel.Driver.C08
import RasnModel.Driver.Recursion
import RasnModel.Driver.C09
import RasnModel.Driver.C12
import RasnModel.Driver.C13
import RasnModel.Driver.C18
import RasnModel.Driver.C19
import RasnModel.Driver.C20
/- Line-protocol driver: one request per line, one canonical answer per line. -/

def dispatch (line : String) : String :=
  match Sexp.parseLine line with
  | some (.atom "c04" :: args) => Driver.C04.handle args
  | some (.atom "c04sound" :: args) => Driver.C04.handleSound args
  | some (.atom "c06" :: args) => Driver.C06.handle args
  | some (.atom "c06set" :: args) => Driver.C06.handleSet args
  | some (.atom "c07" :: args) => Driver.C07.handle args
  | some (.atom "c07link" :: args) => Driver.C07.handleLink args
  | some (.atom "c07render" :: args) => Driver.C07.handleRender args
  | some (.atom "tsstr" :: args) => Driver.C07.handleTsStr args
  | some (.atom "c14" :: args) => Driver.C14.handle args
  | some (.atom "c14legal" :: args) => Driver.C14.handleLegal args
  | some (.atom "c15" :: args) => Driver.C15.handle args
  | some (.atom "c16" :: args) => Driver.C16.handle args
  | some (.atom "scanname" :: args) => Driver.C16.handleScan args
  | some (.atom "c17slice" :: args) => Driver.C17.handleSlice args
  | some (.atom "c17report" :: args) => Driver.C17.handleReport args
  | some (.atom "c17ctx" :: args) => Driver.C17.handleCtx args
  | some (.atom "struct" :: args) => Driver.Struct.handle args
  | some (.atom "recgraph" :: args) => Driver.Struct.handleRec args
  | some (.atom "c08chase" :: args) => Driver.C08.handle args
  | some (.atom "recmark" :: args) => Driver.Recursion.handle args
  | some (.atom "c09" :: args) => Driver.C09.handle args
  | some (.atom "c09params" :: args) => Driver.C09.handleParams args
  | some (.atom "c12use" :: args) => Driver.C12.handle args
  | some (.atom "c13skip" :: args) => Driver.C13.handle args
  | some (.atom "c18" :: args) => Driver.C18.handle args
  | some (.atom "tslist" :: args) => Driver.C18.handleList args
  | some (.atom "c19" :: args) => Driver.C19.handle args
  | some (.atom "c20" :: args) => Driver.C20.handle args
  | some (.atom "c20find" :: args) => Driver.C20.handleFind args
  | some (.atom "c20macro" :: args) => Driver.C20.handleMacro args
  | some (.atom "pipe" :: args) => Driver.Pipeline.handle args
  | some (.atom "ping" :: _) => "pong"
  | _ => "bad-op"

partial def loop (h : IO.FS.Stream) (out : IO.FS.Stream) : IO Unit := do
  let line ← h.getLine
  if line.isEmpty then return ()
  out.putStrLn (dispatch line.trimAscii.toString)
  loop h out

def main : IO Unit := do
  let out ← IO.getStdout
  loop (← IO.getStdin) out
  out.flush

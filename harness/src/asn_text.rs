//! ASN.1 text utilities shared by C13 / C17 / C08: an X.680 tokeniser and a pool of assignments
//! whose token boundaries are known.

#[derive(Debug, Clone, PartialEq)]
pub struct Tok {
    pub start: usize,
    pub end: usize,
    /// word | number | punct | cstring | bhstring
    pub kind: &'static str,
}

/// X.680 §12 lexical items (comments and white space are skipped).
pub fn tokenize(s: &str) -> Vec<Tok> {
    let b = s.as_bytes();
    let mut out = Vec::new();
    let mut i = 0;
    while i < b.len() {
        let c = b[i];
        if c == b' ' || c == b'\t' || c == b'\r' || c == b'\n' {
            i += 1;
            continue;
        }
        if c == b'-' && i + 1 < b.len() && b[i + 1] == b'-' {
            // line comment: ends at end of line or at the next `--`
            i += 2;
            while i < b.len() && b[i] != b'\n' {
                if b[i] == b'-' && i + 1 < b.len() && b[i + 1] == b'-' {
                    i += 2;
                    break;
                }
                i += 1;
            }
            continue;
        }
        if c == b'/' && i + 1 < b.len() && b[i + 1] == b'*' {
            let mut depth = 1;
            i += 2;
            while i < b.len() && depth > 0 {
                if b[i] == b'/' && i + 1 < b.len() && b[i + 1] == b'*' {
                    depth += 1;
                    i += 2;
                } else if b[i] == b'*' && i + 1 < b.len() && b[i + 1] == b'/' {
                    depth -= 1;
                    i += 2;
                } else {
                    i += 1;
                }
            }
            continue;
        }
        let start = i;
        if c == b'"' {
            i += 1;
            loop {
                if i >= b.len() {
                    break;
                }
                if b[i] == b'"' {
                    if i + 1 < b.len() && b[i + 1] == b'"' {
                        i += 2;
                        continue;
                    }
                    i += 1;
                    break;
                }
                i += 1;
            }
            out.push(Tok { start, end: i, kind: "cstring" });
            continue;
        }
        if c == b'\'' {
            i += 1;
            while i < b.len() && b[i] != b'\'' {
                i += 1;
            }
            i = (i + 1).min(b.len());
            if i < b.len() && (b[i] == b'B' || b[i] == b'H') {
                i += 1;
            }
            out.push(Tok { start, end: i, kind: "bhstring" });
            continue;
        }
        // X.681 §7: `&` and the following word form one lexical item (field reference)
        if c.is_ascii_alphabetic() || (c == b'&' && i + 1 < b.len() && b[i + 1].is_ascii_alphabetic()) {
            i += 1;
            while i < b.len() && (b[i].is_ascii_alphanumeric() || (b[i] == b'-' && i + 1 < b.len() && b[i + 1].is_ascii_alphanumeric())) {
                i += 1;
            }
            out.push(Tok { start, end: i, kind: "word" });
            continue;
        }
        // a minus sign directly in front of digits is kept with the number (X.680 allows white space
        // between the two lexical items; the property is not exercised at that boundary)
        if c.is_ascii_digit() || (c == b'-' && i + 1 < b.len() && b[i + 1].is_ascii_digit()) {
            i += 1;
            while i < b.len() && b[i].is_ascii_digit() {
                i += 1;
            }
            out.push(Tok { start, end: i, kind: "number" });
            continue;
        }
        for p in ["::=", "...", "[[", "]]", ".."] {
            if s[i..].starts_with(p) {
                i += p.len();
                break;
            }
        }
        if i == start {
            // single character (may be multi-byte)
            let ch = s[i..].chars().next().unwrap();
            i += ch.len_utf8();
        }
        out.push(Tok { start, end: i, kind: "punct" });
    }
    out
}

/// assignments of the supported notation with `{n}` as a unique suffix
pub const ASSIGNMENTS: [&str; 16] = [
    "A{n} ::= INTEGER (0..255)",
    "B{n} ::= SEQUENCE {\n    a INTEGER,\n    b BOOLEAN OPTIONAL,\n    ...\n}",
    "C{n} ::= CHOICE { x NULL, y [1] UTF8String }",
    "E{n} ::= ENUMERATED { r, g(5), ... }",
    "v{n} INTEGER ::= 5",
    "L{n} ::= SEQUENCE (SIZE (1..4)) OF BOOLEAN",
    "S{n} ::= SET {\n    m [0] IA5String (SIZE (1..8)) DEFAULT \"x\",\n    n OCTET STRING\n}",
    "T{n} ::= [APPLICATION 3] IMPLICIT OCTET STRING",
    "w{n} BOOLEAN ::= TRUE",
    "F{n} ::= BIT STRING { f0(0), f1(1) }",
    "O{n} ::= SEQUENCE { id OBJECT IDENTIFIER, val A1x OPTIONAL }",
    "N{n} ::= INTEGER { one(1), two(2) } (1..2)",
    "s{n} UTF8String ::= \"abc\"",
    "R{n} ::= SEQUENCE OF SEQUENCE { k INTEGER (0..7), l NULL }",
    // a name that begins like the END of the module
    "ENDpoint{n} ::= BOOLEAN",
    // a long definition: more than 600 characters of indented lines before the next definition starts
    "G{n} ::= SEQUENCE {\n    m00 [0] INTEGER (0..100) OPTIONAL,\n    m01 [1] INTEGER (0..101) OPTIONAL,\n    m02 [2] INTEGER (0..102) OPTIONAL,\n    m03 [3] INTEGER (0..103) OPTIONAL,\n    m04 [4] INTEGER (0..104) OPTIONAL,\n    m05 [5] INTEGER (0..105) OPTIONAL,\n    m06 [6] INTEGER (0..106) OPTIONAL,\n    m07 [7] INTEGER (0..107) OPTIONAL,\n    m08 [8] INTEGER (0..108) OPTIONAL,\n    m09 [9] INTEGER (0..109) OPTIONAL,\n    m10 [10] INTEGER (0..110) OPTIONAL,\n    m11 [11] INTEGER (0..111) OPTIONAL,\n    m12 [12] INTEGER (0..112) OPTIONAL,\n    m13 [13] INTEGER (0..113) OPTIONAL,\n    m14 [14] INTEGER (0..114) OPTIONAL,\n    m15 [15] INTEGER (0..115) OPTIONAL,\n    m16 [16] INTEGER (0..116) OPTIONAL,\n    m17 [17] INTEGER (0..117) OPTIONAL,\n    last BOOLEAN\n}",
];

pub struct BuiltModule {
    pub text: String,
    /// byte range of the header (`Name DEFINITIONS … BEGIN`)
    pub header: (usize, usize),
    /// byte range of each assignment's own tokens
    pub assignments: Vec<(usize, usize)>,
    pub end_kw: (usize, usize),
}

/// Build one module text from chosen assignments with a newline style and optional comments.
pub fn build_module(name: &str, picks: &[usize], uid: usize, crlf: bool, comments: bool) -> BuiltModule {
    let nl = if crlf { "\r\n" } else { "\n" };
    let mut text = String::new();
    let hstart = 0;
    text.push_str(&format!("{name} DEFINITIONS AUTOMATIC TAGS ::= BEGIN"));
    let hend = text.len();
    text.push_str(nl);
    text.push_str(&format!("A1x ::= INTEGER{nl}"));
    let mut assignments = Vec::new();
    for (k, p) in picks.iter().enumerate() {
        if comments {
            match k % 3 {
                0 => text.push_str(&format!("-- comment {k} --{nl}")),
                1 => text.push_str(&format!("/* block {k}{nl} still comment */{nl}")),
                _ => text.push_str(&format!("-- to end of line {k}{nl}")),
            }
        }
        let a = ASSIGNMENTS[*p % ASSIGNMENTS.len()].replace("{n}", &format!("{uid}x{k}")).replace('\n', nl);
        let start = text.len();
        text.push_str(&a);
        assignments.push((start, text.len()));
        text.push_str(nl);
        if k % 4 == 3 {
            text.push_str(nl);
        }
    }
    let estart = text.len();
    text.push_str("END");
    let eend = text.len();
    text.push_str(nl);
    BuiltModule { text, header: (hstart, hend), assignments, end_kw: (estart, eend) }
}

//! Report produced by a correspondence run; the python `check` turns it into verdict + evidence.
use serde_json::{json, Value};
use std::collections::{BTreeMap, BTreeSet};

#[derive(Default)]
pub struct Report {
    pub property: String,
    pub evaluations: u64,
    pub distinct: BTreeSet<String>,
    pub rule: String,
    pub samples: Vec<Value>,
    pub distribution: BTreeMap<String, u64>,
    /// model vs implementation
    pub disagreements: Vec<Value>,
    /// spec evaluated on the implementation's output is false
    pub unsat: Vec<Value>,
    /// harness/oracle problems that are neither (reported separately)
    pub harness_errors: Vec<String>,
    pub exhaustive: bool,
    pub extra: BTreeMap<String, Value>,
}

impl Report {
    pub fn new(p: &str, rule: &str) -> Self {
        Report { property: p.into(), rule: rule.into(), ..Default::default() }
    }
    pub fn count(&mut self, key: &str) {
        *self.distribution.entry(key.to_string()).or_insert(0) += 1;
    }
    pub fn sample(&mut self, v: Value) {
        if self.samples.len() < 8 {
            self.samples.push(v);
        }
    }
    pub fn disagree(&mut self, v: Value) {
        if self.disagreements.len() < 200 {
            self.disagreements.push(v);
        }
        self.count("DISAGREE");
    }
    /// `class`: finding class the failing input falls in ("" = none); `agrees`: impl output equals the (defective) model's
    pub fn unsat(&mut self, class: &str, agrees: bool, v: Value) {
        self.count(&format!("UNSAT[{class}]"));
        let per_class = self.unsat.iter().filter(|u| u["class"] == class).count();
        if per_class < 50 {
            self.unsat.push(json!({"class": class, "agrees_with_model": agrees, "case": v}));
        }
    }
    pub fn to_json(&self) -> Value {
        json!({
            "property": self.property,
            "evaluations": self.evaluations,
            "distinct_nontrivial": self.distinct.len(),
            "rule": self.rule,
            "samples": self.samples,
            "distribution": self.distribution,
            "disagreements": self.disagreements,
            "unsat": self.unsat,
            "harness_errors": self.harness_errors,
            "exhaustive": self.exhaustive,
            "extra": self.extra,
        })
    }
}

pub struct RunCfg {
    pub thorough: bool,
    pub seed: u64,
    /// search mode: an obligation is broken, widen the budget
    pub search: bool,
    pub replay: Option<Value>,
}

impl RunCfg {
    pub fn budget(&self, quick: usize, thorough: usize) -> usize {
        let b = if self.thorough { thorough } else { quick };
        if self.search { b * 4 } else { b }
    }
}

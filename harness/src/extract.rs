//! verif-extract: the translator. Parses the *current* /repo sources with `syn` and emits Lean
//! definitions for a small first-order Rust subset, tables, and site inventories.
//! Anything outside the accepted subset is refused (the obligation is then broken).
use quote::ToTokens;
use std::collections::BTreeMap;
use syn::visit::Visit;
use syn::{BinOp, Expr, ExprMatch, ImplItem, Item, Lit, Pat, Stmt, UnOp};

pub fn repo_src() -> std::path::PathBuf {
    std::env::var("VERIF_REPO")
        .map(std::path::PathBuf::from)
        .unwrap_or_else(|_| "/repo".into())
        .join("rasn-compiler/src")
}

pub fn parse_file(rel: &str) -> Result<syn::File, String> {
    let p = repo_src().join(rel);
    let text = std::fs::read_to_string(&p).map_err(|e| format!("{}: {e}", p.display()))?;
    syn::parse_file(&text).map_err(|e| format!("{}: {e}", p.display()))
}

/// Find `fn name` anywhere in the file (free fn, or inside `impl Ty` when `in_impl` is given).
pub fn find_fn<'a>(file: &'a syn::File, in_impl: Option<&str>, name: &str) -> Option<FnRef<'a>> {
    fn walk<'a>(items: &'a [Item], in_impl: Option<&str>, name: &str) -> Option<FnRef<'a>> {
        for it in items {
            match it {
                Item::Fn(f) if in_impl.is_none() && f.sig.ident == name => {
                    return Some(FnRef { sig: &f.sig, block: &f.block })
                }
                Item::Impl(i) => {
                    let ty = i.self_ty.to_token_stream().to_string().replace(' ', "");
                    let tr = i.trait_.as_ref().map(|(_, p, _)| p.to_token_stream().to_string().replace(' ', ""));
                    let ok = match in_impl {
                        None => false,
                        Some(want) => {
                            ty == want
                                || ty.starts_with(&format!("{want}<"))
                                || tr.as_ref().map(|t| format!("{t} for {ty}") == want).unwrap_or(false)
                        }
                    };
                    if ok {
                        for ii in &i.items {
                            if let ImplItem::Fn(f) = ii {
                                if f.sig.ident == name {
                                    return Some(FnRef { sig: &f.sig, block: &f.block });
                                }
                            }
                        }
                    }
                }
                Item::Mod(m) => {
                    if let Some((_, items)) = &m.content {
                        if m.ident != "tests" {
                            if let Some(r) = walk(items, in_impl, name) {
                                return Some(r);
                            }
                        }
                    }
                }
                _ => {}
            }
        }
        None
    }
    walk(&file.items, in_impl, name)
}

pub struct FnRef<'a> {
    pub sig: &'a syn::Signature,
    pub block: &'a syn::Block,
}

/// Translation context: how Rust paths / enum constructors map to Lean.
#[derive(Default, Clone)]
pub struct Ctx {
    /// e.g. "IntegerType" -> Lean namespace for its constructors
    pub enums: BTreeMap<String, String>,
    /// macro `format_ident!("..")` treated as the string it formats
    pub strings_as: Option<String>,
    /// local renames (Rust ident -> Lean expr)
    pub subst: BTreeMap<String, String>,
}

fn const_path(p: &str) -> Option<String> {
    Some(
        match p {
            "u8::MAX" => "255",
            "u16::MAX" => "65535",
            "u32::MAX" => "4294967295",
            "u64::MAX" => "18446744073709551615",
            "u8::MIN" | "u16::MIN" | "u32::MIN" | "u64::MIN" => "0",
            "i8::MAX" => "127",
            "i16::MAX" => "32767",
            "i32::MAX" => "2147483647",
            "i64::MAX" => "9223372036854775807",
            "i128::MAX" => "170141183460469231731687303715884105727",
            "i8::MIN" => "(-128)",
            "i16::MIN" => "(-32768)",
            "i32::MIN" => "(-2147483648)",
            "i64::MIN" => "(-9223372036854775808)",
            "i128::MIN" => "(-170141183460469231731687303715884105728)",
            _ => return None,
        }
        .to_string(),
    )
}

pub fn lean_str(s: &str) -> String {
    let mut o = String::from("\"");
    for c in s.chars() {
        match c {
            '"' => o.push_str("\\\""),
            '\\' => o.push_str("\\\\"),
            '\n' => o.push_str("\\n"),
            '\t' => o.push_str("\\t"),
            '\r' => o.push_str("\\r"),
            c if (c as u32) < 0x20 || (c as u32) == 0x7f => o.push_str(&format!("\\u{{{:x}}}", c as u32)),
            c => o.push(c),
        }
    }
    o.push('"');
    o
}

pub fn lean_char(c: char) -> String {
    format!("(Char.ofNat {})", c as u32)
}

impl Ctx {
    pub fn path(&self, p: &syn::Path) -> Result<String, String> {
        let s = p.to_token_stream().to_string().replace(' ', "");
        if let Some(c) = const_path(&s) {
            return Ok(c);
        }
        if p.segments.len() == 1 {
            let id = p.segments[0].ident.to_string();
            if let Some(r) = self.subst.get(&id) {
                return Ok(r.clone());
            }
            if id == "None" {
                return Ok("none".into());
            }
            if id == "true" || id == "false" {
                return Ok(id);
            }
            return Ok(lean_ident(&id));
        }
        if p.segments.len() == 2 {
            let a = p.segments[0].ident.to_string();
            let b = p.segments[1].ident.to_string();
            let a = if a == "Self" { self.enums.get("Self").cloned().unwrap_or(a) } else { a };
            if let Some(ns) = self.enums.get(&a) {
                return Ok(format!("{ns}.{b}"));
            }
        }
        Err(format!("path outside subset: {s}"))
    }

    pub fn pat(&self, p: &Pat) -> Result<String, String> {
        match p {
            Pat::Wild(_) => Ok("_".into()),
            Pat::Ident(i) if i.subpat.is_none() => {
                let id = i.ident.to_string();
                if id == "None" { Ok("none".into()) } else { Ok(lean_ident(&id)) }
            }
            Pat::Path(pp) => self.path(&pp.path),
            Pat::Tuple(t) => {
                let parts: Result<Vec<_>, _> = t.elems.iter().map(|e| self.pat(e)).collect();
                Ok(parts?.join(", "))
            }
            Pat::TupleStruct(ts) => {
                let head = ts.path.to_token_stream().to_string().replace(' ', "");
                let parts: Result<Vec<_>, _> = ts.elems.iter().map(|e| self.pat(e)).collect();
                let parts = parts?;
                if head == "Some" {
                    Ok(format!("some {}", parts.join(" ")))
                } else {
                    Ok(format!("({} {})", self.path(&ts.path)?, parts.join(" ")))
                }
            }
            Pat::Or(o) => {
                let parts: Result<Vec<_>, _> = o.cases.iter().map(|e| self.pat(e)).collect();
                Ok(parts?.join(" | "))
            }
            Pat::Lit(l) => self.lit(&l.lit),
            Pat::Reference(r) => self.pat(&r.pat),
            Pat::Paren(p) => self.pat(&p.pat),
            other => Err(format!("pattern outside subset: {}", other.to_token_stream())),
        }
    }

    pub fn lit(&self, l: &Lit) -> Result<String, String> {
        match l {
            Lit::Int(i) => Ok(i.base10_digits().to_string()),
            Lit::Bool(b) => Ok(if b.value { "true".into() } else { "false".into() }),
            Lit::Str(s) => Ok(lean_str(&s.value())),
            Lit::Char(c) => Ok(lean_char(c.value())),
            other => Err(format!("literal outside subset: {}", other.to_token_stream())),
        }
    }

    fn irrefutable(p: &Pat) -> bool {
        match p {
            Pat::Wild(_) => true,
            Pat::Ident(i) => i.subpat.is_none() && i.ident != "None",
            Pat::Tuple(t) => t.elems.iter().all(Self::irrefutable),
            Pat::Paren(p) => Self::irrefutable(&p.pat),
            _ => false,
        }
    }

    /// `let pat := scrut` bindings for an irrefutable pattern.
    fn bind(&self, p: &Pat, scrut: &Expr) -> Result<String, String> {
        match (p, scrut) {
            (Pat::Wild(_), _) => Ok(String::new()),
            (Pat::Ident(i), e) => Ok(format!("let {} := {}; ", lean_ident(&i.ident.to_string()), self.expr(e)?)),
            (Pat::Tuple(t), Expr::Tuple(et)) if t.elems.len() == et.elems.len() => {
                let mut s = String::new();
                for (pp, ee) in t.elems.iter().zip(et.elems.iter()) {
                    s.push_str(&self.bind(pp, ee)?);
                }
                Ok(s)
            }
            (Pat::Paren(p), e) => self.bind(&p.pat, e),
            _ => Err(format!("binding outside subset: {}", p.to_token_stream())),
        }
    }

    fn match_expr(&self, m: &ExprMatch) -> Result<String, String> {
        // sequential translation: leading guarded irrefutable arms become if-chains, the rest one `match`
        let mut prefix = String::new();
        let mut closers = 0;
        let mut idx = 0;
        while idx < m.arms.len() {
            let arm = &m.arms[idx];
            if Self::irrefutable(&arm.pat) {
                let b = self.bind(&arm.pat, &m.expr)?;
                match &arm.guard {
                    Some((_, g)) => {
                        prefix.push_str(&format!("({b}if {} then {} else ", self.expr(g)?, self.expr(&arm.body)?));
                        closers += 1;
                        idx += 1;
                        continue;
                    }
                    None => {
                        prefix.push_str(&format!("({b}{})", self.expr(&arm.body)?));
                        idx = m.arms.len() + 1;
                        break;
                    }
                }
            }
            break;
        }
        if idx < m.arms.len() {
            // remaining arms: must be unguarded
            let scrut = match &*m.expr {
                Expr::Tuple(t) => {
                    let parts: Result<Vec<_>, _> = t.elems.iter().map(|e| self.expr(e)).collect();
                    parts?.join(", ")
                }
                e => self.expr(e)?,
            };
            let mut s = format!("(match {scrut} with");
            for arm in &m.arms[idx..] {
                if arm.guard.is_some() {
                    return Err("guard after refutable arm: outside subset".into());
                }
                let mut pat = self.pat(&arm.pat)?;
                if let (Expr::Tuple(t), Pat::Wild(_)) = (&*m.expr, &arm.pat) {
                    pat = vec!["_"; t.elems.len()].join(", ");
                }
                s.push_str(&format!(" | {} => {}", pat, self.expr(&arm.body)?));
            }
            s.push(')');
            prefix.push_str(&s);
        } else if idx == m.arms.len() {
            return Err("match without final catch-all: outside subset".into());
        }
        for _ in 0..closers {
            prefix.push(')');
        }
        Ok(prefix)
    }

    pub fn block(&self, b: &syn::Block) -> Result<String, String> {
        self.stmts(&b.stmts)
    }

    pub fn stmts(&self, stmts: &[Stmt]) -> Result<String, String> {
        let mut s = String::new();
        let mut closers = 0;
        for (i, st) in stmts.iter().enumerate() {
            let last = i + 1 == stmts.len();
            match st {
                Stmt::Local(l) => {
                    let init = l.init.as_ref().ok_or("let without init")?;
                    if init.diverge.is_some() {
                        return Err("let-else outside subset".into());
                    }
                    let name = match &l.pat {
                        Pat::Ident(i) => lean_ident(&i.ident.to_string()),
                        Pat::Type(t) => match &*t.pat {
                            Pat::Ident(i) => lean_ident(&i.ident.to_string()),
                            _ => return Err("let pattern outside subset".into()),
                        },
                        _ => return Err("let pattern outside subset".into()),
                    };
                    s.push_str(&format!("(let {name} := {}; ", self.expr(&init.expr)?));
                    closers += 1;
                }
                Stmt::Expr(e, None) if last => s.push_str(&self.expr(e)?),
                Stmt::Expr(Expr::Return(r), _) if last => {
                    s.push_str(&self.expr(r.expr.as_ref().ok_or("bare return")?)?)
                }
                other => return Err(format!("statement outside subset: {}", other.to_token_stream())),
            }
        }
        for _ in 0..closers {
            s.push(')');
        }
        Ok(s)
    }

    pub fn expr(&self, e: &Expr) -> Result<String, String> {
        match e {
            Expr::Lit(l) => self.lit(&l.lit),
            Expr::Path(p) => self.path(&p.path),
            Expr::Paren(p) => Ok(format!("({})", self.expr(&p.expr)?)),
            Expr::Group(p) => self.expr(&p.expr),
            Expr::Reference(r) => self.expr(&r.expr),
            Expr::Unary(u) => match u.op {
                UnOp::Deref(_) => self.expr(&u.expr),
                UnOp::Not(_) => Ok(format!("(!{})", self.expr(&u.expr)?)),
                UnOp::Neg(_) => Ok(format!("(-{})", self.expr(&u.expr)?)),
                _ => Err("unary op outside subset".into()),
            },
            Expr::Binary(b) => {
                let l = self.expr(&b.left)?;
                let r = self.expr(&b.right)?;
                let op = match b.op {
                    BinOp::Ge(_) => "≥",
                    BinOp::Le(_) => "≤",
                    BinOp::Gt(_) => ">",
                    BinOp::Lt(_) => "<",
                    BinOp::Eq(_) => "==",
                    BinOp::Ne(_) => "!=",
                    BinOp::And(_) => "&&",
                    BinOp::Or(_) => "||",
                    BinOp::Add(_) => "+",
                    BinOp::Sub(_) => "-",
                    BinOp::Mul(_) => "*",
                    _ => return Err(format!("binary op outside subset: {}", b.op.to_token_stream())),
                };
                match b.op {
                    BinOp::Ge(_) | BinOp::Le(_) | BinOp::Gt(_) | BinOp::Lt(_) => {
                        Ok(format!("(decide ({l} {op} {r}))"))
                    }
                    _ => Ok(format!("({l} {op} {r})")),
                }
            }
            Expr::If(i) => {
                let els = i.else_branch.as_ref().ok_or("if without else outside subset")?;
                match &*i.cond {
                    Expr::Let(l) => {
                        // if let PAT = SCRUT { a } else { b }
                        let scrut = match &*l.expr {
                            Expr::Tuple(t) => {
                                let parts: Result<Vec<_>, _> = t.elems.iter().map(|e| self.expr(e)).collect();
                                parts?.join(", ")
                            }
                            e => self.expr(e)?,
                        };
                        let wild = match &*l.pat {
                            Pat::Tuple(t) => vec!["_"; t.elems.len()].join(", "),
                            _ => "_".into(),
                        };
                        Ok(format!(
                            "(match {scrut} with | {} => {} | {wild} => {})",
                            self.pat(&l.pat)?,
                            self.block(&i.then_branch)?,
                            self.expr(&els.1)?
                        ))
                    }
                    c => Ok(format!(
                        "(if {} then {} else {})",
                        self.expr(c)?,
                        self.block(&i.then_branch)?,
                        self.expr(&els.1)?
                    )),
                }
            }
            Expr::Block(b) => self.block(&b.block),
            Expr::Match(m) => self.match_expr(m),
            Expr::MethodCall(mc) => {
                let m = mc.method.to_string();
                match m.as_str() {
                    "into" | "clone" | "to_owned" | "to_string" | "borrow" | "as_str" if mc.args.is_empty() => {
                        self.expr(&mc.receiver)
                    }
                    "min" | "max" if mc.args.len() == 1 => Ok(format!(
                        "({} {} {})",
                        if m == "min" { "min" } else { "max" },
                        self.expr(&mc.receiver)?,
                        self.expr(&mc.args[0])?
                    )),
                    "is_some" if mc.args.is_empty() => Ok(format!("({}).isSome", self.expr(&mc.receiver)?)),
                    "is_none" if mc.args.is_empty() => Ok(format!("({}).isNone", self.expr(&mc.receiver)?)),
                    _ => Err(format!("method outside subset: {m}")),
                }
            }
            Expr::Macro(m) => {
                let name = m.mac.path.to_token_stream().to_string().replace(' ', "");
                if name == "format_ident" {
                    // format_ident!("{x}") -> x ; format_ident!("Lit") -> "Lit"
                    let toks = m.mac.tokens.to_string();
                    let lit: syn::LitStr = syn::parse_str(&toks).map_err(|_| "format_ident! with arguments outside subset")?;
                    let v = lit.value();
                    if v.starts_with('{') && v.ends_with('}') {
                        Ok(lean_ident(&v[1..v.len() - 1]))
                    } else {
                        Ok(lean_str(&v))
                    }
                } else if name == "unreachable" {
                    Err("unreachable! outside subset".into())
                } else {
                    Err(format!("macro outside subset: {name}"))
                }
            }
            Expr::Call(c) => {
                let f = c.func.to_token_stream().to_string().replace(' ', "");
                let args: Result<Vec<_>, _> = c.args.iter().map(|a| self.expr(a)).collect();
                let args = args?;
                if f == "Some" {
                    Ok(format!("(some {})", args.join(" ")))
                } else if let Expr::Path(p) = &*c.func {
                    Ok(format!("({} {})", self.path(&p.path)?, args.join(" ")))
                } else {
                    Err(format!("call outside subset: {f}"))
                }
            }
            Expr::Tuple(t) => {
                let parts: Result<Vec<_>, _> = t.elems.iter().map(|e| self.expr(e)).collect();
                Ok(format!("({})", parts?.join(", ")))
            }
            Expr::Cast(c) => self.expr(&c.expr),
            Expr::Field(f) => {
                let key = f.to_token_stream().to_string().replace(' ', "");
                self.subst.get(&key).cloned().ok_or(format!("field access outside subset: {key}"))
            }
            other => Err(format!("expression outside subset: {}", other.to_token_stream())),
        }
    }
}

pub fn lean_ident(s: &str) -> String {
    // Lean keywords that may appear as Rust identifiers
    match s {
        "from" | "at" | "end" | "then" | "do" | "in" | "fun" | "show" | "have" | "with" | "open" | "section" => {
            format!("{s}'")
        }
        _ => s.to_string(),
    }
}

/// Variants of a field-less (or any) enum, by name.
pub fn enum_variants(file: &syn::File, name: &str) -> Option<Vec<String>> {
    for it in &file.items {
        if let Item::Enum(e) = it {
            if e.ident == name {
                return Some(e.variants.iter().map(|v| v.ident.to_string()).collect());
            }
        }
    }
    None
}

/// `static/const NAME: .. = [ "a", "b", .. ]` or `&[..]` or LazyLock wrapping a vec!/array of string literals.
pub fn string_table(file: &syn::File, name: &str) -> Option<Vec<String>> {
    struct V<'a> {
        name: &'a str,
        out: Option<Vec<String>>,
    }
    impl<'a, 'ast> Visit<'ast> for V<'a> {
        fn visit_item_const(&mut self, i: &'ast syn::ItemConst) {
            if i.ident == self.name {
                self.out = Some(collect_strs(&i.expr));
            }
        }
        fn visit_item_static(&mut self, i: &'ast syn::ItemStatic) {
            if i.ident == self.name {
                self.out = Some(collect_strs(&i.expr));
            }
        }
        fn visit_impl_item_const(&mut self, i: &'ast syn::ImplItemConst) {
            if i.ident == self.name {
                self.out = Some(collect_strs(&i.expr));
            }
        }
    }
    let mut v = V { name, out: None };
    v.visit_file(file);
    v.out
}

fn collect_strs(e: &Expr) -> Vec<String> {
    struct S(Vec<String>);
    impl<'ast> Visit<'ast> for S {
        fn visit_lit_str(&mut self, l: &'ast syn::LitStr) {
            self.0.push(l.value());
        }
        fn visit_macro(&mut self, m: &'ast syn::Macro) {
            // vec!["a", "b"]
            if let Ok(p) = m.parse_body_with(syn::punctuated::Punctuated::<Expr, syn::Token![,]>::parse_terminated) {
                for e in p.iter() {
                    self.visit_expr(e);
                }
            }
        }
    }
    let mut s = S(vec![]);
    s.visit_expr(e);
    s.0
}

pub fn lean_chars(s: &str) -> String {
    let parts: Vec<String> = s
        .chars()
        .map(|c| if c.is_ascii_alphanumeric() || c == '_' || c == ' ' || c == '-' { format!("'{c}'") } else { lean_char(c) })
        .collect();
    format!("[{}]", parts.join(", "))
}

//! syn projection of generated Rust bindings into structural facts.
use std::collections::BTreeMap;
use syn::{Attribute, Fields, Item, Meta};

#[derive(Debug, Clone, Default, PartialEq)]
pub struct Attrs {
    pub derives: Vec<String>,
    /// `#[rasn(k(args), k2, k3 = v)]` flattened to (key, args-without-whitespace)
    pub rasn: Vec<(String, String)>,
    pub non_exhaustive: bool,
    pub docs: Vec<String>,
    /// every other attribute, printed without whitespace
    pub other: Vec<String>,
}

impl Attrs {
    pub fn get(&self, k: &str) -> Option<&str> {
        self.rasn.iter().find(|(a, _)| a == k).map(|(_, v)| v.as_str())
    }
    pub fn has(&self, k: &str) -> bool {
        self.rasn.iter().any(|(a, _)| a == k)
    }
}

#[derive(Debug, Clone, PartialEq)]
pub struct FieldFacts {
    pub name: String,
    pub ty: String,
    pub attrs: Attrs,
}

#[derive(Debug, Clone, PartialEq)]
pub struct VariantFacts {
    pub name: String,
    pub payload: Option<String>,
    pub discriminant: Option<String>,
    pub attrs: Attrs,
}

#[derive(Debug, Clone, PartialEq)]
pub enum ItemKind {
    Struct { fields: Vec<FieldFacts>, tuple: bool },
    Enum { variants: Vec<VariantFacts> },
    Const { ty: String, init: String },
    Static { ty: String, init: String },
    Fn { ret: String, body: String },
    Impl { trait_: Option<String>, self_ty: String, body: String },
    Use { path: String },
    Macro { text: String },
    Other,
}

#[derive(Debug, Clone, PartialEq)]
pub struct ItemFacts {
    pub name: String,
    pub attrs: Attrs,
    pub kind: ItemKind,
}

#[derive(Debug, Clone, PartialEq)]
pub struct ModuleFacts {
    pub name: String,
    pub items: Vec<ItemFacts>,
}

impl ModuleFacts {
    pub fn item(&self, name: &str) -> Option<&ItemFacts> {
        self.items.iter().find(|i| {
            i.name == name && !matches!(i.kind, ItemKind::Impl { .. } | ItemKind::Use { .. })
        })
    }
    pub fn by_name(&self) -> BTreeMap<String, &ItemFacts> {
        let mut m = BTreeMap::new();
        for i in &self.items {
            if !matches!(i.kind, ItemKind::Impl { .. } | ItemKind::Use { .. }) {
                m.entry(i.name.clone()).or_insert(i);
            }
        }
        m
    }
}

pub fn ts<T: quote::ToTokens>(t: &T) -> String {
    let s = t.to_token_stream().to_string();
    squeeze(&s)
}

/// Remove the whitespace `TokenStream::to_string` inserts; keep one space between two
/// identifier-like characters (`pub fn`, `dyn X`).
pub fn squeeze(s: &str) -> String {
    let cs: Vec<char> = s.chars().collect();
    let mut o = String::new();
    let mut in_str = false;
    let mut i = 0;
    while i < cs.len() {
        let c = cs[i];
        if in_str {
            o.push(c);
            if c == '\\' && i + 1 < cs.len() {
                o.push(cs[i + 1]);
                i += 1;
            } else if c == '"' {
                in_str = false;
            }
        } else if c == '"' {
            in_str = true;
            o.push(c);
        } else if c.is_whitespace() {
            let prev = o.chars().last();
            let mut j = i;
            while j < cs.len() && cs[j].is_whitespace() {
                j += 1;
            }
            let next = cs.get(j).copied();
            let idc = |x: char| x.is_alphanumeric() || x == '_';
            if let (Some(p), Some(n)) = (prev, next) {
                if idc(p) && idc(n) {
                    o.push(' ');
                }
            }
            i = j;
            continue;
        } else {
            o.push(c);
        }
        i += 1;
    }
    o
}

pub fn attrs(a: &[Attribute]) -> Attrs {
    let mut out = Attrs::default();
    for at in a {
        let p = at.path();
        if p.is_ident("derive") {
            if let Meta::List(l) = &at.meta {
                let s = squeeze(&l.tokens.to_string());
                out.derives.extend(s.split(',').filter(|x| !x.is_empty()).map(|x| x.to_string()));
            }
        } else if p.is_ident("rasn") {
            if let Meta::List(l) = &at.meta {
                for (k, v) in split_meta(&l.tokens) {
                    out.rasn.push((k, v));
                }
            }
        } else if p.is_ident("non_exhaustive") {
            out.non_exhaustive = true;
        } else if p.is_ident("doc") {
            out.docs.push(ts(&at.meta));
        } else {
            out.other.push(ts(&at.meta));
        }
    }
    out
}

/// Split `a, b(c, d), e = "x"` at top-level commas into (key, args).
fn split_meta(tokens: &proc_macro2::TokenStream) -> Vec<(String, String)> {
    use proc_macro2::TokenTree;
    let mut out = Vec::new();
    let mut key = String::new();
    let mut val = String::new();
    let mut seen_key = false;
    for tt in tokens.clone() {
        match &tt {
            TokenTree::Punct(p) if p.as_char() == ',' => {
                if seen_key {
                    out.push((key.clone(), val.clone()));
                }
                key.clear();
                val.clear();
                seen_key = false;
            }
            TokenTree::Ident(i) if !seen_key => {
                key = i.to_string();
                seen_key = true;
            }
            TokenTree::Group(g) if seen_key && val.is_empty() => {
                val = squeeze(&g.stream().to_string());
            }
            other => {
                // `k = v`
                let s = squeeze(&other.to_string());
                if s != "=" {
                    val.push_str(&s);
                }
            }
        }
    }
    if seen_key {
        out.push((key, val));
    }
    out
}

fn fields(f: &Fields) -> (Vec<FieldFacts>, bool) {
    match f {
        Fields::Named(n) => (
            n.named
                .iter()
                .map(|f| FieldFacts {
                    name: f.ident.as_ref().map(|i| i.to_string()).unwrap_or_default(),
                    ty: ts(&f.ty),
                    attrs: attrs(&f.attrs),
                })
                .collect(),
            false,
        ),
        Fields::Unnamed(u) => (
            u.unnamed
                .iter()
                .enumerate()
                .map(|(i, f)| FieldFacts { name: i.to_string(), ty: ts(&f.ty), attrs: attrs(&f.attrs) })
                .collect(),
            true,
        ),
        Fields::Unit => (vec![], true),
    }
}

pub fn project_items(items: &[Item]) -> Vec<ItemFacts> {
    let mut out = Vec::new();
    for it in items {
        match it {
            Item::Struct(s) => {
                let (fs, tuple) = fields(&s.fields);
                out.push(ItemFacts {
                    name: s.ident.to_string(),
                    attrs: attrs(&s.attrs),
                    kind: ItemKind::Struct { fields: fs, tuple },
                });
            }
            Item::Enum(e) => {
                let variants = e
                    .variants
                    .iter()
                    .map(|v| {
                        let (fs, _) = fields(&v.fields);
                        VariantFacts {
                            name: v.ident.to_string(),
                            payload: fs.first().map(|f| f.ty.clone()),
                            discriminant: v.discriminant.as_ref().map(|(_, e)| ts(e)),
                            attrs: attrs(&v.attrs),
                        }
                    })
                    .collect();
                out.push(ItemFacts {
                    name: e.ident.to_string(),
                    attrs: attrs(&e.attrs),
                    kind: ItemKind::Enum { variants },
                });
            }
            Item::Const(c) => out.push(ItemFacts {
                name: c.ident.to_string(),
                attrs: attrs(&c.attrs),
                kind: ItemKind::Const { ty: ts(&c.ty), init: ts(&c.expr) },
            }),
            Item::Static(c) => out.push(ItemFacts {
                name: c.ident.to_string(),
                attrs: attrs(&c.attrs),
                kind: ItemKind::Static { ty: ts(&c.ty), init: ts(&c.expr) },
            }),
            Item::Fn(f) => out.push(ItemFacts {
                name: f.sig.ident.to_string(),
                attrs: attrs(&f.attrs),
                kind: ItemKind::Fn {
                    ret: match &f.sig.output {
                        syn::ReturnType::Default => String::new(),
                        syn::ReturnType::Type(_, t) => ts(t),
                    },
                    body: ts(&f.block),
                },
            }),
            Item::Impl(i) => out.push(ItemFacts {
                name: ts(&i.self_ty),
                attrs: attrs(&i.attrs),
                kind: ItemKind::Impl {
                    trait_: i.trait_.as_ref().map(|(_, p, _)| ts(p)),
                    self_ty: ts(&i.self_ty),
                    body: i.items.iter().map(|x| ts(x)).collect::<Vec<_>>().join(";"),
                },
            }),
            Item::Use(u) => out.push(ItemFacts {
                name: String::new(),
                attrs: attrs(&u.attrs),
                kind: ItemKind::Use { path: ts(&u.tree) },
            }),
            Item::Macro(m) => out.push(ItemFacts {
                name: m.ident.as_ref().map(|i| i.to_string()).unwrap_or_default(),
                attrs: attrs(&m.attrs),
                kind: ItemKind::Macro { text: ts(&m.mac) },
            }),
            Item::ExternCrate(_) => {}
            _ => out.push(ItemFacts { name: String::new(), attrs: Attrs::default(), kind: ItemKind::Other }),
        }
    }
    out
}

/// Parse generated bindings into per-module facts. Fails when the text is not a sequence of items.
pub fn project(generated: &str) -> Result<Vec<ModuleFacts>, String> {
    let file = syn::parse_file(generated).map_err(|e| format!("generated text does not parse: {e}"))?;
    let mut mods = Vec::new();
    for it in &file.items {
        if let Item::Mod(m) = it {
            let items = m.content.as_ref().map(|(_, v)| project_items(v)).unwrap_or_default();
            mods.push(ModuleFacts { name: m.ident.to_string(), items });
        }
    }
    Ok(mods)
}

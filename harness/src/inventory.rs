//! Site inventories of /repo's current sources, keyed by (file, enclosing fn, kind, ordinal, detail) —
//! never by line number. Compared by `check` with the committed, reviewed copy.
use quote::ToTokens;
use syn::visit::Visit;

#[derive(Debug, Clone, PartialEq, Eq, PartialOrd, Ord)]
pub struct Site {
    pub file: String,
    pub func: String,
    pub kind: String,
    pub ordinal: usize,
    pub detail: String,
}

struct V<'a> {
    file: &'a str,
    func: Vec<String>,
    in_test: usize,
    out: Vec<(String, String, String)>, // (func, kind, detail)
}

fn squeeze(s: String) -> String {
    let mut o = String::new();
    let mut prev_space = false;
    for c in s.chars() {
        if c.is_whitespace() {
            if !prev_space {
                o.push(' ');
            }
            prev_space = true;
        } else {
            o.push(c);
            prev_space = false;
        }
    }
    let o = o.trim().to_string();
    if o.len() > 90 { format!("{}…", &o[..o.char_indices().take_while(|(i, _)| *i < 88).last().map(|(i, c)| i + c.len_utf8()).unwrap_or(0)]) } else { o }
}

impl<'a> V<'a> {
    fn cur(&self) -> String {
        self.func.last().cloned().unwrap_or_else(|| "<top>".into())
    }
    fn push(&mut self, kind: &str, detail: String) {
        if self.in_test == 0 {
            self.out.push((self.cur(), kind.to_string(), squeeze(detail)));
        }
    }
}

fn is_test_attr(attrs: &[syn::Attribute]) -> bool {
    attrs.iter().any(|a| {
        let t = a.meta.to_token_stream().to_string().replace(' ', "");
        t == "test" || t == "cfg(test)"
    })
}

impl<'a, 'ast> Visit<'ast> for V<'a> {
    fn visit_item_mod(&mut self, m: &'ast syn::ItemMod) {
        let t = is_test_attr(&m.attrs) || m.ident == "tests";
        if t {
            self.in_test += 1;
        }
        syn::visit::visit_item_mod(self, m);
        if t {
            self.in_test -= 1;
        }
    }
    fn visit_item_fn(&mut self, f: &'ast syn::ItemFn) {
        let t = is_test_attr(&f.attrs);
        if t {
            self.in_test += 1;
        }
        self.func.push(f.sig.ident.to_string());
        syn::visit::visit_item_fn(self, f);
        self.func.pop();
        if t {
            self.in_test -= 1;
        }
    }
    fn visit_impl_item_fn(&mut self, f: &'ast syn::ImplItemFn) {
        self.func.push(f.sig.ident.to_string());
        syn::visit::visit_impl_item_fn(self, f);
        self.func.pop();
    }
    fn visit_item_static(&mut self, s: &'ast syn::ItemStatic) {
        let m = if matches!(s.mutability, syn::StaticMutability::Mut(_)) { "static mut" } else { "static" };
        self.push("global", format!("{m} {}: {}", s.ident, s.ty.to_token_stream()));
        syn::visit::visit_item_static(self, s);
    }
    fn visit_expr_unsafe(&mut self, u: &'ast syn::ExprUnsafe) {
        self.push("global", "unsafe block".into());
        syn::visit::visit_expr_unsafe(self, u);
    }
    fn visit_macro(&mut self, m: &'ast syn::Macro) {
        let name = m.path.to_token_stream().to_string().replace(' ', "");
        match name.as_str() {
            "todo" | "unimplemented" | "unreachable" | "panic" => self.push("panic", format!("{name}!({})", m.tokens)),
            "thread_local" | "lazy_static" => self.push("global", format!("{name}!")),
            _ => {}
        }
        // look inside macro bodies that are expression lists (vec!, matches!, quote! are opaque)
        if let Ok(args) = m.parse_body_with(syn::punctuated::Punctuated::<syn::Expr, syn::Token![,]>::parse_terminated) {
            for a in args.iter() {
                self.visit_expr(a);
            }
        }
    }
    fn visit_expr_method_call(&mut self, mc: &'ast syn::ExprMethodCall) {
        let m = mc.method.to_string();
        if m == "unwrap" || m == "expect" {
            self.push("panic", format!("{}.{m}({})", mc.receiver.to_token_stream(), mc.args.to_token_stream()));
        }
        syn::visit::visit_expr_method_call(self, mc);
    }
    fn visit_expr_call(&mut self, c: &'ast syn::ExprCall) {
        let t = c.to_token_stream().to_string().replace(' ', "");
        if t == "Ok(TokenStream::new())" || t == "Ok(String::new())" {
            self.push("silent", t);
        }
        let f = c.func.to_token_stream().to_string().replace(' ', "");
        if f.ends_with("env::var") || f.ends_with("env::var_os") || f.ends_with("env::vars") {
            self.push("global", format!("{f}({})", c.args.to_token_stream()));
        }
        syn::visit::visit_expr_call(self, c);
    }
    fn visit_type_path(&mut self, p: &'ast syn::TypePath) {
        if let Some(seg) = p.path.segments.last() {
            let id = seg.ident.to_string();
            if id == "HashMap" || id == "HashSet" {
                self.push("global", format!("hashed container {}", p.to_token_stream()));
            }
        }
        syn::visit::visit_type_path(self, p);
    }
    fn visit_expr_path(&mut self, p: &'ast syn::ExprPath) {
        let t = p.to_token_stream().to_string().replace(' ', "");
        if t.starts_with("HashSet::") || t.starts_with("HashMap::") {
            self.push("global", format!("hashed container {t}"));
        }
        syn::visit::visit_expr_path(self, p);
    }
    fn visit_expr_field(&mut self, f: &'ast syn::ExprField) {
        let t = f.to_token_stream().to_string().replace(' ', "");
        if t.starts_with("self.config.") || t.starts_with("config.") {
            self.push("cfg", t);
        }
        syn::visit::visit_expr_field(self, f);
    }
    fn visit_expr_index(&mut self, i: &'ast syn::ExprIndex) {
        self.push("panic", format!("index {}", i.to_token_stream()));
        syn::visit::visit_expr_index(self, i);
    }
}

pub fn scan(files: &[&str]) -> Result<Vec<Site>, String> {
    let mut sites = Vec::new();
    for rel in files {
        let file = crate::extract::parse_file(rel)?;
        let mut v = V { file: rel, func: vec![], in_test: 0, out: vec![] };
        v.visit_file(&file);
        let mut counters: std::collections::BTreeMap<(String, String), usize> = Default::default();
        for (func, kind, detail) in v.out {
            let c = counters.entry((func.clone(), kind.clone())).or_insert(0);
            sites.push(Site { file: v.file.to_string(), func, kind, ordinal: *c, detail });
            *c += 1;
        }
    }
    Ok(sites)
}

pub fn all_source_files() -> Vec<String> {
    fn walk(dir: &std::path::Path, base: &std::path::Path, out: &mut Vec<String>) {
        if let Ok(rd) = std::fs::read_dir(dir) {
            let mut entries: Vec<_> = rd.filter_map(|e| e.ok()).collect();
            entries.sort_by_key(|e| e.path());
            for e in entries {
                let p = e.path();
                if p.is_dir() {
                    if p.file_name().map(|n| n == "tests").unwrap_or(false) {
                        continue;
                    }
                    walk(&p, base, out);
                } else if p.extension().map(|x| x == "rs").unwrap_or(false) {
                    let rel = p.strip_prefix(base).unwrap().to_string_lossy().to_string();
                    if rel != "tests.rs" && rel != "verif_hooks.rs" && !rel.ends_with("/tests.rs") {
                        out.push(rel);
                    }
                }
            }
        }
    }
    let base = crate::extract::repo_src();
    let mut out = Vec::new();
    walk(&base, &base, &mut out);
    out
}

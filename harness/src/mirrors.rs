//! Mirror pins: the Rust functions that a *hand-written* Lean model mirrors statement by statement.
//!
//! The translator cannot translate these functions (they use `nom` combinators, `quote!`, iterators
//! with closures, ...), so the model of each was written and reviewed against one particular token
//! text. This pass records, for every such function, a fingerprint of its signature and body tokens
//! (comments, white space and doc attributes do not count). `check` compares the fingerprints with
//! the reviewed table (`reviewed/inventory.json`, kind `mirror:Cxx`): when the text of a mirrored
//! function changes, the claim "the Lean definition mirrors this function" is no longer a reviewed
//! one, the obligation counts as broken, and the search for a failing input runs with the larger
//! budget. The pin says nothing about behaviour; behaviour is what the correspondence run compares.
use crate::extract::parse_file;
use crate::inventory::Site;
use quote::ToTokens;
use syn::{ImplItem, Item};

/// (properties served, file below rasn-compiler/src, function name, Lean definition that mirrors it)
pub const MIRRORS: &[(&[&str], &str, &str, &str)] = &[
    // names
    (&["C16", "C01"], "generator/rasn/utils.rs", "to_rust_snake_case", "Gen.Names.toSnake"),
    (&["C16", "C01"], "generator/rasn/utils.rs", "to_rust_const_case", "Gen.Names.toConst"),
    (&["C16", "C01"], "generator/rasn/utils.rs", "to_rust_enum_identifier", "Gen.Names.toEnumIdent"),
    (&["C16", "C01"], "generator/rasn/utils.rs", "to_rust_title_case", "Gen.Names.toTitle"),
    (&["C16", "C01"], "generator/rasn/utils.rs", "inner_name", "Gen.Names.innerName"),
    (&["C16", "C01"], "generator/rasn/utils.rs", "default_method_name", "Gen.Names.defaultFnName"),
    (&["C16"], "generator/rasn/utils.rs", "format_identifier_annotation", "Gen.Names.identifierAnnotation"),
    (&["C16", "C13"], "lexer/common.rs", "type_reference", "Lexer.Names.typeReference"),
    (&["C16", "C13"], "lexer/common.rs", "identifier", "Lexer.Names.identifier"),
    (&["C16", "C13"], "lexer/common.rs", "value_reference", "Lexer.Names.valueReference"),
    // enumerated numbering, assembly of component lists
    (&["C14"], "lexer/enumerated.rs", "assign_enumeration_numbers", "Lexer.Enumerated"),
    (&["C05", "C02"], "lexer/sequence.rs", "extension_group", "Lexer.Assemble"),
    // trivia and position bookkeeping
    (&["C13"], "lexer/common.rs", "skip_ws", "Lexer.Trivia"),
    (&["C13", "C08"], "lexer/common.rs", "skip_ws_and_comments", "Lexer.Trivia"),
    (&["C13", "C08"], "lexer/common.rs", "comment", "Lexer.Trivia"),
    (&["C13", "C08"], "lexer/common.rs", "line_comment", "Lexer.Trivia"),
    (&["C13", "C08"], "lexer/common.rs", "block_comment", "Lexer.Trivia"),
    (&["C13", "C08"], "lexer/util.rs", "take_until_or", "Lexer.Trivia"),
    (&["C13", "C08"], "lexer/util.rs", "take_until_unbalanced", "Lexer.Trivia"),
    (&["C17"], "input.rs", "slice", "Lexer.Input.slice"),
    (&["C17"], "input.rs", "reset_context", "Lexer.Input.resetContext"),
    (&["C17"], "input.rs", "take", "Lexer.Input"),
    (&["C17"], "input.rs", "take_from", "Lexer.Input"),
    (&["C17"], "input.rs", "take_split", "Lexer.Input"),
    (&["C17", "C08"], "lexer/error.rs", "contextualize", "Lexer.Context.contextualize"),
    (&["C17"], "lexer/error.rs", "from", "Lexer.Report.report (impl From<ErrorTree> for ReportData, and the other From impls of the file)"),
    (&["C17", "C08"], "lexer/util.rs", "until_next_unindented", "Lexer.Context.untilNextUnindented"),
    (&["C08", "C07"], "validator/linking/mod.rs", "link_with_type", "Link.Chase (the supertypes visited list); Link.Values.link (the composite arms)"),
    // values
    (&["C07", "C15"], "lexer/character_string.rs", "cstring", "Lexer.Values.unescape followed by Lexer.Lines.joinLines"),
    (&["C07", "C15"], "lexer/character_string.rs", "join_lines", "Lexer.Lines.joinLines"),
    (&["C07"], "lexer/bit_string.rs", "bit_string_value", "Lexer.Values"),
    (&["C07"], "validator/linking/utils.rs", "bit_string_to_octet_string", "Lexer.Values"),
    (&["C07"], "validator/linking/utils.rs", "octet_string_to_bit_string", "Lexer.Values"),
    (&["C07"], "validator/linking/mod.rs", "bit_string_value_from_named_bits", "Lexer.Values"),
    (&["C07"], "generator/rasn/utils.rs", "format_oid", "Lexer.Values"),
    (&["C07"], "validator/linking/mod.rs", "link_struct_like", "Link.Values.linkGiven / Link.Values.assemble"),
    (&["C07"], "validator/linking/mod.rs", "link_array_like", "Link.Values.linkElems"),
    (&["C07"], "generator/rasn/utils.rs", "value_to_tokens", "Gen.Values.render (the composite arms: nested / struct / list / choice values)"),
    (&["C07"], "generator/rasn/utils.rs", "type_to_tokens", "Gen.Values.tyName (which member types have a name a struct value can be rendered under)"),
    // linker
    (&["C09"], "validator/linking/mod.rs", "link_components_of", "Link.ComponentsOf"),
    (&["C09"], "validator/linking/mod.rs", "resolve_parameters", "Link.Params.instantiate"),
    (&["C09"], "validator/linking/mod.rs", "with_resolved_value_chains", "Link.Params.resolveChains"),
    (&["C02"], "validator/linking/mod.rs", "recurses", "Link.Recursion.recurses"),
    (&["C02"], "validator/linking/mod.rs", "mark_recursive", "Link.Recursion.markRecursive"),
    // constraints
    (&["C04", "C06", "C15"], "intermediate/encoding_rules/per_visible.rs", "fold_constraint_set", "Pv.Fold"),
    (&["C04", "C06", "C15"], "intermediate/encoding_rules/per_visible.rs", "intersect_single_and_range", "Pv.Fold / Pv.Alphabet"),
    (&["C04", "C06", "C15"], "intermediate/encoding_rules/per_visible.rs", "union_single_and_range", "Pv.Fold / Pv.Alphabet"),
    (&["C04", "C06"], "intermediate/encoding_rules/per_visible.rs", "per_visible_range_constraints", "Pv.Fold"),
    (&["C04", "C06"], "intermediate/encoding_rules/per_visible.rs", "add_assign", "Pv.Range / Pv.Alphabet"),
    (&["C04", "C15"], "lexer/constraint.rs", "set_operation", "Pv.Fold (right-nested association)"),
    (&["C04"], "generator/rasn/utils.rs", "format_range_annotations", "Pv.Fold.render"),
    (&["C15"], "intermediate/encoding_rules/per_visible.rs", "try_new", "Pv.Alphabet"),
    (&["C15"], "intermediate/encoding_rules/per_visible.rs", "finalize", "Pv.Alphabet"),
    (&["C15"], "intermediate/encoding_rules/per_visible.rs", "find_char_index", "Pv.Alphabet"),
    (&["C15"], "intermediate/encoding_rules/per_visible.rs", "from_subtype_elem", "Pv.Alphabet"),
    (&["C15"], "generator/rasn/utils.rs", "format_alphabet_annotations", "Pv.Alphabet.render"),
    (&["C06"], "intermediate/types.rs", "int_type", "Gen.IntType.intType"),
    (&["C06"], "intermediate/constraints.rs", "unpack_as_strict_value", "Gen.IntType"),
    (&["C06"], "intermediate/constraints.rs", "unpack_as_value_range", "Gen.IntType"),
    // struct generation, tagging
    (&["C02", "C03", "C05"], "generator/rasn/utils.rs", "format_sequence_or_set_members", "Gen.Struct"),
    (&["C02", "C03", "C05"], "generator/rasn/utils.rs", "format_sequence_member", "Gen.Struct"),
    (&["C02", "C03", "C05"], "generator/rasn/utils.rs", "format_choice_options", "Gen.Struct"),
    (&["C02", "C03", "C05"], "generator/rasn/utils.rs", "format_choice_option", "Gen.Struct"),
    (&["C02", "C03", "C05"], "generator/rasn/utils.rs", "format_member_or_option", "Gen.Struct"),
    (&["C05", "C14"], "generator/rasn/utils.rs", "format_enum_members", "Gen.Struct"),
    (&["C02", "C03", "C05"], "generator/rasn/builder.rs", "generate_sequence_or_set", "Gen.Struct.structItem (set / non_exhaustive / automatic_tags / tag annotations)"),
    (&["C02", "C03", "C05"], "generator/rasn/builder.rs", "generate_choice", "Gen.Struct.choiceItem"),
    (&["C02", "C03"], "generator/rasn/builder.rs", "generate_sequence_or_set_of", "Gen.Struct (list item; the element tag is not applied: C03_element_tag_dropped_counterexample)"),
    (&["C07"], "generator/rasn/builder.rs", "generate_value", "Gen.Values.renderAssignment (the composite arms)"),
    (&["C03"], "generator/rasn/utils.rs", "format_tag", "Gen.Struct.formatTag"),
    (&["C02"], "generator/rasn/utils.rs", "constraints_and_type_name", "Gen.Struct"),
    (&["C02"], "generator/rasn/utils.rs", "needs_unnesting", "Gen.Struct"),
    (&["C03"], "intermediate/mod.rs", "apply_tagging_environment", "Gen.Struct.applyTagging"),
    (&["C03", "C12"], "lexer/module_header.rs", "environments", "Gen.Struct (module defaults)"),
    // imports, options, pipeline
    (&["C12", "C10", "C19"], "generator/rasn/mod.rs", "generate_module", "Gen.Imports / Io.Pipeline / Cfg.Options"),
    (&["C19"], "generator/rasn/mod.rs", "parse_rust_derive_annotation", "Cfg.Options.parseDerive"),
    (&["C19"], "generator/rasn/utils.rs", "required_annotations", "Cfg.Options"),
    (&["C19"], "generator/rasn/utils.rs", "join_annotations", "Cfg.Options"),
    (&["C19"], "generator/rasn/template.rs", "lazy_static_value_template", "Cfg.Options"),
    (&["C10", "C11"], "lib.rs", "internal_compile", "Io.Pipeline"),
    // TypeScript
    (&["C18"], "generator/typescript/utils.rs", "type_to_tokens", "Ts.Shape.modelTy"),
    (&["C18"], "generator/typescript/utils.rs", "array_element_to_tokens", "Ts.Shape.modelTy"),
    (&["C18"], "generator/typescript/utils.rs", "format_choice_options", "Ts.Shape.modelTy"),
    (&["C18"], "generator/typescript/utils.rs", "format_sequence_or_set_members", "Ts.Shape.modelTy"),
    (&["C18", "C16"], "generator/typescript/utils.rs", "to_jer_identifier", "Ts.Shape"),
    (&["C07"], "generator/typescript/utils.rs", "string_literal", "Ts.Strings.stringLiteral"),
    (&["C18", "C07"], "generator/typescript/utils.rs", "value_to_tokens", "Ts.Values.renderList (the LinkedArrayLikeValue arm)"),
];

fn fnv(s: &str) -> u64 {
    let mut h: u64 = 0xcbf29ce484222325;
    for b in s.bytes() {
        h ^= b as u64;
        h = h.wrapping_mul(0x100000001b3);
    }
    h
}

/// token texts (signature + body) of every non-test function called `name` in the file, in source order
fn texts(file: &syn::File, name: &str) -> Vec<String> {
    fn walk(items: &[Item], name: &str, out: &mut Vec<String>) {
        for it in items {
            match it {
                Item::Fn(f) if f.sig.ident == name => {
                    out.push(format!("{} {}", f.sig.to_token_stream(), f.block.to_token_stream()))
                }
                Item::Impl(i) => {
                    for ii in &i.items {
                        if let ImplItem::Fn(f) = ii {
                            if f.sig.ident == name {
                                out.push(format!("{} {}", f.sig.to_token_stream(), f.block.to_token_stream()));
                            }
                        }
                    }
                }
                Item::Mod(m) if m.ident != "tests" => {
                    if let Some((_, items)) = &m.content {
                        walk(items, name, out);
                    }
                }
                _ => {}
            }
        }
    }
    let mut out = vec![];
    walk(&file.items, name, &mut out);
    out
}

/// one site per (property, mirrored function): kind `mirror:Cxx`, detail = fingerprint
pub fn scan() -> Vec<Site> {
    let mut sites = vec![];
    let mut cache: std::collections::BTreeMap<String, Option<syn::File>> = Default::default();
    for (props, file, name, lean) in MIRRORS {
        let parsed = cache.entry(file.to_string()).or_insert_with(|| parse_file(file).ok());
        let detail = match parsed {
            None => "file does not parse".to_string(),
            Some(f) => {
                let ts = texts(f, name);
                if ts.is_empty() {
                    "function not found".to_string()
                } else {
                    let all = ts.join("\u{1}");
                    format!("{:016x}/{} tokens-chars/{} fn(s) ~ {}", fnv(&all), all.len(), ts.len(), lean)
                }
            }
        };
        for p in *props {
            sites.push(Site {
                file: file.to_string(),
                func: name.to_string(),
                kind: format!("mirror:{p}"),
                ordinal: 0,
                detail: detail.clone(),
            });
        }
    }
    sites
}

//! corr <property> [--thorough] [--seed N] [--search] [--replay FILE]  → JSON report on stdout
use verif_harness::report::RunCfg;
use verif_harness::util::*;
fn main() {
    scrub_env();
    quiet_panics();
    let args: Vec<String> = std::env::args().collect();
    let prop = args.get(1).cloned().unwrap_or_default();
    let mut cfg = RunCfg { thorough: false, seed: 1, search: false, replay: None };
    let mut i = 2;
    while i < args.len() {
        match args[i].as_str() {
            "--thorough" => cfg.thorough = true,
            "--search" => cfg.search = true,
            "--seed" => {
                i += 1;
                cfg.seed = args[i].parse().unwrap_or(1);
            }
            "--replay" => {
                i += 1;
                let text = std::fs::read_to_string(&args[i]).expect("replay file");
                let v: serde_json::Value = serde_json::from_str(&text).expect("replay json");
                cfg.replay = Some(v.get("case").cloned().unwrap_or(v));
            }
            _ => {}
        }
        i += 1;
    }
    let rep = match prop.as_str() {
        "C07" => verif_harness::props::c07::run(&cfg),
        "C06" => verif_harness::props::c06::run(&cfg),
        "C15" => verif_harness::props::c15::run(&cfg),
        "C14" => verif_harness::props::c14::run(&cfg),
        "C17" => verif_harness::props::c17::run(&cfg),
        "C16" => verif_harness::props::c16::run(&cfg),
        "C02" => verif_harness::props::c02::run(&cfg),
        "C03" => verif_harness::props::c03::run(&cfg),
        "C04" => verif_harness::props::c04::run(&cfg),
        "C05" => verif_harness::props::c05::run(&cfg),
        "C10" => verif_harness::props::c10::run(&cfg),
        "C11" => verif_harness::props::c11::run(&cfg),
        "C12" => verif_harness::props::c12::run(&cfg),
        "C19" => verif_harness::props::c19::run(&cfg),
        "C20" => verif_harness::props::c20::run(&cfg),
        "C18" => verif_harness::props::c18::run(&cfg),
        "C13" => verif_harness::props::c13::run(&cfg),
        "C09" => verif_harness::props::c09::run(&cfg),
        "C08" => verif_harness::props::c08::run(&cfg),
        "C01" => verif_harness::props::c01::run(&cfg),
        "STRUCT" => verif_harness::props::structs::run_model(&cfg),
        _ => {
            eprintln!("unknown property {prop}");
            std::process::exit(2);
        }
    };
    println!("{}", serde_json::to_string(&rep.to_json()).unwrap());
}

//! probe: compile ASN.1 from stdin (modules separated by a line `----`) and print the result.
use std::io::Read;
use verif_harness::util::*;
fn main() {
    scrub_env();
    let mut s = String::new();
    std::io::stdin().read_to_string(&mut s).unwrap();
    let srcs: Vec<String> = s.split("\n----\n").map(|x| x.to_string()).collect();
    let ts = std::env::args().any(|a| a == "--ts");
    let out = if ts { compile_ts(&srcs) } else { compile_rasn(&srcs) };
    match out {
        Outcome::Ok { generated, warnings } => {
            println!("{generated}");
            for w in warnings { println!("WARNING: {w}"); }
        }
        Outcome::Err(e) => println!("ERR: {e}"),
        Outcome::Panic(p) => println!("PANIC: {p}"),
    }
}

//! probe: compile ASN.1 from stdin (modules separated by a line `----`) and print the result.
//! `probe --canon [--no-opaque]`: compile stdin, print the canonical result as JSON (fresh-process baseline of C11).
//! `probe --compile-stdout [--ts] FILE..`: call compile() with OutputMode::Stdout on the files (C20).
use std::io::Read;
use verif_harness::util::*;
fn main() {
    scrub_env();
    let args: Vec<String> = std::env::args().skip(1).collect();
    if args.iter().any(|a| a == "--under-cargo") {
        // as under cargo (build script, `cargo run`): CARGO names an executable next to which there is no rustfmt
        std::env::set_var("CARGO", "/nonexistent-cargo-home/bin/cargo");
    }
    let ts = args.iter().any(|a| a == "--ts");
    if args.iter().any(|a| a == "--compile-stdout") {
        use rasn_compiler::prelude::*;
        let files: Vec<std::path::PathBuf> = args.iter().filter(|a| !a.starts_with("--")).map(std::path::PathBuf::from).collect();
        let r = if ts {
            Compiler::<TypescriptBackend, _>::new().add_asn_sources_by_path(files.into_iter()).set_output_mode(rasn_compiler::OutputMode::Stdout).compile().map(|_| ())
        } else {
            Compiler::<RasnBackend, _>::new().add_asn_sources_by_path(files.into_iter()).set_output_mode(rasn_compiler::OutputMode::Stdout).compile().map(|_| ())
        };
        std::process::exit(if r.is_ok() { 0 } else { 1 });
    }
    if let Some(k) = args.iter().position(|a| a == "--c08-worker") {
        // probe --c08-worker FILE START: inputs are the lines of FILE (hex), processed from index START
        verif_harness::props::c08::worker(&args[k + 1], args[k + 2].parse().unwrap_or(0));
        return;
    }
    if args.iter().any(|a| a == "--ctx") {
        // probe --ctx: compile stdin; on a syntax error print the report and contextualize's rendering
        use rasn_compiler::prelude::*;
        let mut s = String::new();
        std::io::stdin().read_to_string(&mut s).unwrap();
        match Compiler::<RasnBackend, _>::new().add_asn_literal(&s).compile_to_string() {
            Ok(_) => println!("OK"),
            Err(e) => {
                println!("{e:?}");
                println!("{}", e.contextualize(&s));
            }
        }
        return;
    }
    if args.iter().any(|a| a == "--canon") {
        // probe --canon [--no-opaque]: compile stdin in this fresh process and print the canonical result (C11)
        let mut s = String::new();
        std::io::stdin().read_to_string(&mut s).unwrap();
        let srcs: Vec<String> = s.split("\n----\n").map(|x| x.to_string()).collect();
        let cfg = rasn_compiler::prelude::RasnConfig { opaque_open_types: !args.iter().any(|a| a == "--no-opaque"), ..Default::default() };
        let c = verif_harness::props::c11::canon(&compile_rasn_cfg(&srcs, cfg));
        println!("{}", serde_json::json!({"generated": c.generated, "warnings": c.warnings}));
        return;
    }
    let mut s = String::new();
    std::io::stdin().read_to_string(&mut s).unwrap();
    let srcs: Vec<String> = s.split("\n----\n").map(|x| x.to_string()).collect();
    let out = if ts { compile_ts(&srcs) } else { compile_rasn(&srcs) };
    match out {
        Outcome::Ok { generated, warnings } => {
            println!("{generated}");
            for w in warnings { println!("WARNING: {w}"); }
        }
        Outcome::Err(e) => println!("ERR: {e}"),
        Outcome::Panic(p) => println!("PANIC: {p}"),
    }
}

pub mod util;
pub mod extract;
pub mod proj;
pub mod report;
pub mod gen_types;
pub mod asn_text;
pub mod props;

//! Shared helpers: compiling through the real compiler, PRNG, s-expression printing, driver I/O.
use rasn_compiler::prelude::*;
use std::io::Write;
use std::panic::{catch_unwind, AssertUnwindSafe};

#[derive(Debug, Clone)]
pub enum Outcome {
    Ok { generated: String, warnings: Vec<String> },
    Err(String),
    Panic(String),
}

pub fn quiet_panics() {
    std::panic::set_hook(Box::new(|_| {}));
}

/// The harness removes CARGO/CARGO_HOME so that `format_bindings` finds no rustfmt (C11 noise control).
pub fn scrub_env() {
    std::env::remove_var("CARGO");
    std::env::remove_var("CARGO_HOME");
}

pub fn compile_rasn_cfg(sources: &[String], cfg: RasnConfig) -> Outcome {
    let srcs = sources.to_vec();
    let r = catch_unwind(AssertUnwindSafe(move || {
        let mut it = srcs.into_iter();
        let first = it.next().unwrap_or_default();
        // the configuration has to survive every builder state: sources first for one half of the inputs, the output
        // mode first (the other chain of builder states) for the other half
        if first.len() % 2 == 0 {
            let mut c = Compiler::<RasnBackend, _>::new_with_config(cfg).add_asn_literal(first);
            for s in it {
                c = c.add_asn_literal(s);
            }
            c.compile_to_string()
        } else {
            let mut c = Compiler::<RasnBackend, _>::new_with_config(cfg).set_output_mode(rasn_compiler::OutputMode::NoOutput).add_asn_literal(first);
            for s in it {
                c = c.add_asn_literal(s);
            }
            c.compile_to_string()
        }
    }));
    match r {
        Ok(Ok(res)) => Outcome::Ok {
            generated: res.generated,
            warnings: res.warnings.iter().map(|w| w.to_string()).collect(),
        },
        Ok(Err(e)) => Outcome::Err(e.to_string()),
        Err(p) => Outcome::Panic(panic_msg(p)),
    }
}

pub fn compile_rasn(sources: &[String]) -> Outcome {
    compile_rasn_cfg(sources, RasnConfig::default())
}

pub fn compile_ts(sources: &[String]) -> Outcome {
    let srcs = sources.to_vec();
    let r = catch_unwind(AssertUnwindSafe(move || {
        let mut it = srcs.into_iter();
        let first = it.next().unwrap_or_default();
        let mut c = Compiler::<TypescriptBackend, _>::new().add_asn_literal(first);
        for s in it {
            c = c.add_asn_literal(s);
        }
        c.compile_to_string()
    }));
    match r {
        Ok(Ok(res)) => Outcome::Ok {
            generated: res.generated,
            warnings: res.warnings.iter().map(|w| w.to_string()).collect(),
        },
        Ok(Err(e)) => Outcome::Err(e.to_string()),
        Err(p) => Outcome::Panic(panic_msg(p)),
    }
}

pub fn panic_msg(p: Box<dyn std::any::Any + Send>) -> String {
    if let Some(s) = p.downcast_ref::<&str>() {
        s.to_string()
    } else if let Some(s) = p.downcast_ref::<String>() {
        s.clone()
    } else {
        "panic".into()
    }
}

/// splitmix64: every random choice of a run derives from one state.
#[derive(Clone)]
pub struct Rng(pub u64);
impl Rng {
    pub fn new(seed: u64) -> Self {
        Rng(seed.wrapping_mul(0x9E3779B97F4A7C15).wrapping_add(0x1234_5678_9abc_def1))
    }
    pub fn next(&mut self) -> u64 {
        self.0 = self.0.wrapping_add(0x9E3779B97F4A7C15);
        let mut z = self.0;
        z = (z ^ (z >> 30)).wrapping_mul(0xBF58476D1CE4E5B9);
        z = (z ^ (z >> 27)).wrapping_mul(0x94D049BB133111EB);
        z ^ (z >> 31)
    }
    pub fn below(&mut self, n: usize) -> usize {
        if n == 0 { 0 } else { (self.next() % n as u64) as usize }
    }
    pub fn range(&mut self, lo: i64, hi: i64) -> i64 {
        lo + (self.next() % ((hi - lo + 1) as u64)) as i64
    }
    pub fn chance(&mut self, num: usize, den: usize) -> bool {
        self.below(den) < num
    }
    pub fn pick<'a, T>(&mut self, xs: &'a [T]) -> &'a T {
        &xs[self.below(xs.len())]
    }
}

pub fn hex(s: &str) -> String {
    let mut o = String::with_capacity(1 + s.len() * 2);
    o.push('x');
    for b in s.as_bytes() {
        o.push_str(&format!("{:02x}", b));
    }
    o
}

pub fn unhex(s: &str) -> Option<String> {
    let s = s.strip_prefix('x')?;
    let mut bytes = Vec::new();
    let cs: Vec<char> = s.chars().collect();
    if cs.len() % 2 != 0 {
        return None;
    }
    for p in cs.chunks(2) {
        bytes.push((p[0].to_digit(16)? * 16 + p[1].to_digit(16)?) as u8);
    }
    String::from_utf8(bytes).ok()
}

pub fn sx_opt<T: ToString>(o: &Option<T>) -> String {
    match o {
        None => "none".into(),
        Some(v) => format!("( some {} )", v.to_string()),
    }
}
pub fn sx_bool(b: bool) -> &'static str {
    if b { "t" } else { "f" }
}
pub fn sx_list<I: IntoIterator<Item = String>>(it: I) -> String {
    let mut s = String::from("(");
    for x in it {
        s.push(' ');
        s.push_str(&x);
    }
    s.push_str(" )");
    s
}

pub fn verif_root() -> std::path::PathBuf {
    std::env::var("VERIF_ROOT").map(Into::into).unwrap_or_else(|_| "/verif".into())
}

/// Run the Lean driver over a batch of request lines; one answer line per request.
pub fn run_driver(requests: &[String]) -> Result<Vec<String>, String> {
    let root = verif_root();
    let scratch = root.join(".scratch");
    std::fs::create_dir_all(&scratch).map_err(|e| e.to_string())?;
    let pid = std::process::id();
    let req = scratch.join(format!("req-{pid}.txt"));
    {
        let mut f = std::io::BufWriter::new(std::fs::File::create(&req).map_err(|e| e.to_string())?);
        for r in requests {
            debug_assert!(!r.contains('\n'));
            writeln!(f, "{r}").map_err(|e| e.to_string())?;
        }
    }
    let driver = std::env::var("VERIF_DRIVER")
        .map(std::path::PathBuf::from)
        .unwrap_or_else(|_| root.join("lean/.lake/build/bin/driver"));
    let out = std::process::Command::new(&driver)
        .stdin(std::fs::File::open(&req).map_err(|e| e.to_string())?)
        .output()
        .map_err(|e| format!("cannot run driver {}: {e}", driver.display()))?;
    let _ = std::fs::remove_file(&req);
    if !out.status.success() {
        return Err(format!("driver failed: {}", String::from_utf8_lossy(&out.stderr)));
    }
    let text = String::from_utf8_lossy(&out.stdout);
    let lines: Vec<String> = text.lines().map(|l| l.to_string()).collect();
    if lines.len() != requests.len() {
        return Err(format!("driver answered {} lines for {} requests", lines.len(), requests.len()));
    }
    Ok(lines)
}

pub fn json_str(s: &str) -> String {
    let mut o = String::from("\"");
    for c in s.chars() {
        match c {
            '"' => o.push_str("\\\""),
            '\\' => o.push_str("\\\\"),
            '\n' => o.push_str("\\n"),
            '\r' => o.push_str("\\r"),
            '\t' => o.push_str("\\t"),
            c if (c as u32) < 0x20 => o.push_str(&format!("\\u{:04x}", c as u32)),
            c => o.push(c),
        }
    }
    o.push('"');
    o
}

/// Compile `items` in chunks; a chunk that does not return Ok is bisected so that the failing
/// items are isolated. Returns (indices, outcome) groups covering all items.
pub fn batch_compile(
    n: usize,
    chunk: usize,
    render: &dyn Fn(&[usize]) -> Vec<String>,
    cfg: &rasn_compiler::prelude::RasnConfig,
) -> Vec<(Vec<usize>, Outcome)> {
    fn go(
        idx: Vec<usize>,
        render: &dyn Fn(&[usize]) -> Vec<String>,
        cfg: &rasn_compiler::prelude::RasnConfig,
        out: &mut Vec<(Vec<usize>, Outcome)>,
    ) {
        if idx.is_empty() {
            return;
        }
        let o = compile_rasn_cfg(&render(&idx), clone_cfg(cfg));
        let clean = matches!(&o, Outcome::Ok { .. });
        if clean || idx.len() == 1 {
            out.push((idx, o));
        } else {
            let mid = idx.len() / 2;
            let (a, b) = idx.split_at(mid);
            go(a.to_vec(), render, cfg, out);
            go(b.to_vec(), render, cfg, out);
        }
    }
    let mut out = Vec::new();
    let all: Vec<usize> = (0..n).collect();
    for c in all.chunks(chunk.max(1)) {
        go(c.to_vec(), render, cfg, &mut out);
    }
    out
}

pub fn clone_cfg(c: &rasn_compiler::prelude::RasnConfig) -> rasn_compiler::prelude::RasnConfig {
    rasn_compiler::prelude::RasnConfig {
        opaque_open_types: c.opaque_open_types,
        default_wildcard_imports: c.default_wildcard_imports,
        generate_from_impls: c.generate_from_impls,
        custom_imports: c.custom_imports.clone(),
        type_annotations: c.type_annotations.clone(),
        no_std_compliant_bindings: c.no_std_compliant_bindings,
    }
}

/// minimised past disagreements / finding witnesses: always run first
pub fn load_corpus(prop: &str) -> Vec<serde_json::Value> {
    let p = verif_root().join("corpus").join(format!("{prop}.jsonl"));
    std::fs::read_to_string(p)
        .map(|t| t.lines().filter(|l| !l.trim().is_empty()).filter_map(|l| serde_json::from_str(l).ok()).collect())
        .unwrap_or_default()
}

//! Generator of module sets with an abstract description of every assignment (C10 / C11 / C12 / C08).
//! The oracle's expectations come from this description, never from the compiler's own IR.
use crate::util::Rng;
use serde_json::{json, Value};

#[derive(Clone, Debug, PartialEq)]
pub enum Kind {
    Type,
    Value,
    Class,
    Object,
    Param,
    Macro,
}

impl Kind {
    pub fn tag(&self) -> &'static str {
        match self {
            Kind::Type => "type",
            Kind::Value => "value",
            Kind::Class => "class",
            Kind::Object => "object",
            Kind::Param => "param",
            Kind::Macro => "macro",
        }
    }
    pub fn from_tag(s: &str) -> Kind {
        match s {
            "type" => Kind::Type,
            "value" => Kind::Value,
            "class" => Kind::Class,
            "object" => Kind::Object,
            "param" => Kind::Param,
            _ => Kind::Macro,
        }
    }
}

#[derive(Clone, Debug)]
pub struct D {
    pub name: String,
    pub kind: Kind,
    pub shape: String,
    pub text: String,
    /// names of the definitions this one refers to
    pub refs: Vec<String>,
    /// REAL | VIDEOTEX | INVERTED | VALUEFORM | MACRO
    pub fault: Option<String>,
}

impl D {
    /// categories documented as producing no output
    pub fn no_output(&self) -> bool {
        matches!(self.kind, Kind::Class | Kind::Object | Kind::Param)
    }
    /// the Rust identifier the definition is expected under
    pub fn rust_name(&self) -> String {
        match self.kind {
            Kind::Value => self.name.to_uppercase().replace('-', "_"),
            // title case as the backend spells type names: a hyphen disappears and the next character is upper-cased
            _ => {
                let mut acc = String::new();
                for c in self.name.replace('-', "_").chars() {
                    if acc.is_empty() && c.is_lowercase() {
                        acc.push(c.to_ascii_uppercase());
                    } else if acc.ends_with('_') {
                        acc.pop();
                        acc.push(c.to_ascii_uppercase());
                    } else {
                        acc.push(c);
                    }
                }
                acc
            }
        }
    }
    pub fn to_json(&self) -> Value {
        json!({"name": self.name, "kind": self.kind.tag(), "shape": self.shape, "text": self.text, "refs": self.refs, "fault": self.fault})
    }
    pub fn from_json(v: &Value) -> D {
        D {
            name: v["name"].as_str().unwrap_or("").into(),
            kind: Kind::from_tag(v["kind"].as_str().unwrap_or("")),
            shape: v["shape"].as_str().unwrap_or("").into(),
            text: v["text"].as_str().unwrap_or("").into(),
            refs: v["refs"].as_array().map(|a| a.iter().filter_map(|x| x.as_str().map(String::from)).collect()).unwrap_or_default(),
            fault: v["fault"].as_str().map(String::from),
        }
    }
}

#[derive(Clone, Debug)]
pub struct M {
    pub name: String,
    /// 0 none, 1 EXPLICIT, 2 IMPLICIT, 3 AUTOMATIC
    pub tagging: usize,
    pub ext: bool,
    pub imports: Vec<(String, Vec<String>)>,
    pub defs: Vec<D>,
}

pub const TAGGING: [&str; 4] = ["", "EXPLICIT TAGS", "IMPLICIT TAGS", "AUTOMATIC TAGS"];

impl M {
    pub fn text(&self) -> String {
        let mut s = format!("{} DEFINITIONS {}{} ::= BEGIN\n", self.name, TAGGING[self.tagging], if self.ext { " EXTENSIBILITY IMPLIED" } else { "" });
        if !self.imports.is_empty() {
            s.push_str("IMPORTS\n");
            for (m, syms) in &self.imports {
                s.push_str(&format!("    {} FROM {}\n", syms.join(", "), m));
            }
            s.push_str(";\n");
        }
        for d in &self.defs {
            s.push_str(&d.text);
            s.push('\n');
        }
        s.push_str("END\n");
        s
    }
    pub fn to_json(&self) -> Value {
        json!({"name": self.name, "tagging": self.tagging, "ext": self.ext,
               "imports": self.imports.iter().map(|(m, s)| json!([m, s])).collect::<Vec<_>>(),
               "defs": self.defs.iter().map(|d| d.to_json()).collect::<Vec<_>>()})
    }
    pub fn from_json(v: &Value) -> M {
        M {
            name: v["name"].as_str().unwrap_or("").into(),
            tagging: v["tagging"].as_u64().unwrap_or(0) as usize,
            ext: v["ext"].as_bool().unwrap_or(false),
            imports: v["imports"]
                .as_array()
                .map(|a| {
                    a.iter()
                        .map(|p| {
                            (
                                p[0].as_str().unwrap_or("").to_string(),
                                p[1].as_array().map(|s| s.iter().filter_map(|x| x.as_str().map(String::from)).collect()).unwrap_or_default(),
                            )
                        })
                        .collect()
                })
                .unwrap_or_default(),
            defs: v["defs"].as_array().map(|a| a.iter().map(D::from_json).collect()).unwrap_or_default(),
        }
    }
}

/// the Rust module name of an ASN.1 module, normalised for comparison (the exact snake-casing is C16's business)
pub fn norm_mod(s: &str) -> String {
    s.chars().filter(|c| c.is_ascii_alphanumeric()).map(|c| c.to_ascii_lowercase()).collect()
}

const BASE_SHAPES: [(&str, &str); 16] = [
    ("Int", "INTEGER (0..255)"),
    ("Seq", "SEQUENCE {\n    a INTEGER,\n    b BOOLEAN OPTIONAL\n}"),
    ("Cho", "CHOICE { x NULL, y [1] UTF8String }"),
    ("Enu", "ENUMERATED { r, g(5) }"),
    ("Lst", "SEQUENCE (SIZE (1..4)) OF BOOLEAN"),
    ("Set", "SET {\n    m [0] IA5String (SIZE (1..8)) DEFAULT \"x\",\n    n [1] OCTET STRING\n}"),
    ("Tag", "[APPLICATION 3] IMPLICIT OCTET STRING"),
    ("Bit", "BIT STRING { f0(0), f1(1) }"),
    ("Utc", "UTCTime"),
    ("Gen", "GeneralizedTime"),
    ("Nst", "SEQUENCE OF SEQUENCE { k INTEGER (0..7), l NULL }"),
    ("Oid", "OBJECT IDENTIFIER"),
    ("Boo", "BOOLEAN"),
    ("Nul", "NULL"),
    ("Str", "UTF8String (SIZE (0..16))"),
    ("Sxt", "SEQUENCE {\n    a INTEGER,\n    ...,\n    c BOOLEAN OPTIONAL\n}"),
];

/// value notation for a value of a type of the given shape
fn value_of_shape(shape: &str, rng: &mut Rng) -> Option<String> {
    Some(match shape {
        "Int" => format!("{}", rng.below(200)),
        "Seq" | "Sxt" => "{ a 1 }".to_string(),
        "Enu" => "g".to_string(),
        "Lst" => "{ TRUE }".to_string(),
        "Tag" => "'AB'H".to_string(),
        "Bit" => "{ f0 }".to_string(),
        "Utc" => "\"700101000000Z\"".to_string(),
        "Gen" => "\"20200101000000Z\"".to_string(),
        "Oid" => "{ 1 2 3 }".to_string(),
        "Boo" => "TRUE".to_string(),
        "Nul" => "NULL".to_string(),
        "Str" => "\"abc\"".to_string(),
        _ => return None,
    })
}

const BUILTIN_VALUES: [(&str, &str, &str); 7] = [
    ("vint", "INTEGER", "5"),
    ("vboo", "BOOLEAN", "TRUE"),
    ("vstr", "UTF8String", "\"abc\""),
    ("voct", "OCTET STRING", "'AB'H"),
    ("void", "OBJECT IDENTIFIER", "{ 1 2 3 }"),
    ("vbit", "BIT STRING", "'0101'B"),
    ("vnul", "NULL", "NULL"),
];

pub struct Gen<'a> {
    pub rng: &'a mut Rng,
    /// include classes / objects / parameterized templates
    pub info_objects: bool,
}

impl<'a> Gen<'a> {
    /// one assignment; `avail` are (name, shape) of type definitions it may refer to
    pub fn make(&mut self, uid: &str, avail: &[(String, String)]) -> Vec<D> {
        let rng = &mut *self.rng;
        let roll = rng.below(100);
        if roll < 40 || (avail.is_empty() && roll < 60) {
            let (shape, body) = BASE_SHAPES[rng.below(BASE_SHAPES.len())];
            let name = format!("{shape}{uid}");
            return vec![D { text: format!("{name} ::= {body}"), name, kind: Kind::Type, shape: shape.into(), refs: vec![], fault: None }];
        }
        if roll < 60 {
            // dependent type
            let (tn, ts) = rng.pick(avail).clone();
            return vec![match rng.below(3) {
                0 => {
                    let name = format!("Ali{uid}");
                    D { text: format!("{name} ::= {tn}"), name, kind: Kind::Type, shape: ts, refs: vec![tn], fault: None }
                }
                1 => {
                    let name = format!("Wrp{uid}");
                    D { text: format!("{name} ::= SEQUENCE {{\n    inner {tn},\n    flag BOOLEAN\n}}"), name, kind: Kind::Type, shape: "Wrp".into(), refs: vec![tn], fault: None }
                }
                _ => {
                    let name = format!("Lof{uid}");
                    D { text: format!("{name} ::= SEQUENCE OF {tn}"), name, kind: Kind::Type, shape: "Lof".into(), refs: vec![tn], fault: None }
                }
            }];
        }
        if roll < 75 {
            let (p, ty, v) = BUILTIN_VALUES[rng.below(BUILTIN_VALUES.len())];
            let name = format!("{p}{uid}");
            return vec![D { text: format!("{name} {ty} ::= {v}"), name, kind: Kind::Value, shape: p.into(), refs: vec![], fault: None }];
        }
        if roll < 90 || !self.info_objects {
            // a value governed by a selection type of an available CHOICE
            let chos: Vec<&(String, String)> = avail.iter().filter(|(_, s)| s == "Cho").collect();
            if !chos.is_empty() && rng.chance(1, 5) {
                let (tn, _) = chos[rng.below(chos.len())].clone();
                let (alt, v) = *rng.pick(&[("x", "NULL"), ("y", "\"sel\"")]);
                let name = format!("vsel{uid}");
                return vec![D { text: format!("{name} {alt} < {tn} ::= {v}"), name, kind: Kind::Value, shape: "vSel".into(), refs: vec![tn], fault: None }];
            }
            // value of a referenced type
            let cands: Vec<&(String, String)> = avail.iter().filter(|(_, s)| value_of_shape(s, &mut Rng::new(0)).is_some()).collect();
            if let Some((tn, ts)) = cands.get(rng.below(cands.len().max(1))).cloned() {
                let v = value_of_shape(ts, rng).unwrap();
                let name = format!("v{}{uid}", ts.to_lowercase());
                return vec![D { text: format!("{name} {tn} ::= {v}"), name, kind: Kind::Value, shape: format!("v{ts}"), refs: vec![tn.clone()], fault: None }];
            }
            let (p, ty, v) = BUILTIN_VALUES[rng.below(BUILTIN_VALUES.len())];
            let name = format!("{p}{uid}");
            return vec![D { text: format!("{name} {ty} ::= {v}"), name, kind: Kind::Value, shape: p.into(), refs: vec![], fault: None }];
        }
        // information object classes, objects, parameterized templates
        let up = uid.to_uppercase().replace('X', "-").replace('E', "");
        match rng.below(2) {
            0 => {
                let cls = format!("CLS-{up}");
                let obj = format!("obj{uid}");
                vec![
                    D { text: format!("{cls} ::= CLASS {{ &id INTEGER UNIQUE, &Type }} WITH SYNTAX {{ &Type IDENTIFIED BY &id }}"), name: cls.clone(), kind: Kind::Class, shape: "Cls".into(), refs: vec![], fault: None },
                    D { text: format!("{obj} {cls} ::= {{ BOOLEAN IDENTIFIED BY 1 }}"), name: obj, kind: Kind::Object, shape: "Obj".into(), refs: vec![cls], fault: None },
                ]
            }
            _ => {
                let par = format!("Par{uid}");
                let pin = format!("Pin{uid}");
                vec![
                    D { text: format!("{par} {{T}} ::= SEQUENCE {{ x T }}"), name: par.clone(), kind: Kind::Param, shape: "Par".into(), refs: vec![], fault: None },
                    D { text: format!("{pin} ::= {par} {{ INTEGER }}"), name: pin, kind: Kind::Type, shape: "Pin".into(), refs: vec![par], fault: None },
                ]
            }
        }
    }

    /// a module of `n` assignments (pairs count as two)
    pub fn module(&mut self, name: &str, uid: &str, n: usize) -> M {
        let mut defs: Vec<D> = Vec::new();
        let mut k = 0;
        while defs.len() < n {
            let avail: Vec<(String, String)> = defs.iter().filter(|d| d.kind == Kind::Type && d.shape != "Pin").map(|d| (d.name.clone(), d.shape.clone())).collect();
            let mut ds = self.make(&format!("{uid}x{k}e"), &avail);
            defs.append(&mut ds);
            k += 1;
        }
        // a type whose name consists of capital letters (and hyphens) only — like a class name, but a type; added
        // last so that no generated value is governed by it (that would be the known object-lexing finding)
        if self.rng.chance(1, 3) {
            let letters: String = uid.chars().map(|c| if c.is_ascii_digit() { (b'A' + (c as u8 - b'0')) as char } else { 'X' }).collect();
            let tn = format!("{}{letters}", ["UUID", "IA-", "U-ID-"][self.rng.below(3)]);
            defs.push(D { text: format!("{tn} ::= INTEGER (0..255)"), name: tn, kind: Kind::Type, shape: "Int".into(), refs: vec![], fault: None });
        }
        // a type name with hyphens followed by lower-case letters and digits (title-casing changes it a lot)
        if self.rng.chance(1, 3) {
            let tn = format!("Cause-radio-net-{}w", uid.replace('x', "-"));
            defs.push(D { text: format!("{tn} ::= INTEGER (0..255)"), name: tn, kind: Kind::Type, shape: "Int".into(), refs: vec![], fault: None });
        }
        M { name: name.into(), tagging: self.rng.below(4), ext: self.rng.chance(1, 3), imports: vec![], defs }
    }
}

/// Replace a definition by one that parses but is not supported.
pub fn fault(d: &D, which: usize) -> D {
    let name = d.name.clone();
    match (&d.kind, which % 5) {
        (Kind::Value, 0) | (Kind::Value, 1) => D { text: format!("{name} REAL ::= 0"), name, kind: Kind::Value, shape: "fault".into(), refs: vec![], fault: Some("VALUEFORM".into()) },
        // a value whose inline governing type has an inverted range (the value itself is fine)
        (Kind::Value, 2) => D { text: format!("{name} INTEGER (10..1) ::= 5"), name, kind: Kind::Value, shape: "fault".into(), refs: vec![], fault: Some("VALUEFORM".into()) },
        (Kind::Value, _) => D { text: format!("{name} UTF8String ::= {{ \"a\", \"b\" }}"), name, kind: Kind::Value, shape: "fault".into(), refs: vec![], fault: Some("VALUEFORM".into()) },
        (_, 0) => D { text: format!("{name} ::= REAL"), name, kind: Kind::Type, shape: "fault".into(), refs: vec![], fault: Some("REAL".into()) },
        (_, 1) => D { text: format!("{name} ::= VideotexString"), name, kind: Kind::Type, shape: "fault".into(), refs: vec![], fault: Some("VIDEOTEX".into()) },
        (_, 2) => D { text: format!("{name} ::= INTEGER (5..1)"), name, kind: Kind::Type, shape: "fault".into(), refs: vec![], fault: Some("INVERTED".into()) },
        (_, 3) => {
            let mname = format!("MAC-{}", name.to_uppercase().replace(|c: char| !c.is_ascii_alphanumeric(), "-"));
            D {
                // half of them defined by reference to another macro (X.680:1994 Annex J `macroreference`): OPERATION is
                // the macro of another definition's name in sets that contain one, and of nobody otherwise
                text: if (which / 5) % 2 == 1 { format!("{mname} MACRO ::= OPERATION") } else { format!("{mname} MACRO ::= BEGIN TYPE NOTATION ::= \"x\" VALUE NOTATION ::= value (VALUE INTEGER) END") },
                name: mname,
                kind: Kind::Macro,
                shape: "fault".into(),
                refs: vec![],
                fault: Some("MACRO".into()),
            }
        }
        _ => D { text: format!("{name} ::= SEQUENCE (SIZE (4..1)) OF BOOLEAN"), name, kind: Kind::Type, shape: "fault".into(), refs: vec![], fault: Some("INVERTED".into()) },
    }
}

/// names transitively depending on any of `roots` (by bare name, across all modules)
pub fn dependents(mods: &[M], roots: &[String]) -> std::collections::BTreeSet<String> {
    let mut set: std::collections::BTreeSet<String> = roots.iter().cloned().collect();
    loop {
        let mut grew = false;
        for m in mods {
            for d in &m.defs {
                if !set.contains(&d.name) && d.refs.iter().any(|r| set.contains(r)) {
                    set.insert(d.name.clone());
                    grew = true;
                }
            }
        }
        if !grew {
            return set;
        }
    }
}

/// per `pub mod`: (normalised module name, [(item identifier, item text)]) in textual order
pub fn module_items(generated: &str) -> Result<Vec<(String, Vec<(String, String)>)>, String> {
    let file = syn::parse_file(generated).map_err(|e| format!("generated text does not parse: {e}"))?;
    let mut out = Vec::new();
    for it in &file.items {
        if let syn::Item::Mod(m) = it {
            let mut items = Vec::new();
            if let Some((_, content)) = &m.content {
                for i in content {
                    let id = match i {
                        syn::Item::Struct(s) => s.ident.to_string(),
                        syn::Item::Enum(s) => s.ident.to_string(),
                        syn::Item::Const(s) => s.ident.to_string(),
                        syn::Item::Static(s) => s.ident.to_string(),
                        syn::Item::Fn(s) => s.sig.ident.to_string(),
                        syn::Item::Type(s) => s.ident.to_string(),
                        syn::Item::Impl(s) => format!("impl {}", crate::proj::ts(&s.self_ty)),
                        syn::Item::Use(_) => "use".to_string(),
                        syn::Item::ExternCrate(_) => "extern".to_string(),
                        syn::Item::Macro(_) => "macro".to_string(),
                        _ => "other".to_string(),
                    };
                    items.push((id, crate::proj::ts(i)));
                }
            }
            out.push((norm_mod(&m.ident.to_string()), items));
        }
    }
    Ok(out)
}

/// which definition (by Rust name) an item identifier belongs to
pub fn owner<'a>(id: &str, defs: &'a [D]) -> Option<&'a D> {
    let id = id.strip_prefix("impl ").unwrap_or(id);
    let mut best: Option<&D> = None;
    for d in defs {
        let rn = d.rust_name();
        let hit = id == rn
            || id.strip_prefix("Anonymous").map(|r| r.starts_with(&rn)).unwrap_or(false)
            || id.strip_prefix("Inner").map(|r| r.starts_with(&rn)).unwrap_or(false)
            || id.starts_with(&rn)
            || id.to_lowercase().starts_with(&format!("{}_", rn.to_lowercase()));
        if hit && best.map(|b| b.rust_name().len() < rn.len()).unwrap_or(true) {
            best = Some(d);
        }
    }
    best
}

/// Add IMPORTS between the modules of a set (cyclic graphs allowed) together with assignments that use
/// the imported symbols in components, constraints and DEFAULTs. `per_module` bounds the clauses per module.
pub fn link_imports(rng: &mut Rng, mods: &mut Vec<M>, per_module: usize, tag: &str) {
    let n = mods.len();
    if n < 2 {
        return;
    }
    for j in 0..n {
        let n_clauses = rng.below(per_module + 1);
        let mut providers: Vec<usize> = (0..n).filter(|i| *i != j).collect();
        for c in 0..n_clauses {
            if providers.is_empty() {
                break;
            }
            let i = providers.remove(rng.below(providers.len()));
            // importable: types and values of the provider's own making, with ordinary names, unique over the set
            let cands: Vec<D> = mods[i]
                .defs
                .iter()
                .filter(|d| matches!(d.kind, Kind::Type | Kind::Value) && d.fault.is_none() && !d.shape.starts_with("Up") && d.shape != "Pin" && !d.shape.starts_with("Use"))
                .filter(|d| mods.iter().flat_map(|m| m.defs.iter()).filter(|x| x.name == d.name).count() == 1)
                .cloned()
                .collect();
            if cands.is_empty() {
                continue;
            }
            let k = 1 + rng.below(4.min(cands.len()));
            let mut picked: Vec<D> = Vec::new();
            for _ in 0..k {
                let d = rng.pick(&cands).clone();
                if !picked.iter().any(|p| p.name == d.name) {
                    picked.push(d);
                }
            }
            let prov = mods[i].name.clone();
            mods[j].imports.push((prov, picked.iter().map(|d| d.name.clone()).collect()));
            for (u, d) in picked.iter().enumerate() {
                let uid = format!("{tag}x{j}x{c}x{u}e");
                let nd = match (&d.kind, d.shape.as_str()) {
                    (Kind::Type, _) => {
                        if rng.chance(1, 2) {
                            let name = format!("UseC{uid}");
                            D { text: format!("{name} ::= SEQUENCE {{\n    imp {},\n    opt {} OPTIONAL\n}}", d.name, d.name), name, kind: Kind::Type, shape: "UseC".into(), refs: vec![d.name.clone()], fault: None }
                        } else {
                            let name = format!("UseL{uid}");
                            D { text: format!("{name} ::= SEQUENCE OF {}", d.name), name, kind: Kind::Type, shape: "UseL".into(), refs: vec![d.name.clone()], fault: None }
                        }
                    }
                    (Kind::Value, "vint") | (Kind::Value, "vInt") => {
                        if rng.chance(1, 2) {
                            let name = format!("UseR{uid}");
                            D { text: format!("{name} ::= INTEGER (0..{})", d.name), name, kind: Kind::Type, shape: "UseR".into(), refs: vec![d.name.clone()], fault: None }
                        } else {
                            let name = format!("UseD{uid}");
                            D { text: format!("{name} ::= SEQUENCE {{\n    n INTEGER DEFAULT {}\n}}", d.name), name, kind: Kind::Type, shape: "UseD".into(), refs: vec![d.name.clone()], fault: None }
                        }
                    }
                    (Kind::Value, "vboo") => {
                        let name = format!("UseD{uid}");
                        D { text: format!("{name} ::= SEQUENCE {{\n    b BOOLEAN DEFAULT {}\n}}", d.name), name, kind: Kind::Type, shape: "UseD".into(), refs: vec![d.name.clone()], fault: None }
                    }
                    _ => continue,
                };
                mods[j].defs.push(nd);
            }
        }
    }
}

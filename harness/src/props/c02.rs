//! C02: constructed types keep every component, in order, with the right shape; recursion is boxed.
use super::structs::*;
use crate::gen_types::*;
use crate::proj;
use crate::report::{Report, RunCfg};
use crate::util::*;
use serde_json::json;
use std::collections::BTreeMap;

fn describe(c: &Case) -> Vec<String> {
    let mut d = vec![format!("depth:{}", c.ty.depth())];
    fn walk(t: &Ty, d: &mut Vec<String>) {
        let comps = |root: &Vec<Comp>, adds: &Vec<Add>, d: &mut Vec<String>| {
            let all: Vec<&Comp> = root
                .iter()
                .chain(adds.iter().flat_map(|a| match a {
                    Add::Comp(c) => vec![c],
                    Add::Group(_, cs) => cs.iter().collect(),
                }))
                .collect();
            d.push(format!("components:{}", all.len().min(12)));
            for c in all {
                d.push(match c.opt {
                    Opt::Req => "opt:required".into(),
                    Opt::Optional => "opt:OPTIONAL".into(),
                    Opt::Default(_) => "opt:DEFAULT".into(),
                });
                d.push(match &c.ty {
                    Ty::Prim(p) => format!("comp-type:{p}"),
                    Ty::Ref(_) => "comp-type:reference".into(),
                    Ty::Seq { set, .. } => format!("comp-type:anonymous {}", if *set { "SET" } else { "SEQUENCE" }),
                    Ty::Choice { .. } => "comp-type:anonymous CHOICE".into(),
                    Ty::Enum { .. } => "comp-type:anonymous ENUMERATED".into(),
                    Ty::SeqOf { set, .. } => format!("comp-type:{} OF", if *set { "SET" } else { "SEQUENCE" }),
                });
                walk(&c.ty, d);
            }
        };
        match t {
            Ty::Seq { root, adds, .. } | Ty::Choice { root, adds, .. } => comps(root, adds, d),
            Ty::SeqOf { elem, .. } => walk(elem, d),
            _ => {}
        }
    }
    walk(&c.ty, &mut d);
    d.sort();
    d.dedup();
    d
}

/// small exhaustive slice: ≤ 3 components, every optionality × a few component types, marker at every position
fn exhaustive_small() -> Vec<Case> {
    let tys = [Ty::Prim("BOOLEAN"), Ty::Prim("INTEGER"), Ty::Ref("Ref-Seq".into()), Ty::SeqOf { set: false, elem: Box::new(Ty::Prim("INTEGER")), elem_tag: None },
        Ty::Seq { set: false, root: vec![Comp { name: "z".into(), tag: None, ty: Ty::Prim("NULL"), opt: Opt::Req }], marker: false, adds: vec![] }];
    let opts = [Opt::Req, Opt::Optional, Opt::Default("TRUE".into())];
    let mut cases = Vec::new();
    for n in 0..=3usize {
        // choose (type, opt) per component from a rotating schedule so that each pair occurs
        for rot in 0..(tys.len() * opts.len()) {
            let comps: Vec<Comp> = (0..n)
                .map(|i| {
                    let ty = tys[(rot + i) % tys.len()].clone();
                    let mut opt = opts[(rot / tys.len() + i) % opts.len()].clone();
                    if let Opt::Default(_) = opt {
                        opt = match &ty {
                            Ty::Prim("BOOLEAN") => Opt::Default("TRUE".into()),
                            Ty::Prim("INTEGER") => Opt::Default("5".into()),
                            _ => Opt::Optional,
                        };
                    }
                    Comp { name: format!("c{i}"), tag: None, ty, opt }
                })
                .collect();
            for set in [false, true] {
                for marker_pos in 0..=n + 1 {
                    // marker_pos == n + 1: no marker
                    let (root, marker, adds) = if marker_pos > n {
                        (comps.clone(), false, vec![])
                    } else {
                        (comps[..marker_pos].to_vec(), true, comps[marker_pos..].iter().cloned().map(Add::Comp).collect())
                    };
                    cases.push(Case { env: ENVS[(rot + n) % 4], implied: rot % 5 == 0, tag: None, ty: Ty::Seq { set, root: root.clone(), marker, adds: adds.clone() } });
                }
            }
            if n > 0 {
                let alts: Vec<Comp> = comps.iter().cloned().map(|mut c| { c.opt = Opt::Req; c }).collect();
                cases.push(Case { env: ENVS[rot % 4], implied: false, tag: None, ty: Ty::Choice { root: alts, marker: rot % 2 == 0, adds: vec![] } });
            }
        }
    }
    cases
}

/// recursion scenarios: each is a whole module; the oracle is the inline-reference graph of the output
fn recursion_modules(cfg: &RunCfg) -> Vec<(String, String)> {
    let mut out: Vec<(String, String)> = vec![
        ("direct-optional".into(), "A ::= SEQUENCE { v INTEGER, next A OPTIONAL }".into()),
        ("direct-choice".into(), "A ::= CHOICE { leaf NULL, node A }".into()),
        ("direct-set".into(), "A ::= SET { v INTEGER, next A OPTIONAL }".into()),
        ("mutual-seq".into(), "A ::= SEQUENCE { b B OPTIONAL }\nB ::= SEQUENCE { a A OPTIONAL }".into()),
        ("mutual-set".into(), "A ::= SET { b B OPTIONAL }\nB ::= SET { a A OPTIONAL }".into()),
        ("mutual-seq-set".into(), "A ::= SEQUENCE { b B OPTIONAL }\nB ::= SET { a A OPTIONAL }".into()),
        ("mutual-choice-seq".into(), "A ::= CHOICE { x NULL, b B }\nB ::= SEQUENCE { a A }".into()),
        ("three-cycle".into(), "A ::= SEQUENCE { b B OPTIONAL }\nB ::= SEQUENCE { c C OPTIONAL }\nC ::= SEQUENCE { a A OPTIONAL }".into()),
        ("three-cycle-sets".into(), "A ::= SET { b B OPTIONAL }\nB ::= SET { c C OPTIONAL }\nC ::= SET { a A OPTIONAL }".into()),
        ("through-anonymous".into(), "A ::= SEQUENCE { inner SEQUENCE { back A OPTIONAL } }".into()),
        ("through-anonymous-set".into(), "A ::= SET { inner SET { back A OPTIONAL } }".into()),
        ("through-anonymous-choice".into(), "A ::= SEQUENCE { inner CHOICE { stop NULL, back A } }".into()),
        ("through-sequence-of".into(), "A ::= SEQUENCE { children SEQUENCE OF A }".into()),
        ("through-alias".into(), "A ::= SEQUENCE { b B OPTIONAL }\nB ::= A".into()),
        ("self-and-other".into(), "A ::= SEQUENCE { a A OPTIONAL, b B }\nB ::= SEQUENCE { a A OPTIONAL, b B OPTIONAL }".into()),
        ("diamond".into(), "A ::= SEQUENCE { b B, c C }\nB ::= SEQUENCE { d D OPTIONAL }\nC ::= SET { d D OPTIONAL }\nD ::= CHOICE { n NULL, a A }".into()),
        ("ext-addition".into(), "A ::= SEQUENCE { v INTEGER, ..., next A OPTIONAL }".into()),
        ("choice-ext".into(), "A ::= CHOICE { n NULL, ..., rec A }".into()),
    ];
    // seeded random reference graphs over 2..4 types
    let mut rng = Rng::new(cfg.seed ^ 0xC02);
    let n = cfg.budget(150, 3000);
    for k in 0..n {
        let nt = 2 + rng.below(3);
        let names: Vec<String> = (0..nt).map(|i| format!("N{}", (b'A' + i as u8) as char)).collect();
        let mut defs = Vec::new();
        for i in 0..nt {
            let kind = rng.below(3);
            let nc = 1 + rng.below(3);
            let mut comps = Vec::new();
            for j in 0..nc {
                let target = rng.pick(&names).clone();
                let shape = rng.below(6);
                let ty = match shape {
                    0 => "INTEGER".to_string(),
                    1 => format!("SEQUENCE OF {target}"),
                    2 => format!("SEQUENCE {{ deep {target} OPTIONAL }}"),
                    3 => format!("SET {{ deep {target} OPTIONAL }}"),
                    _ => target.clone(),
                };
                let opt = if kind != 2 && rng.chance(2, 3) { " OPTIONAL" } else { "" };
                comps.push(format!("f{j} {ty}{opt}"));
            }
            if kind == 2 {
                comps.insert(0, "base NULL".into());
            }
            let kw = ["SEQUENCE", "SET", "CHOICE"][kind];
            defs.push(format!("{} ::= {kw} {{ {} }}", names[i], comps.join(", ")));
        }
        out.push((format!("random-graph-{k}"), defs.join("\n")));
    }
    out
}

pub fn run(cfg: &RunCfg) -> Report {
    let mut rep = Report::new(
        "C02",
        "shapes: exhaustive slice (≤3 components × optionality × 5 component types × marker at every position × SEQUENCE/SET/CHOICE) plus seeded random type assignments (0..12 components, every built-in and referenced type, nesting ≤4, groups, all tagging/extensibility defaults); recursion: 18 hand-written reference-cycle scenarios plus seeded random reference graphs over 2..4 types; reference graphs over 2..8 definitions (members mentioning definitions directly, through one or two levels of anonymous types, several times, or only behind lists; aliases, list types, leaves; names in every order) whose boxed members are compared one by one with the model of the recursion analysis. Non-trivial = compiled and every item read back; distinct = distinct notation",
    );
    if let Some(r) = &cfg.replay {
        let r = r.get("case").unwrap_or(r);
        if let Some(n) = r.get("default_function_type").and_then(|x| x.as_str()) {
            default_functions(&mut rep, Some(n));
            return rep;
        }
        if r.get("list_element_form").is_some() {
            list_element_forms(&mut rep);
            return rep;
        }
        if let (Some(m), Some(g)) = (r.get("recursion_module").and_then(|m| m.as_str()), r.get("graph_request").and_then(|m| m.as_str())) {
            let body = m.lines().filter(|l| !l.starts_with("Rec-Mod DEFINITIONS") && *l != "END").collect::<Vec<_>>().join("\n");
            judge_marking(&[RecGraph { label: "replay".into(), body, request: g.to_string() }], &mut rep);
        } else if let Some(m) = r.get("recursion_module").and_then(|m| m.as_str()) {
            let body = m.lines().filter(|l| !l.starts_with("Rec-Mod DEFINITIONS") && *l != "END").collect::<Vec<_>>().join("\n");
            judge_recursion(&[("replay".to_string(), body)], &mut rep);
        } else {
            let setting = r.get("case").unwrap_or(r).get("setting").and_then(|x| x.as_str()).unwrap_or("").to_string();
            let c = case_from_replay(r).expect("bad replay");
            if setting == CLASS_FIELD_SETTING || setting == CLASS_FIELD_SETTING_LAST {
                judge_class_field_at("c02", &[c], &mut rep, &describe, setting == CLASS_FIELD_SETTING_LAST);
            } else {
                judge("c02", &[c], &mut rep, &describe);
            }
        }
        return rep;
    }
    let mut cases: Vec<Case> = load_corpus("C02").iter().filter_map(case_from_replay).collect();
    cases.extend(exhaustive_small());
    cases.extend(random_cases(cfg, 0xC02, cfg.budget(1200, 30000), || GenCfg { max_depth: 4, max_comps: 12, tags: true, groups: true, defaults: true }));
    rep.exhaustive = true;
    judge("c02", &cases, &mut rep, &describe);
    // ... and when a component (the first / the last plain INTEGER one, nested ones included) is written as a reference to a
    // fixed-type field of an information object class: the linker rebuilds such definitions member by member
    let sample: Vec<Case> = cases.iter().step_by(if cfg.thorough { 2 } else { 4 }).cloned().collect();
    judge_class_field("c02", &sample, &mut rep, &describe);
    judge_recursion(&recursion_modules(cfg), &mut rep);
    judge_marking(&recursion_graphs(cfg), &mut rep);
    default_functions(&mut rep, None);
    list_element_forms(&mut rep);
    rep
}

/// SEQUENCE OF / SET OF whose element carries a name, a tag, a constraint, or several of these (X.680 26.1 / 28.1:
/// `SEQUENCE OF NamedType`), at top level and as a component: one list per notation, with that element type.
fn list_element_forms(rep: &mut Report) {
    let elems: [(&str, &str); 10] = [
        ("INTEGER", "Integer"),
        ("item INTEGER", "Integer"),
        ("[3] INTEGER", "Integer"),
        ("item [3] INTEGER", "Integer"),
        ("flag [APPLICATION 1] BOOLEAN", "bool"),
        ("entry [0] EXPLICIT Elem", "Elem"),
        ("entry Elem", "Elem"),
        ("[PRIVATE 2] IMPLICIT Elem", "Elem"),
        ("name UTF8String", "Utf8String"),
        ("n [7] NULL", "()"),
    ];
    for (k, (elem, inner)) in elems.iter().enumerate() {
        for (kw, wrapper) in [("SEQUENCE", "SequenceOf"), ("SET", "SetOf")] {
            for size in ["", "(SIZE (1..4)) "] {
                rep.evaluations += 1;
                rep.count("list-element-form");
                let text = format!("Le-Mod{k} DEFINITIONS EXPLICIT TAGS ::= BEGIN\nElem ::= SEQUENCE {{ a INTEGER }}\nTop ::= {kw} {size}OF {elem}\nHolder ::= SEQUENCE {{ first BOOLEAN, l {kw} {size}OF {elem}, last NULL }}\nEND\n");
                let case = json!({"list_element_form": elem, "module": text});
                match compile_rasn(&[text.clone()]) {
                    Outcome::Ok { generated, .. } => match proj::project(&generated) {
                        Ok(ms) => {
                            let Some(m) = ms.first() else { continue };
                            rep.distinct.insert(format!("list-element|{kw}|{size}|{elem}"));
                            let want = format!("{wrapper}<");
                            let top_ok = matches!(m.item("Top").map(|i| &i.kind), Some(proj::ItemKind::Struct { fields, tuple: true }) if fields.len() == 1 && fields[0].ty.replace(' ', "").starts_with(&want));
                            let mut holder = match m.item("Holder").map(|i| &i.kind) {
                                Some(proj::ItemKind::Struct { fields, tuple: false }) => fields.iter().map(|f| (f.name.clone(), f.ty.replace(' ', ""))).collect::<Vec<_>>(),
                                _ => vec![],
                            };
                            // the list of the component is written in place, or hoisted into a newtype of its own (tagged elements)
                            let list_ty = |ty: &str| -> String {
                                if ty.starts_with(&want) { return ty.to_string(); }
                                match m.item(ty).map(|i| &i.kind) { Some(proj::ItemKind::Struct { fields, tuple: true }) if fields.len() == 1 => fields[0].ty.replace(' ', ""), _ => String::new() }
                            };
                            if holder.len() == 3 {
                                let t = list_ty(&holder[1].1);
                                holder[1].1 = t;
                            }
                            let holder_ok = holder.len() == 3 && holder[0].0 == "first" && holder[2].0 == "last" && holder[1].0 == "l" && holder[1].1.starts_with(&want);
                            // the element type: the written one, or an anonymous newtype of it (tags and constraints are hoisted)
                            let elem_ok = |ty: &str| ty.contains(&format!("<{inner}>")) || ty.contains("<Anonymous");
                            let top_ty = match m.item("Top").map(|i| &i.kind) { Some(proj::ItemKind::Struct { fields, .. }) if !fields.is_empty() => fields[0].ty.replace(' ', ""), _ => String::new() };
                            if !top_ok || !holder_ok || !elem_ok(&top_ty) || !elem_ok(&holder.get(1).map(|x| x.1.clone()).unwrap_or_default()) {
                                rep.unsat("", false, json!({"why": format!("`{kw} {size}OF {elem}`: expected a {wrapper} of {inner} at top level and as the middle one of three components; Top is `{top_ty}`, Holder is {:?}", holder), "case": case}));
                            }
                        }
                        Err(e) => rep.harness_errors.push(format!("projection failed: {e}")),
                    },
                    Outcome::Err(e) => rep.unsat("", false, json!({"why": format!("`{kw} {size}OF {elem}` is valid notation (a named, tagged element), the compilation fails: {e}"), "case": case})),
                    Outcome::Panic(p) => rep.unsat("", false, json!({"why": format!("panic: {p}"), "case": case})),
                }
            }
        }
    }
}

/// "DEFAULT components carry a default function": the function named by the field's `default` attribute exists,
/// and so do the functions `impl Default` calls — for type names that the Rust spelling changes (hyphens before
/// capitals, digits, lower-case letters; all capitals), SEQUENCE and SET, all or some members with DEFAULT
fn default_functions(rep: &mut Report, only: Option<&str>) {
    let names = ["DL-Info", "Msg-2", "My-Type", "MY-TYPE", "Ab-cD", "Plain", "X25-addr", "A-B-C", "Cert-2x"];
    for (k, n) in names.iter().enumerate() {
        if only.is_some_and(|o| o != *n) {
            continue;
        }
        for (form, body) in [
            ("SEQUENCE", "{ x INTEGER DEFAULT 1, y-z BOOLEAN DEFAULT TRUE }"),
            ("SET", "{ x INTEGER DEFAULT 1, y-z BOOLEAN DEFAULT TRUE }"),
            ("SEQUENCE", "{ w NULL, x INTEGER (0..7) DEFAULT 1, ..., v UTF8String DEFAULT \"q\" }"),
        ] {
            rep.evaluations += 1;
            rep.count("default-function");
            let text = format!("Df-Mod{k} DEFINITIONS AUTOMATIC TAGS ::= BEGIN\n{n} ::= {form} {body}\nEND\n");
            let case = json!({"default_function_type": n, "module": text});
            match compile_rasn(&[text.clone()]) {
                Outcome::Ok { generated, .. } => match proj::project(&generated) {
                    Ok(ms) => {
                        let Some(m) = ms.first() else { continue };
                        let fns: Vec<&String> = m.items.iter().filter(|i| matches!(i.kind, proj::ItemKind::Fn { .. })).map(|i| &i.name).collect();
                        let mut seen = 0;
                        for it in &m.items {
                            match &it.kind {
                                proj::ItemKind::Struct { fields, tuple: false } => {
                                    for f in fields {
                                        if let Some(d) = f.attrs.get("default") {
                                            seen += 1;
                                            let d = d.trim_matches('"').to_string();
                                            if !fns.contains(&&d) {
                                                rep.unsat("", false, json!({"why": format!("field `{}` of `{}` names the default function `{d}`; the module has {:?}", f.name, it.name, fns), "case": case}));
                                            }
                                        }
                                    }
                                }
                                proj::ItemKind::Impl { trait_: Some(t), body, .. } if t.contains("Default") => {
                                    let sq: String = body.chars().filter(|c| !c.is_whitespace()).collect();
                                    for call in sq.split(':').filter_map(|p| p.strip_suffix("()").or_else(|| p.split("()").next().filter(|x| p.contains("()") && !x.is_empty()))) {
                                        let name: String = call.chars().rev().take_while(|c| c.is_alphanumeric() || *c == '_').collect::<String>().chars().rev().collect();
                                        if name.ends_with("_default") && !fns.iter().any(|f| **f == name) {
                                            rep.unsat("", false, json!({"why": format!("`impl Default` calls `{name}()`; the module has {:?}", fns), "case": case}));
                                        }
                                    }
                                }
                                _ => {}
                            }
                        }
                        if seen == 0 {
                            rep.unsat("", false, json!({"why": "no field carries a `default` attribute", "case": case}));
                        }
                    }
                    Err(e) => rep.unsat("", false, json!({"why": format!("generated text is not a sequence of Rust items: {e}"), "case": case})),
                },
                Outcome::Err(e) => rep.sample(json!({"compile_err": e, "module": text})),
                Outcome::Panic(p) => rep.unsat("", false, json!({"why": format!("panic: {p}"), "case": case})),
            }
        }
    }
}

/// a set of definitions described abstractly: the notation, and what the recursion analysis sees of it
pub struct RecGraph {
    pub label: String,
    pub body: String,
    /// `recmark ( (name markable ( (ref ..) .. )) .. )`, definitions in the order the linker analyses them
    pub request: String,
}

/// reference graphs over 2..8 definitions: SEQUENCE / SET / CHOICE with members that mention other
/// definitions directly, through nested anonymous types (one or two levels, several mentions), or only behind
/// SEQUENCE OF / SET OF; aliases, list types and leaves; names that sort in every order
fn recursion_graphs(cfg: &RunCfg) -> Vec<RecGraph> {
    let mut rng = Rng::new(cfg.seed ^ 0xC02B);
    let n = cfg.budget(250, 5000);
    let mut out = Vec::new();
    for k in 0..n {
        let nt = 2 + rng.below(7);
        let mut names: Vec<String> = Vec::new();
        while names.len() < nt {
            // (names that begin like the Rust types the generator wraps members in are ordinary names)
            let c = format!("{}{}", ["N", "A", "Z", "M", "Q", "Box", "Boxed", "Option", "Vec"][rng.below(9)], (b'a' + rng.below(8) as u8) as char);
            if !names.contains(&c) {
                names.push(c);
            }
        }
        // kinds first: aliases may only point at non-aliases
        let kinds: Vec<usize> = (0..nt).map(|_| [0, 0, 0, 1, 1, 2, 2, 3, 4, 5][rng.below(10)]).collect();
        let non_alias: Vec<String> = (0..nt).filter(|i| kinds[*i] != 3).map(|i| names[i].clone()).collect();
        let mut defs: Vec<(String, bool, Vec<Vec<String>>, String)> = Vec::new();
        for i in 0..nt {
            let name = names[i].clone();
            match kinds[i] {
                3 if !non_alias.is_empty() => {
                    let t = rng.pick(&non_alias).clone();
                    defs.push((name.clone(), false, vec![vec![t.clone()]], format!("{name} ::= {t}")));
                }
                4 => {
                    let t = rng.pick(&names).clone();
                    defs.push((name.clone(), false, vec![], format!("{name} ::= {} OF {t}", ["SEQUENCE", "SET"][rng.below(2)])));
                }
                5 | 3 => defs.push((name.clone(), false, vec![], format!("{name} ::= INTEGER (0..7)"))),
                kind => {
                    let nc = 1 + rng.below(4);
                    let mut comps: Vec<String> = Vec::new();
                    let mut members: Vec<Vec<String>> = Vec::new();
                    if kind == 2 {
                        comps.push("base NULL".into());
                        members.push(vec![]);
                    }
                    for j in 0..nc {
                        let t = rng.pick(&names).clone();
                        let u = rng.pick(&names).clone();
                        let (ty, refs): (String, Vec<String>) = match rng.below(10) {
                            0 => ("INTEGER".into(), vec![]),
                            1 => (format!("SEQUENCE OF {t}"), vec![]),
                            2 | 3 => (t.clone(), vec![t.clone()]),
                            4 => (format!("SEQUENCE {{ deep {t} OPTIONAL }}"), vec![t.clone()]),
                            5 => (format!("SET {{ deep {t} OPTIONAL, other {u} OPTIONAL }}"), vec![t.clone(), u.clone()]),
                            6 => (format!("CHOICE {{ stop NULL, back {t} }}"), vec![t.clone()]),
                            7 => (format!("SEQUENCE {{ l1 SEQUENCE {{ l2 {t} OPTIONAL }}, m1 {u} OPTIONAL }}"), vec![t.clone(), u.clone()]),
                            8 => (format!("SEQUENCE {{ lst SET OF {t}, d {u} OPTIONAL }}"), vec![u.clone()]),
                            _ => (format!("SEQUENCE {{ x {t}, y {t} OPTIONAL }}"), vec![t.clone(), t.clone()]),
                        };
                        let opt = if kind != 2 && rng.chance(2, 3) { " OPTIONAL" } else { "" };
                        comps.push(format!("f{j} {ty}{opt}"));
                        members.push(refs);
                    }
                    // sometimes a member whose DEFAULT the linker cannot tie to its type (a one-element list value is
                    // lexed as an object identifier): a warning about the value must not stop the recursion analysis
                    if kind != 2 && rng.chance(1, 6) {
                        comps.push("pal SET OF Qcol DEFAULT { red }".into());
                        members.push(vec![]);
                    }
                    let kw = ["SEQUENCE", "SET", "CHOICE"][kind];
                    defs.push((name.clone(), true, members, format!("{name} ::= {kw} {{ {} }}", comps.join(", "))));
                }
            }
        }
        let body = defs.iter().map(|d| d.3.clone()).collect::<Vec<_>>().join("\n") + "\nQcol ::= ENUMERATED { red, green }";
        let mut sorted: Vec<&(String, bool, Vec<Vec<String>>, String)> = defs.iter().collect();
        // `Validator::link` pops its key list from the end: definitions are analysed in descending key order
        sorted.sort_by(|a, b| b.0.cmp(&a.0));
        let request = format!(
            "recmark {}",
            sx_list(sorted.iter().map(|d| format!("( {} {} {} )", hex(&d.0), sx_bool(d.1), sx_list(d.2.iter().map(|r| sx_list(r.iter().map(|x| hex(x))))))))
        );
        out.push(RecGraph { label: format!("graph-{k}"), body, request });
    }
    out
}

/// model tie: the members the code boxes are exactly the members the model of the analysis marks; and the spec
/// oracle on the output (no SEQUENCE / SET / CHOICE on a cycle of unboxed inline references)
fn judge_marking(graphs: &[RecGraph], rep: &mut Report) {
    let mut reqs = Vec::new();
    let mut meta = Vec::new();
    for g in graphs {
        rep.evaluations += 1;
        let text = format!("Rec-Mod DEFINITIONS AUTOMATIC TAGS ::= BEGIN\n{}\nEND\n", g.body);
        let case = json!({"recursion_module": text, "label": g.label, "graph_request": g.request});
        match compile_rasn(&[text.clone()]) {
            Outcome::Ok { generated, warnings } => match proj::project(&generated) {
                Ok(ms) => {
                    let Some(m) = ms.first() else { continue };
                    if !warnings.is_empty() {
                        rep.count("marking:warnings");
                    }
                    // observed: per struct / enum item, one bit per field / variant
                    let mut seen: BTreeMap<String, String> = BTreeMap::new();
                    for it in &m.items {
                        let bits: Option<String> = match &it.kind {
                            proj::ItemKind::Struct { fields, tuple: false } => Some(fields.iter().map(|f| if f.ty.replace(' ', "").contains("Box<") { '1' } else { '0' }).collect()),
                            proj::ItemKind::Enum { variants } => Some(variants.iter().map(|v| if v.payload.as_deref().unwrap_or("").replace(' ', "").contains("Box<") { '1' } else { '0' }).collect()),
                            _ => None,
                        };
                        if let Some(b) = bits {
                            seen.insert(it.name.clone(), b);
                        }
                    }
                    let items: Vec<String> = m.items.iter().filter_map(item_sx).collect();
                    rep.distinct.insert(g.body.clone());
                    reqs.push(g.request.clone());
                    reqs.push(format!("recgraph {}", sx_list(items)));
                    meta.push((case, seen));
                }
                Err(e) => rep.harness_errors.push(format!("projection failed: {e}")),
            },
            Outcome::Err(e) => {
                rep.count("marking:compile-err");
                rep.sample(json!({"compile_err": e, "module": text}));
            }
            Outcome::Panic(p) => {
                rep.unsat("", false, json!({"why": format!("panic: {p}"), "case": case}));
            }
        }
    }
    match run_driver(&reqs) {
        Ok(ans) => {
            for (k, (case, seen)) in meta.iter().enumerate() {
                let (marks, cyc) = (&ans[2 * k], &ans[2 * k + 1]);
                if k % 53 == 0 {
                    rep.sample(json!({"marking": case, "model": marks, "oracle": cyc}));
                }
                if cyc != "acyclic" {
                    rep.unsat("", false, json!({"why": format!("a recursive component is stored inline (not boxed): {cyc}"), "case": case}));
                }
                let mut any_marked = false;
                for tok in marks.split(' ').filter(|t| *t != "-") {
                    let Some((name, bits)) = tok.split_once(':') else {
                        rep.harness_errors.push(format!("driver answer `{marks}`"));
                        break;
                    };
                    if bits == "-" {
                        continue;
                    }
                    any_marked |= bits.contains('1');
                    match seen.get(name) {
                        Some(ob) if ob == bits => {}
                        // aliases are tuple structs: one unmarkable pseudo-member in the model
                        None if !bits.contains('1') => {}
                        other => rep.disagree(json!({"difference": format!("definition {name}: the model of the analysis marks members {bits}, the generated item boxes {:?}", other), "case": case})),
                    }
                }
                rep.count(if any_marked { "marking:some-member-boxed" } else { "marking:nothing-boxed" });
            }
        }
        Err(e) => rep.harness_errors.push(e),
    }
}

fn judge_recursion(mods: &[(String, String)], rep: &mut Report) {
    let mut reqs = Vec::new();
    let mut meta = Vec::new();
    for (label, body) in mods {
        rep.evaluations += 1;
        let text = format!("Rec-Mod DEFINITIONS AUTOMATIC TAGS ::= BEGIN\n{body}\nEND\n");
        match compile_rasn(&[text.clone()]) {
            Outcome::Ok { generated, .. } => match proj::project(&generated) {
                Ok(ms) => {
                    let Some(m) = ms.first() else { continue };
                    let items: Vec<String> = m.items.iter().filter_map(item_sx).collect();
                    let boxed = generated.matches("Box <").count();
                    rep.count(if boxed > 0 { "recursion:boxed-somewhere" } else { "recursion:no-box" });
                    rep.distinct.insert(body.clone());
                    reqs.push(format!("recgraph {}", sx_list(items)));
                    meta.push((label.clone(), text));
                }
                Err(e) => rep.harness_errors.push(format!("projection failed: {e}")),
            },
            Outcome::Err(e) => {
                rep.count("recursion:compile-err");
                rep.sample(json!({"compile_err": e, "module": text}));
            }
            Outcome::Panic(p) => {
                rep.count("recursion:compile-panic");
                rep.sample(json!({"compile_panic": p, "module": text}));
            }
        }
    }
    match run_driver(&reqs) {
        Ok(ans) => {
            for (k, a) in ans.iter().enumerate() {
                let (label, text) = &meta[k];
                if k % 37 == 0 {
                    rep.sample(json!({"recursion": label, "module": text, "answer": a}));
                }
                if a != "acyclic" {
                    rep.unsat("", false, json!({"why": format!("a recursive component is stored inline (not boxed): {a}"), "case": {"recursion_module": text, "label": label}}));
                }
            }
        }
        Err(e) => rep.harness_errors.push(e),
    }
}

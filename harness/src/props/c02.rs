//! C02: constructed types keep every component, in order, with the right shape; recursion is boxed.
use super::structs::*;
use crate::gen_types::*;
use crate::proj;
use crate::report::{Report, RunCfg};
use crate::util::*;
use serde_json::json;

fn describe(c: &Case) -> Vec<String> {
    let mut d = vec![format!("depth:{}", c.ty.depth())];
    fn walk(t: &Ty, d: &mut Vec<String>) {
        let comps = |root: &Vec<Comp>, adds: &Vec<Add>, d: &mut Vec<String>| {
            let all: Vec<&Comp> = root
                .iter()
                .chain(adds.iter().flat_map(|a| match a {
                    Add::Comp(c) => vec![c],
                    Add::Group(_, cs) => cs.iter().collect(),
                }))
                .collect();
            d.push(format!("components:{}", all.len().min(12)));
            for c in all {
                d.push(match c.opt {
                    Opt::Req => "opt:required".into(),
                    Opt::Optional => "opt:OPTIONAL".into(),
                    Opt::Default(_) => "opt:DEFAULT".into(),
                });
                d.push(match &c.ty {
                    Ty::Prim(p) => format!("comp-type:{p}"),
                    Ty::Ref(_) => "comp-type:reference".into(),
                    Ty::Seq { set, .. } => format!("comp-type:anonymous {}", if *set { "SET" } else { "SEQUENCE" }),
                    Ty::Choice { .. } => "comp-type:anonymous CHOICE".into(),
                    Ty::Enum { .. } => "comp-type:anonymous ENUMERATED".into(),
                    Ty::SeqOf { set, .. } => format!("comp-type:{} OF", if *set { "SET" } else { "SEQUENCE" }),
                });
                walk(&c.ty, d);
            }
        };
        match t {
            Ty::Seq { root, adds, .. } | Ty::Choice { root, adds, .. } => comps(root, adds, d),
            Ty::SeqOf { elem, .. } => walk(elem, d),
            _ => {}
        }
    }
    walk(&c.ty, &mut d);
    d.sort();
    d.dedup();
    d
}

/// small exhaustive slice: ≤ 3 components, every optionality × a few component types, marker at every position
fn exhaustive_small() -> Vec<Case> {
    let tys = [Ty::Prim("BOOLEAN"), Ty::Prim("INTEGER"), Ty::Ref("Ref-Seq".into()), Ty::SeqOf { set: false, elem: Box::new(Ty::Prim("INTEGER")), elem_tag: None },
        Ty::Seq { set: false, root: vec![Comp { name: "z".into(), tag: None, ty: Ty::Prim("NULL"), opt: Opt::Req }], marker: false, adds: vec![] }];
    let opts = [Opt::Req, Opt::Optional, Opt::Default("TRUE".into())];
    let mut cases = Vec::new();
    for n in 0..=3usize {
        // choose (type, opt) per component from a rotating schedule so that each pair occurs
        for rot in 0..(tys.len() * opts.len()) {
            let comps: Vec<Comp> = (0..n)
                .map(|i| {
                    let ty = tys[(rot + i) % tys.len()].clone();
                    let mut opt = opts[(rot / tys.len() + i) % opts.len()].clone();
                    if let Opt::Default(_) = opt {
                        opt = match &ty {
                            Ty::Prim("BOOLEAN") => Opt::Default("TRUE".into()),
                            Ty::Prim("INTEGER") => Opt::Default("5".into()),
                            _ => Opt::Optional,
                        };
                    }
                    Comp { name: format!("c{i}"), tag: None, ty, opt }
                })
                .collect();
            for set in [false, true] {
                for marker_pos in 0..=n + 1 {
                    // marker_pos == n + 1: no marker
                    let (root, marker, adds) = if marker_pos > n {
                        (comps.clone(), false, vec![])
                    } else {
                        (comps[..marker_pos].to_vec(), true, comps[marker_pos..].iter().cloned().map(Add::Comp).collect())
                    };
                    cases.push(Case { env: ENVS[(rot + n) % 4], implied: rot % 5 == 0, tag: None, ty: Ty::Seq { set, root: root.clone(), marker, adds: adds.clone() } });
                }
            }
            if n > 0 {
                let alts: Vec<Comp> = comps.iter().cloned().map(|mut c| { c.opt = Opt::Req; c }).collect();
                cases.push(Case { env: ENVS[rot % 4], implied: false, tag: None, ty: Ty::Choice { root: alts, marker: rot % 2 == 0, adds: vec![] } });
            }
        }
    }
    cases
}

/// recursion scenarios: each is a whole module; the oracle is the inline-reference graph of the output
fn recursion_modules(cfg: &RunCfg) -> Vec<(String, String)> {
    let mut out: Vec<(String, String)> = vec![
        ("direct-optional".into(), "A ::= SEQUENCE { v INTEGER, next A OPTIONAL }".into()),
        ("direct-choice".into(), "A ::= CHOICE { leaf NULL, node A }".into()),
        ("direct-set".into(), "A ::= SET { v INTEGER, next A OPTIONAL }".into()),
        ("mutual-seq".into(), "A ::= SEQUENCE { b B OPTIONAL }\nB ::= SEQUENCE { a A OPTIONAL }".into()),
        ("mutual-set".into(), "A ::= SET { b B OPTIONAL }\nB ::= SET { a A OPTIONAL }".into()),
        ("mutual-seq-set".into(), "A ::= SEQUENCE { b B OPTIONAL }\nB ::= SET { a A OPTIONAL }".into()),
        ("mutual-choice-seq".into(), "A ::= CHOICE { x NULL, b B }\nB ::= SEQUENCE { a A }".into()),
        ("three-cycle".into(), "A ::= SEQUENCE { b B OPTIONAL }\nB ::= SEQUENCE { c C OPTIONAL }\nC ::= SEQUENCE { a A OPTIONAL }".into()),
        ("three-cycle-sets".into(), "A ::= SET { b B OPTIONAL }\nB ::= SET { c C OPTIONAL }\nC ::= SET { a A OPTIONAL }".into()),
        ("through-anonymous".into(), "A ::= SEQUENCE { inner SEQUENCE { back A OPTIONAL } }".into()),
        ("through-anonymous-set".into(), "A ::= SET { inner SET { back A OPTIONAL } }".into()),
        ("through-anonymous-choice".into(), "A ::= SEQUENCE { inner CHOICE { stop NULL, back A } }".into()),
        ("through-sequence-of".into(), "A ::= SEQUENCE { children SEQUENCE OF A }".into()),
        ("through-alias".into(), "A ::= SEQUENCE { b B OPTIONAL }\nB ::= A".into()),
        ("self-and-other".into(), "A ::= SEQUENCE { a A OPTIONAL, b B }\nB ::= SEQUENCE { a A OPTIONAL, b B OPTIONAL }".into()),
        ("diamond".into(), "A ::= SEQUENCE { b B, c C }\nB ::= SEQUENCE { d D OPTIONAL }\nC ::= SET { d D OPTIONAL }\nD ::= CHOICE { n NULL, a A }".into()),
        ("ext-addition".into(), "A ::= SEQUENCE { v INTEGER, ..., next A OPTIONAL }".into()),
        ("choice-ext".into(), "A ::= CHOICE { n NULL, ..., rec A }".into()),
    ];
    // seeded random reference graphs over 2..4 types
    let mut rng = Rng::new(cfg.seed ^ 0xC02);
    let n = cfg.budget(150, 3000);
    for k in 0..n {
        let nt = 2 + rng.below(3);
        let names: Vec<String> = (0..nt).map(|i| format!("N{}", (b'A' + i as u8) as char)).collect();
        let mut defs = Vec::new();
        for i in 0..nt {
            let kind = rng.below(3);
            let nc = 1 + rng.below(3);
            let mut comps = Vec::new();
            for j in 0..nc {
                let target = rng.pick(&names).clone();
                let shape = rng.below(6);
                let ty = match shape {
                    0 => "INTEGER".to_string(),
                    1 => format!("SEQUENCE OF {target}"),
                    2 => format!("SEQUENCE {{ deep {target} OPTIONAL }}"),
                    3 => format!("SET {{ deep {target} OPTIONAL }}"),
                    _ => target.clone(),
                };
                let opt = if kind != 2 && rng.chance(2, 3) { " OPTIONAL" } else { "" };
                comps.push(format!("f{j} {ty}{opt}"));
            }
            if kind == 2 {
                comps.insert(0, "base NULL".into());
            }
            let kw = ["SEQUENCE", "SET", "CHOICE"][kind];
            defs.push(format!("{} ::= {kw} {{ {} }}", names[i], comps.join(", ")));
        }
        out.push((format!("random-graph-{k}"), defs.join("\n")));
    }
    out
}

pub fn run(cfg: &RunCfg) -> Report {
    let mut rep = Report::new(
        "C02",
        "shapes: exhaustive slice (≤3 components × optionality × 5 component types × marker at every position × SEQUENCE/SET/CHOICE) plus seeded random type assignments (0..12 components, every built-in and referenced type, nesting ≤4, groups, all tagging/extensibility defaults); recursion: 18 hand-written reference-cycle scenarios plus seeded random reference graphs over 2..4 types. Non-trivial = compiled and every item read back; distinct = distinct notation",
    );
    if let Some(r) = &cfg.replay {
        let r = r.get("case").unwrap_or(r);
        if let Some(m) = r.get("recursion_module").and_then(|m| m.as_str()) {
            judge_recursion(&[("replay".to_string(), m.to_string())], &mut rep);
        } else {
            judge("c02", &[case_from_replay(r).expect("bad replay")], &mut rep, &describe);
        }
        return rep;
    }
    let mut cases: Vec<Case> = load_corpus("C02").iter().filter_map(case_from_replay).collect();
    cases.extend(exhaustive_small());
    cases.extend(random_cases(cfg, 0xC02, cfg.budget(1200, 30000), || GenCfg { max_depth: 4, max_comps: 12, tags: true, groups: true, defaults: true }));
    rep.exhaustive = true;
    judge("c02", &cases, &mut rep, &describe);
    judge_recursion(&recursion_modules(cfg), &mut rep);
    rep
}

fn judge_recursion(mods: &[(String, String)], rep: &mut Report) {
    let mut reqs = Vec::new();
    let mut meta = Vec::new();
    for (label, body) in mods {
        rep.evaluations += 1;
        let text = format!("Rec-Mod DEFINITIONS AUTOMATIC TAGS ::= BEGIN\n{body}\nEND\n");
        match compile_rasn(&[text.clone()]) {
            Outcome::Ok { generated, .. } => match proj::project(&generated) {
                Ok(ms) => {
                    let Some(m) = ms.first() else { continue };
                    let items: Vec<String> = m.items.iter().filter_map(item_sx).collect();
                    let boxed = generated.matches("Box <").count();
                    rep.count(if boxed > 0 { "recursion:boxed-somewhere" } else { "recursion:no-box" });
                    rep.distinct.insert(body.clone());
                    reqs.push(format!("recgraph {}", sx_list(items)));
                    meta.push((label.clone(), text));
                }
                Err(e) => rep.harness_errors.push(format!("projection failed: {e}")),
            },
            Outcome::Err(e) => {
                rep.count("recursion:compile-err");
                rep.sample(json!({"compile_err": e, "module": text}));
            }
            Outcome::Panic(p) => {
                rep.count("recursion:compile-panic");
                rep.sample(json!({"compile_panic": p, "module": text}));
            }
        }
    }
    match run_driver(&reqs) {
        Ok(ans) => {
            for (k, a) in ans.iter().enumerate() {
                let (label, text) = &meta[k];
                if k % 37 == 0 {
                    rep.sample(json!({"recursion": label, "module": text, "answer": a}));
                }
                if a != "acyclic" {
                    rep.unsat("", false, json!({"why": format!("a recursive component is stored inline (not boxed): {a}"), "case": {"recursion_module": text, "label": label}}));
                }
            }
        }
        Err(e) => rep.harness_errors.push(e),
    }
}

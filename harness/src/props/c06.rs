//! C06 correspondence + oracle: integer type tokens per context over the 53-point boundary set.
use crate::proj::{self, ItemKind};
use crate::report::{Report, RunCfg};
use crate::util::*;
use serde_json::json;

#[derive(Clone, Debug, PartialEq)]
pub enum Cons {
    Range { lo: Option<i128>, hi: Option<i128>, ext: bool },
    Single { v: i128, ext: bool },
}

#[derive(Clone, Copy, Debug, PartialEq, Eq, PartialOrd, Ord)]
pub enum Ctx {
    Assign,
    Component,
    Element,
    Value,
    Default,
    Ref,
}

impl Ctx {
    fn name(self) -> &'static str {
        match self {
            Ctx::Assign => "assign",
            Ctx::Component => "component",
            Ctx::Element => "element",
            Ctx::Value => "value",
            Ctx::Default => "default",
            Ctx::Ref => "ref",
        }
    }
    /// which of the two selection routines decides the observed token
    fn path(self) -> &'static str {
        match self {
            // a SEQUENCE OF element is hoisted into an `Anonymous…` newtype built by generate_integer
            // (Integer::int_type); since fix 3464cdb a DEFAULT fn's return type is the member's own type
            Ctx::Assign | Ctx::Value | Ctx::Ref | Ctx::Element => "assign",
            Ctx::Component | Ctx::Default => "component",
        }
    }
}

#[derive(Clone, Debug)]
pub struct Case {
    pub ctx: Ctx,
    pub cons: Vec<Cons>,
    pub lit: Option<i128>,
    /// markers are written behind the parenthesised element: `((a..b), ...)` instead of `(a..b, ...)`
    pub outer: bool,
}

fn cons_asn(c: &Cons, outer: bool) -> String {
    let (body, ext) = match c {
        Cons::Range { lo, hi, ext } => (format!("{}..{}", lo.map_or("MIN".to_string(), |v| v.to_string()), hi.map_or("MAX".to_string(), |v| v.to_string())), *ext),
        Cons::Single { v, ext } => (v.to_string(), *ext),
    };
    match (ext, outer) {
        (false, _) => format!("({body})"),
        (true, false) => format!("({body}, ...)"),
        (true, true) => format!("(({body}), ...)"),
    }
}

fn cons_sx(c: &Cons) -> String {
    match c {
        Cons::Range { lo, hi, ext } => format!("( range {} {} {} )", sx_opt(lo), sx_opt(hi), sx_bool(*ext)),
        Cons::Single { v, ext } => format!("( single {} {} )", v, sx_bool(*ext)),
    }
}

impl Case {
    fn ty(&self) -> String {
        format!("INTEGER {}", self.cons.iter().map(|c| cons_asn(c, self.outer)).collect::<Vec<_>>().join(""))
    }
    pub fn asn(&self, id: usize) -> String {
        let ty = self.ty();
        match self.ctx {
            Ctx::Assign => format!("A{id} ::= {ty}"),
            Ctx::Component => format!("S{id} ::= SEQUENCE {{ f {ty} }}"),
            Ctx::Element => format!("L{id} ::= SEQUENCE OF {ty}"),
            Ctx::Value => format!("v{id} {ty} ::= {}", self.lit.unwrap()),
            Ctx::Default => format!("D{id} ::= SEQUENCE {{ f {ty} DEFAULT {} }}", self.lit.unwrap()),
            Ctx::Ref => format!("B{id} ::= {ty}\nw{id} B{id} ::= {}", self.lit.unwrap()),
        }
    }
    pub fn describe(&self, id: usize) -> serde_json::Value {
        json!({"ctx": self.ctx.name(), "asn1": self.asn(id)})
    }
}

pub fn boundary_set() -> Vec<i128> {
    let mut v = vec![0i128, 1, -1];
    for k in [7u32, 8, 15, 16, 31, 32, 63, 64] {
        let p = 1i128 << k;
        v.extend([p - 1, p, p + 1, -p - 1, -p, -p + 1]);
    }
    v.sort();
    v.dedup();
    v
}

/// trailing integer literal of a squeezed initialiser: `A5(-128)`, `-128`, `Integer::from(-5i128)`
fn literal_of(init: &str) -> Option<i128> {
    let t = init.trim_end_matches(')');
    let t = t.strip_suffix("i128").unwrap_or(t);
    let digits: String = t.chars().rev().take_while(|c| c.is_ascii_digit()).collect::<String>().chars().rev().collect();
    if digits.is_empty() {
        return None;
    }
    let rest = &t[..t.len() - digits.len()];
    let neg = rest.ends_with('-');
    let v: i128 = digits.parse().ok()?;
    Some(if neg { -v } else { v })
}

fn strip_wrappers(ty: &str) -> String {
    let mut t = ty.to_string();
    for w in ["LazyLock<", "SequenceOf<", "Option<"] {
        if let Some(r) = t.strip_prefix(w) {
            t = r.trim_end_matches('>').to_string();
        }
    }
    t
}

/// observed (token, literal) for a case, from the projected module
fn observe(m: &proj::ModuleFacts, c: &Case, id: usize) -> Result<(String, Option<i128>), String> {
    let newtype_tok = |name: &str| -> Result<String, String> {
        match m.item(name).map(|i| &i.kind) {
            Some(ItemKind::Struct { fields, tuple: true }) if fields.len() == 1 => Ok(fields[0].ty.clone()),
            other => Err(format!("item {name}: expected newtype, got {other:?}")),
        }
    };
    match c.ctx {
        Ctx::Assign => Ok((newtype_tok(&format!("A{id}"))?, None)),
        Ctx::Element => Ok((newtype_tok(&format!("AnonymousL{id}"))?, None)),
        Ctx::Component => match m.item(&format!("S{id}")).map(|i| &i.kind) {
            Some(ItemKind::Struct { fields, .. }) if fields.len() == 1 => Ok((fields[0].ty.clone(), None)),
            other => Err(format!("S{id}: {other:?}")),
        },
        Ctx::Value => match m.item(&format!("V{id}")).map(|i| &i.kind) {
            Some(ItemKind::Const { ty, init }) | Some(ItemKind::Static { ty, init }) => {
                Ok((strip_wrappers(ty), literal_of(init)))
            }
            other => Err(format!("V{id}: {other:?}")),
        },
        Ctx::Default => {
            let f = m.item(&format!("d{id}_f_default"));
            match f.map(|i| &i.kind) {
                Some(ItemKind::Fn { ret, body }) => Ok((ret.clone(), literal_of(body.trim_end_matches('}')))),
                other => Err(format!("d{id}_f_default: {other:?}")),
            }
        }
        Ctx::Ref => {
            let tok = newtype_tok(&format!("B{id}"))?;
            match m.item(&format!("W{id}")).map(|i| &i.kind) {
                Some(ItemKind::Const { init, .. }) | Some(ItemKind::Static { init, .. }) => Ok((tok, literal_of(init))),
                other => Err(format!("W{id}: {other:?}")),
            }
        }
    }
}

fn wrap(defs: &[String]) -> String {
    format!("C06-Mod DEFINITIONS AUTOMATIC TAGS ::= BEGIN\n{}\nEND\n", defs.join("\n"))
}

pub fn gen_cases(cfg: &RunCfg) -> (Vec<Case>, bool) {
    let bs = boundary_set();
    let mut cases: Vec<Case> = load_corpus("C06").iter().filter_map(case_from_json).collect();
    let mut bounds: Vec<Option<i128>> = vec![None];
    bounds.extend(bs.iter().map(|v| Some(*v)));
    // exhaustive: all (lo, hi) pairs with lo <= hi (None = MIN as lower / MAX as upper), both markers
    for lo in &bounds {
        for hi in &bounds {
            if let (Some(l), Some(h)) = (lo, hi) {
                if l > h {
                    continue;
                }
            }
            for ext in [false, true] {
                let cons = vec![Cons::Range { lo: *lo, hi: *hi, ext }];
                let lit = lo.or(*hi).unwrap_or(0);
                for ctx in [Ctx::Assign, Ctx::Component, Ctx::Element] {
                    cases.push(Case { ctx, cons: cons.clone(), lit: None, outer: false });
                    if ext {
                        cases.push(Case { ctx, cons: cons.clone(), lit: None, outer: true });
                    }
                }
                for ctx in [Ctx::Value, Ctx::Default, Ctx::Ref] {
                    cases.push(Case { ctx, cons: cons.clone(), lit: Some(lit), outer: false });
                    if ext {
                        cases.push(Case { ctx, cons: cons.clone(), lit: Some(lit), outer: true });
                    }
                    if let (Some(h), true) = (hi, lo.is_some()) {
                        if *h != lit && ctx != Ctx::Ref {
                            cases.push(Case { ctx, cons: cons.clone(), lit: Some(*h), outer: false });
                        }
                    }
                }
            }
        }
    }
    for v in &bs {
        for ext in [false, true] {
            let cons = vec![Cons::Single { v: *v, ext }];
            for ctx in [Ctx::Assign, Ctx::Component, Ctx::Element] {
                cases.push(Case { ctx, cons: cons.clone(), lit: None, outer: false });
            }
            for ctx in [Ctx::Value, Ctx::Default, Ctx::Ref] {
                cases.push(Case { ctx, cons: cons.clone(), lit: Some(*v), outer: false });
            }
        }
    }
    // random serial combinations (two or three constraints with a non-empty intersection)
    let mut rng = Rng::new(cfg.seed ^ 0xC06);
    let n = cfg.budget(600, 20000);
    for _ in 0..n {
        let k = 2 + rng.below(2);
        let mut cons = Vec::new();
        let anchor = *rng.pick(&bs);
        for _ in 0..k {
            // every constraint contains `anchor`
            let los: Vec<Option<i128>> = bounds.iter().filter(|b| b.map_or(true, |v| v <= anchor)).cloned().collect();
            let his: Vec<Option<i128>> = bounds.iter().filter(|b| b.map_or(true, |v| v >= anchor)).cloned().collect();
            if rng.chance(1, 6) {
                cons.push(Cons::Single { v: anchor, ext: rng.chance(1, 5) });
            } else {
                cons.push(Cons::Range { lo: *rng.pick(&los), hi: *rng.pick(&his), ext: rng.chance(1, 5) });
            }
        }
        let ctx = *rng.pick(&[Ctx::Assign, Ctx::Component, Ctx::Element, Ctx::Value, Ctx::Default, Ctx::Ref]);
        let lit = matches!(ctx, Ctx::Value | Ctx::Default | Ctx::Ref).then_some(anchor);
        let outer = rng.chance(1, 3);
        cases.push(Case { ctx, cons, lit, outer });
    }
    (cases, true)
}

pub fn run(cfg: &RunCfg) -> Report {
    let mut rep = Report::new(
        "C06",
        "every (lower, upper) pair of the 53-point boundary set (MIN, MAX, 0, ±1, ±2^k, ±2^k±1, k∈{7,8,15,16,31,32,63,64}) × extension marker (written `(a..b, ...)` and `((a..b), ...)`) × contexts {type assignment, component, SEQUENCE OF element, value assignment, DEFAULT, value through a type reference}, single values, plus seeded random serial combinations, plus unions and intersections of two or three ranges / single values from the boundary set in either operand order (with and without a marker, with and without a further serial constraint) on components and type assignments; a case is non-trivial when it compiled and its integer token was observed; distinct = distinct (context, constraints, literal)",
    );
    if let Some(r) = &cfg.replay {
        let r = r.get("case").unwrap_or(r);
        if let (Some(ctx), Some(text), Some(sx)) = (r["set_ctx"].as_str(), r["set_text"].as_str(), r["set_sx"].as_str()) {
            let sc = SetCase { component: ctx == "component", text: text.to_string(), sx: sx.to_string() };
            run_sets(&[sc], &mut rep);
            return rep;
        }
    }
    let cases: Vec<Case> = if let Some(r) = &cfg.replay {
        vec![case_from_json(r.get("case").unwrap_or(r)).expect("bad replay case")]
    } else {
        gen_cases(cfg).0
    };
    rep.exhaustive = cfg.replay.is_none();
    let rcfg = rasn_compiler::prelude::RasnConfig::default();
    let render = |idx: &[usize]| vec![wrap(&idx.iter().map(|i| cases[*i].asn(*i)).collect::<Vec<_>>())];
    let groups = batch_compile(cases.len(), 150, &render, &rcfg);
    let mut requests = Vec::new();
    let mut req_case = Vec::new();
    let mut observed = Vec::new();
    for (idx, outcome) in groups {
        match outcome {
            Outcome::Ok { generated, warnings } => {
                let mods = match proj::project(&generated) {
                    Ok(m) => m,
                    Err(e) => {
                        rep.harness_errors.push(format!("projection failed: {e}"));
                        continue;
                    }
                };
                let Some(m) = mods.first() else { continue };
                if !warnings.is_empty() {
                    rep.count("module-with-warnings");
                }
                for i in idx {
                    rep.evaluations += 1;
                    let c = &cases[i];
                    match observe(m, c, i) {
                        Ok((tok, lit)) => {
                            rep.count(&format!("ctx:{}", c.ctx.name()));
                            rep.count(&format!("token:{tok}"));
                            rep.distinct.insert(format!("{:?}{:?}{:?}", c.ctx, c.cons, c.lit));
                            let req = format!(
                                "c06 {} {} {} {}",
                                c.ctx.path(),
                                sx_list(c.cons.iter().map(cons_sx)),
                                tok,
                                sx_opt(&lit)
                            );
                            requests.push(req);
                            req_case.push(i);
                            observed.push((tok, lit));
                        }
                        Err(e) => {
                            rep.count("unobserved");
                            if let Some(w) = warnings.iter().find(|w| w.contains(&format!("{i}"))) {
                                // every generated constraint is satisfiable: a definition that is dropped got no integer type at all
                                rep.count("unobserved-with-warning");
                                rep.unsat("", false, json!({"why": format!("a legal constrained INTEGER is dropped with a warning, so no type holds its values: {}", w.chars().take(200).collect::<String>()), "case": c.describe(i)}));
                            } else {
                                rep.harness_errors.push(format!("case {} not observed: {e}", c.asn(i)));
                            }
                        }
                    }
                }
            }
            Outcome::Err(e) => {
                rep.evaluations += 1;
                rep.count("compile-err");
                rep.sample(json!({"compile_err": e, "case": cases[idx[0]].describe(idx[0])}));
            }
            Outcome::Panic(p) => {
                rep.evaluations += 1;
                rep.count("compile-panic");
                rep.harness_errors.push(format!("panic on {}: {p}", cases[idx[0]].asn(idx[0])));
            }
        }
    }
    let answers = match run_driver(&requests) {
        Ok(a) => a,
        Err(e) => {
            rep.harness_errors.push(e);
            return rep;
        }
    };
    for (k, ans) in answers.iter().enumerate() {
        let i = req_case[k];
        let c = &cases[i];
        let (tok, lit) = &observed[k];
        let parts: Vec<&str> = ans.split(' ').collect();
        if parts.len() != 4 {
            rep.harness_errors.push(format!("driver answer `{ans}` for `{}`", requests[k]));
            continue;
        }
        let (model, tok_ok, lit_ok, class) = (parts[0], parts[1] == "t", parts[2], parts[3]);
        let class = if class == "none" { "" } else { class };
        let case_json = json!({"ctx": c.ctx.name(), "asn1": c.asn(i), "cons": c.cons.iter().map(cons_sx).collect::<Vec<_>>(),
            "lit": c.lit.map(|v| v.to_string()), "outer": c.outer, "observed_token": tok, "observed_literal": lit.map(|v| v.to_string()), "model_token": model});
        if k % 997 == 0 {
            rep.sample(case_json.clone());
        }
        let agrees = model == tok;
        if !agrees {
            rep.disagree(case_json.clone());
        }
        if !tok_ok {
            rep.unsat(class, agrees, json!({"why": "token cannot hold every permitted value, or fixed width for an extensible/open constraint", "case": case_json}));
        } else if lit_ok == "f" {
            rep.unsat("", agrees, json!({"why": "emitted literal does not fit its declared type", "case": case_json}));
        } else if let (Some(want), Some(got)) = (c.lit, lit) {
            if want != *got {
                // not C06's claim (C07), but the literal we read back must be the one we wrote
                rep.count("literal-differs");
            }
        }
    }
    if cfg.replay.is_none() {
        run_sets(&gen_sets(cfg), &mut rep);
        run_named(&mut rep);
        run_named_through_reference(&mut rep);
    }
    rep
}

/// the upper bound is the type's own named number, while a type that sorts before it gives the same name another
/// (smaller) number: the width must follow the own number
fn run_named(rep: &mut Report) {
    let bs: Vec<i128> = boundary_set().into_iter().filter(|v| *v > 0).collect();
    // decoys: types that sort first and give the same names other numbers, and value assignments of those names
    let mut body = String::from("Aaa-Decoy ::= INTEGER { top(7), low(1) }\nAab-Decoy ::= ENUMERATED { top(3), low(0) }\ntop INTEGER ::= 5\nlow INTEGER ::= 2\n");
    for (k, v) in bs.iter().enumerate() {
        body.push_str(&format!("Zz{k} ::= INTEGER {{ low(0), top({v}) }} (low..top)\n"));
    }
    let src = wrap(&[body]);
    match compile_rasn(&[src.clone()]) {
        Outcome::Ok { generated, .. } => {
            let Ok(mods) = proj::project(&generated) else { return };
            let Some(m) = mods.first() else { return };
            let mut reqs = Vec::new();
            let mut meta = Vec::new();
            for (k, v) in bs.iter().enumerate() {
                rep.evaluations += 1;
                if let Some(ItemKind::Struct { fields, tuple: true }) = m.item(&format!("Zz{k}")).map(|i| &i.kind) {
                    if fields.len() == 1 {
                        rep.count("named-number-bound");
                        reqs.push(format!("c06 assign ( ( range ( some 0 ) ( some {v} ) f ) ) {} none", fields[0].ty));
                        meta.push((k, *v, fields[0].ty.clone()));
                    }
                }
            }
            if let Ok(ans) = run_driver(&reqs) {
                for (a, (k, v, tok)) in ans.iter().zip(meta.iter()) {
                    let parts: Vec<&str> = a.split(' ').collect();
                    if parts.len() == 4 && parts[1] != "t" {
                        rep.unsat("", parts[0] == tok, json!({"why": "token cannot hold the value of the type's own named number used as its upper bound", "case": {"ctx": "assign", "asn1": format!("Zz{k} ::= INTEGER {{ low(0), top({v}) }} (low..top)   -- next to Aaa-Decoy ::= INTEGER {{ top(7), low(1) }}"), "cons": [format!("( range ( some 0 ) ( some {v} ) f )")], "lit": null, "observed_token": tok}}));
                    }
                }
            }
        }
        Outcome::Err(e) => rep.sample(json!({"compile_err": e, "family": "named-number-bound"})),
        Outcome::Panic(p) => rep.harness_errors.push(format!("panic in the named-number family: {p}")),
    }
}


/// a named number of an INTEGER type given as a value / DEFAULT *through* a constrained reference to that type
/// (`Sub ::= Level (0..w)`, `n Level (0..w) DEFAULT high`): the number is the field of `Level`'s newtype, so it has to be
/// rendered for the width of `Level` itself (`Integer::from(..)` when `Level` is unconstrained, a bare literal that
/// fits when it is fixed-width), whatever the reference narrows
fn run_named_through_reference(rep: &mut Report) {
    let bs: Vec<i128> = boundary_set().into_iter().filter(|v| *v > 1 && *v < (1i128 << 100)).collect();
    let mut body = String::new();
    for (k, v) in bs.iter().enumerate() {
        let w = v + 200;
        // unconstrained root, and a root that is itself constrained to 0..v
        body.push_str(&format!("Lv{k} ::= INTEGER {{ low(1), high({v}) }}\nSb{k} ::= Lv{k} (0..{w})\nlim{k} Sb{k} ::= high\npln{k} Lv{k} ::= high\n"));
        body.push_str(&format!("Hd{k} ::= SEQUENCE {{ n Lv{k} (0..{w}) DEFAULT high, p Lv{k} DEFAULT high }}\n"));
        body.push_str(&format!("Lc{k} ::= INTEGER {{ low(1), high({v}) }} (0..{v})\nSc{k} ::= Lc{k} (1..{v})\nlic{k} Sc{k} ::= high\n"));
    }
    let src = wrap(&[body]);
    match compile_rasn(&[src.clone()]) {
        Outcome::Ok { generated, .. } => {
            let Ok(mods) = proj::project(&generated) else { return };
            let Some(m) = mods.first() else { return };
            let field_of = |name: &str| -> Option<String> {
                match m.item(name).map(|i| &i.kind) {
                    Some(ItemKind::Struct { fields, tuple: true }) if fields.len() == 1 => Some(fields[0].ty.clone()),
                    _ => None,
                }
            };
            let squeeze = |t: &str| t.split_whitespace().collect::<String>();
            for (k, v) in bs.iter().enumerate() {
                let sites: Vec<(String, String, Option<String>)> = vec![
                    (format!("LIM{k}"), format!("Lv{k}"), None),
                    (format!("PLN{k}"), format!("Lv{k}"), None),
                    (format!("LIC{k}"), format!("Lc{k}"), None),
                    (format!("hd{k}_n_default"), format!("Lv{k}"), Some("fn".into())),
                    (format!("hd{k}_p_default"), format!("Lv{k}"), Some("fn".into())),
                ];
                for (site, root, _) in sites {
                    rep.evaluations += 1;
                    let Some(tok) = field_of(&root) else { rep.count("named-through-reference:root-not-observed"); continue };
                    let text = match m.item(&site).map(|i| &i.kind) {
                        Some(ItemKind::Const { init, .. }) | Some(ItemKind::Static { init, .. }) => squeeze(init),
                        Some(ItemKind::Fn { body, .. }) => squeeze(body),
                        _ => { rep.count("named-through-reference:site-not-observed"); continue }
                    };
                    // the argument of the innermost `Root(..)`
                    let Some(pos) = text.rfind(&format!("{root}(")) else { rep.count("named-through-reference:no-root-constructor"); continue };
                    let arg: String = {
                        let rest = &text[pos + root.len() + 1..];
                        let mut depth = 0i32;
                        let mut out = String::new();
                        for ch in rest.chars() {
                            if ch == '(' { depth += 1; }
                            if ch == ')' { if depth == 0 { break; } depth -= 1; }
                            out.push(ch);
                        }
                        out
                    };
                    rep.count("named-through-reference");
                    let ok = if tok == "Integer" {
                        arg == format!("Integer::from({v}i128)")
                    } else {
                        let fits = match tok.as_str() {
                            "u8" => *v <= u8::MAX as i128, "u16" => *v <= u16::MAX as i128, "u32" => *v <= u32::MAX as i128, "u64" => *v <= u64::MAX as i128,
                            "i8" => *v <= i8::MAX as i128, "i16" => *v <= i16::MAX as i128, "i32" => *v <= i32::MAX as i128, "i64" => *v <= i64::MAX as i128,
                            _ => false,
                        };
                        arg == v.to_string() && fits
                    };
                    if !ok {
                        rep.unsat("", true, json!({"why": format!("the named number {v} is given to `{root}({tok})` as `{arg}`: not a value of the declared type"), "case": {"ctx": "named-through-reference", "asn1": format!("Lv{k} ::= INTEGER {{ low(1), high({v}) }}  Sb{k} ::= Lv{k} (0..{})  lim{k} Sb{k} ::= high  Hd{k} ::= SEQUENCE {{ n Lv{k} (0..{}) DEFAULT high, p Lv{k} DEFAULT high }}  Lc{k} ::= INTEGER {{ low(1), high({v}) }} (0..{v})  Sc{k} ::= Lc{k} (1..{v})  lic{k} Sc{k} ::= high", v + 200, v + 200), "site": site, "cons": [], "lit": v.to_string(), "observed_token": tok}}));
                    }
                }
            }
        }
        Outcome::Err(e) => rep.sample(json!({"compile_err": e, "family": "named-through-reference"})),
        Outcome::Panic(p) => rep.harness_errors.push(format!("panic in the named-through-reference family: {p}")),
    }
}

/// a constraint list that contains set operators (`a..b | c..d`, `a..b ^ c..d`, optionally with a marker and a
/// further serial constraint), as notation and as the C04-style s-expression the Lean side folds
pub struct SetCase {
    pub component: bool,
    /// the constraints, e.g. `(250..300 | 0..10)(0..MAX)`
    pub text: String,
    pub sx: String,
}

fn gen_sets(cfg: &RunCfg) -> Vec<SetCase> {
    let bs = boundary_set();
    let mut rng = Rng::new(cfg.seed ^ 0xC06B);
    let n = cfg.budget(700, 20000);
    let mut out = Vec::new();
    let show = |v: &Option<i128>, min: bool| v.map_or(if min { "MIN".to_string() } else { "MAX".to_string() }, |x| x.to_string());
    for k in 0..n {
        let union = k % 2 == 0;
        let n_ops = 1 + rng.below(2);
        // operands: ranges (sometimes open) and single values; for an intersection all contain `anchor`
        let anchor = *rng.pick(&bs);
        let mut elems: Vec<(Option<i128>, Option<i128>, bool)> = Vec::new(); // (lo, hi, single)
        for _ in 0..=n_ops {
            if union {
                if rng.chance(1, 4) {
                    let v = *rng.pick(&bs);
                    elems.push((Some(v), Some(v), true));
                } else {
                    let a = *rng.pick(&bs);
                    let b = *rng.pick(&bs);
                    let (lo, hi) = (a.min(b), a.max(b));
                    elems.push((if rng.chance(1, 12) { None } else { Some(lo) }, if rng.chance(1, 12) { None } else { Some(hi) }, false));
                }
            } else {
                let los: Vec<i128> = bs.iter().cloned().filter(|v| *v <= anchor).collect();
                let his: Vec<i128> = bs.iter().cloned().filter(|v| *v >= anchor).collect();
                // an intersection may also name the anchor itself as a single value, in any operand position
                if rng.chance(1, 5) {
                    elems.push((Some(anchor), Some(anchor), true));
                } else {
                    elems.push((if rng.chance(1, 10) { None } else { Some(*rng.pick(&los)) }, if rng.chance(1, 10) { None } else { Some(*rng.pick(&his)) }, false));
                }
            }
        }
        let marker = rng.chance(1, 5);
        let el_asn = |e: &(Option<i128>, Option<i128>, bool)| if e.2 { e.0.unwrap().to_string() } else { format!("{}..{}", show(&e.0, true), show(&e.1, false)) };
        let el_sx = |e: &(Option<i128>, Option<i128>, bool)| if e.2 { format!("( single {} )", e.0.unwrap()) } else { format!("( range {} {} )", sx_opt(&e.0), sx_opt(&e.1)) };
        let op_txt = if union { [" | ", " UNION "][rng.below(2)] } else { [" ^ ", " INTERSECTION "][rng.below(2)] };
        // `((a) | (b), ...)`: operands in parentheses of their own, the marker then belongs to the element set
        let paren = marker && rng.chance(1, 3) && elems.iter().all(|e| e.0.is_some() && e.1.is_some());
        let wrap = |t: String| if paren { format!("({t})") } else { t };
        let mut text = format!("({}{})", elems.iter().map(|e| wrap(el_asn(e))).collect::<Vec<_>>().join(op_txt), if marker { ", ..." } else { "" });
        let mut sx = vec![format!(
            "( chain {} {} f f {} {} )",
            sx_bool(marker && !paren),
            sx_bool(paren),
            el_sx(&elems[0]),
            sx_list(elems[1..].iter().map(|e| format!("( {} {} )", if union { "union" } else { "inter" }, el_sx(e))))
        )];
        // a further serial constraint, plain, that keeps the set non-empty
        if rng.chance(1, 4) {
            let inside = if union { elems[0].0.or(elems[0].1).unwrap_or(0) } else { anchor };
            let los: Vec<i128> = bs.iter().cloned().filter(|v| *v <= inside).collect();
            let his: Vec<i128> = bs.iter().cloned().filter(|v| *v >= inside).collect();
            let (lo, hi) = (*rng.pick(&los), *rng.pick(&his));
            let m2 = rng.chance(1, 6);
            text.push_str(&format!("({lo}..{hi}{})", if m2 { ", ..." } else { "" }));
            sx.push(format!("( chain {} f f f ( range ( some {lo} ) ( some {hi} ) ) ( ) )", sx_bool(m2)));
        }
        out.push(SetCase { component: k % 3 != 2, text, sx: sx_list(sx.into_iter()) });
    }
    out
}

fn run_sets(sets: &[SetCase], rep: &mut Report) {
    let rcfg = rasn_compiler::prelude::RasnConfig::default();
    let asn = |i: usize| if sets[i].component { format!("S{i} ::= SEQUENCE {{ f INTEGER {} }}", sets[i].text) } else { format!("A{i} ::= INTEGER {}", sets[i].text) };
    let render = |idx: &[usize]| vec![wrap(&idx.iter().map(|i| asn(*i)).collect::<Vec<_>>())];
    let mut requests = Vec::new();
    let mut meta = Vec::new();
    for (idx, outcome) in batch_compile(sets.len(), 150, &render, &rcfg) {
        match outcome {
            Outcome::Ok { generated, .. } => {
                let mods = match proj::project(&generated) {
                    Ok(m) => m,
                    Err(e) => {
                        rep.harness_errors.push(format!("projection failed: {e}"));
                        continue;
                    }
                };
                let Some(m) = mods.first() else { continue };
                for i in idx {
                    rep.evaluations += 1;
                    let probe = Case { ctx: if sets[i].component { Ctx::Component } else { Ctx::Assign }, cons: vec![], lit: None, outer: false };
                    match observe(m, &probe, i) {
                        Ok((tok, _)) => {
                            rep.count(if sets[i].component { "set-expression:component" } else { "set-expression:assignment" });
                            rep.count(&format!("set-expression:token:{tok}"));
                            rep.distinct.insert(format!("{}{}", sets[i].component, sets[i].text));
                            requests.push(format!("c06set {} {} {}", if sets[i].component { "component" } else { "assign" }, sets[i].sx, tok));
                            meta.push((i, tok));
                        }
                        Err(_) => rep.count("set-expression:unobserved"),
                    }
                }
            }
            Outcome::Err(e) => {
                rep.evaluations += 1;
                rep.count("set-expression:compile-err");
                rep.sample(json!({"compile_err": e, "case": asn(idx[0])}));
            }
            Outcome::Panic(p) => rep.harness_errors.push(format!("panic on {}: {p}", asn(idx[0]))),
        }
    }
    let answers = match run_driver(&requests) {
        Ok(a) => a,
        Err(e) => {
            rep.harness_errors.push(e);
            return;
        }
    };
    for (k, ans) in answers.iter().enumerate() {
        let (i, tok) = &meta[k];
        let parts: Vec<&str> = ans.split(' ').collect();
        if parts.len() != 3 {
            rep.harness_errors.push(format!("driver answer `{ans}` for `{}`", requests[k]));
            continue;
        }
        let class = if parts[2] == "none" { "" } else { parts[2] };
        let case_json = json!({"set_ctx": if sets[*i].component { "component" } else { "assign" }, "set_text": sets[*i].text, "set_sx": sets[*i].sx,
            "asn1": asn(*i), "observed_token": tok, "model_token": parts[0]});
        if k % 499 == 0 {
            rep.sample(case_json.clone());
        }
        let agrees = parts[0] == tok;
        if !agrees {
            rep.disagree(case_json.clone());
        }
        match parts[1] {
            "t" => {}
            "skip" => rep.count("set-expression:empty-set"),
            _ => rep.unsat(class, agrees, json!({"why": "token cannot hold every value the set expression permits, or fixed width for an extensible/open constraint", "case": case_json})),
        }
    }
}

fn case_from_json(v: &serde_json::Value) -> Option<Case> {
    let ctx = match v["ctx"].as_str()? {
        "assign" => Ctx::Assign,
        "component" => Ctx::Component,
        "element" => Ctx::Element,
        "value" => Ctx::Value,
        "default" => Ctx::Default,
        "ref" => Ctx::Ref,
        _ => return None,
    };
    let mut cons = Vec::new();
    for c in v["cons"].as_array()? {
        let toks: Vec<&str> = c.as_str()?.split(' ').filter(|t| !t.is_empty() && *t != "(" && *t != ")").collect();
        // range [none | some N] [none | some N] ext  |  single N ext
        let mut it = toks.into_iter();
        let opt = |it: &mut dyn Iterator<Item = &str>| -> Option<Option<i128>> {
            match it.next()? {
                "none" => Some(None),
                "some" => Some(Some(it.next()?.parse().ok()?)),
                _ => None,
            }
        };
        match it.next()? {
            "range" => {
                let lo = opt(&mut it)?;
                let hi = opt(&mut it)?;
                cons.push(Cons::Range { lo, hi, ext: it.next()? == "t" });
            }
            "single" => {
                let v = it.next()?.parse().ok()?;
                cons.push(Cons::Single { v, ext: it.next()? == "t" });
            }
            _ => return None,
        }
    }
    let lit = v["lit"].as_str().and_then(|s| s.parse().ok());
    Some(Case { ctx, cons, lit, outer: v["outer"].as_bool().unwrap_or(false) })
}

//! C15: permitted-alphabet annotations denote exactly the FROM constraint.
use crate::proj::{self, ItemKind};
use crate::report::{Report, RunCfg};
use crate::util::*;
use serde_json::json;

#[derive(Clone, Debug, PartialEq)]
pub enum AElem {
    Str(String),
    Range(Option<char>, Option<char>),
}
#[derive(Clone, Copy, Debug, PartialEq)]
pub enum Op {
    Inter,
    Union,
    Except,
}
#[derive(Clone, Debug)]
pub struct From {
    pub first: AElem,
    pub rest: Vec<(Op, AElem)>,
}
#[derive(Clone, Copy, Debug, PartialEq)]
pub enum SizeForm {
    None,
    SerialBefore,
    SerialAfter,
    /// `(FROM(..) ^ SIZE(..))`
    InterAfter,
    /// `(SIZE(..) ^ FROM(..))`
    InterBefore,
}
#[derive(Clone, Debug)]
pub struct Case {
    pub ty: &'static str,
    pub froms: Vec<From>,
    pub size: SizeForm,
    pub component: bool,
}

pub const KM: [&str; 6] = ["NumericString", "PrintableString", "VisibleString", "IA5String", "BMPString", "UniversalString"];
pub const OTHER: [&str; 4] = ["UTF8String", "GeneralString", "TeletexString", "GraphicString"];

fn q(s: &str) -> String {
    format!("\"{}\"", s.replace('"', "\"\""))
}
fn elem_asn(e: &AElem) -> String {
    match e {
        AElem::Str(s) => q(s),
        AElem::Range(lo, hi) => format!("{}..{}", lo.map_or("MIN".to_string(), |c| q(&c.to_string())), hi.map_or("MAX".to_string(), |c| q(&c.to_string()))),
    }
}
fn elem_sx(e: &AElem) -> String {
    match e {
        AElem::Str(s) => format!("( str {} )", sx_list(s.chars().map(|c| (c as u32).to_string()))),
        AElem::Range(lo, hi) => format!("( range {} {} )", sx_opt(&lo.map(|c| c as u32)), sx_opt(&hi.map(|c| c as u32))),
    }
}
impl From {
    fn asn(&self) -> String {
        let mut s = elem_asn(&self.first);
        for (o, e) in &self.rest {
            s.push_str(match o { Op::Inter => " ^ ", Op::Union => " | ", Op::Except => " EXCEPT " });
            s.push_str(&elem_asn(e));
        }
        format!("FROM ({s})")
    }
    fn sx(&self, form: &str) -> String {
        format!(
            "( from {form} {} {} )",
            elem_sx(&self.first),
            sx_list(self.rest.iter().map(|(o, e)| format!("( {} {} )", match o { Op::Inter => "inter", Op::Union => "union", Op::Except => "except" }, elem_sx(e))))
        )
    }
}
impl Case {
    fn constraint(&self) -> String {
        // the size operand varies: closed range, extensible range, single value, extensible single value
        // (only beside a FROM of one operand: the model of the mixed FROM / SIZE arms is calibrated there)
        let size = if self.froms[0].rest.is_empty() { ["SIZE (1..8)", "SIZE (1..4, ...)", "SIZE (4)", "SIZE (4, ...)"][self.froms[0].asn().len() % 4] } else { "SIZE (1..8)" };
        match self.size {
            SizeForm::None => self.froms.iter().map(|f| format!("({})", f.asn())).collect::<Vec<_>>().join(""),
            SizeForm::SerialBefore => format!("({size}){}", self.froms.iter().map(|f| format!("({})", f.asn())).collect::<Vec<_>>().join("")),
            SizeForm::SerialAfter => format!("{}({size})", self.froms.iter().map(|f| format!("({})", f.asn())).collect::<Vec<_>>().join("")),
            SizeForm::InterAfter => format!("({} ^ {size})", self.froms[0].asn()),
            SizeForm::InterBefore => format!("({size} ^ {})", self.froms[0].asn()),
        }
    }
    pub fn asn(&self, i: usize) -> String {
        if self.component {
            format!("S{i} ::= SEQUENCE {{ f {} {} }}", self.ty, self.constraint())
        } else {
            format!("A{i} ::= {} {}", self.ty, self.constraint())
        }
    }
    fn form(&self) -> &'static str {
        match self.size {
            SizeForm::InterAfter | SizeForm::InterBefore => "withsize",
            _ => "standalone",
        }
    }
    fn key(&self) -> String {
        format!("{}|{}|{}", self.ty, self.constraint(), self.component)
    }
}

/// character pools inside each type's alphabet
fn pool(ty: &str) -> Vec<char> {
    match ty {
        "NumericString" => " 0123456789".chars().collect(),
        "PrintableString" => "ABCXYZabcxyz019 '()+,-./:=?".chars().collect(),
        "GeneralizedTime" => "0123456789".chars().collect(),
        _ => "ABCXYZabcxyz019 !#~".chars().collect(),
    }
}

fn gen_elem(rng: &mut Rng, ty: &str) -> AElem {
    let p = pool(ty);
    if rng.chance(1, 2) {
        let n = 1 + rng.below(6);
        let mut s = String::new();
        for _ in 0..n {
            let c = *rng.pick(&p);
            if !s.contains(c) {
                s.push(c);
            }
        }
        AElem::Str(s)
    } else {
        let a = *rng.pick(&p);
        let b = *rng.pick(&p);
        let (lo, hi) = if a <= b { (a, b) } else { (b, a) };
        match rng.below(10) {
            0 => AElem::Range(None, Some(hi)),
            1 => AElem::Range(Some(lo), None),
            _ => AElem::Range(Some(lo), Some(hi)),
        }
    }
}

pub fn gen_cases(cfg: &RunCfg) -> Vec<Case> {
    let mut cases = Vec::new();
    let mut rng = Rng::new(cfg.seed ^ 0xC15);
    let ops = [Op::Union, Op::Union, Op::Inter, Op::Except];
    let sizes = [SizeForm::None, SizeForm::None, SizeForm::SerialBefore, SizeForm::SerialAfter, SizeForm::InterAfter, SizeForm::InterBefore];
    // structured sweep: every type × 1..3 operands × every operator × size form
    for ty in KM.iter().chain(OTHER.iter()) {
        for nops in 0..=2usize {
            for rep in 0..(if cfg.thorough { 60 } else { 12 }) {
                let first = gen_elem(&mut rng, ty);
                let rest: Vec<(Op, AElem)> = (0..nops).map(|k| (ops[(rep + k) % ops.len()], gen_elem(&mut rng, ty))).collect();
                let size = sizes[(rep + nops) % sizes.len()];
                cases.push(Case { ty, froms: vec![From { first, rest }], size, component: rep % 2 == 0 });
            }
        }
        // serial FROM constraints
        for rep in 0..(if cfg.thorough { 20 } else { 4 }) {
            let f1 = From { first: gen_elem(&mut rng, ty), rest: vec![] };
            let f2 = From { first: gen_elem(&mut rng, ty), rest: vec![] };
            cases.push(Case { ty, froms: vec![f1, f2], size: [SizeForm::None, SizeForm::SerialAfter][rep % 2], component: rep % 2 == 1 });
        }
    }
    // the 16-bit / 32-bit alphabets around the surrogate gap, where code point and table position part: single
    // strings, ranges and unions of them (inside Dom), alone and beside SIZE
    let gap: Vec<char> = "az\u{D7FF}\u{E000}\u{E01F}\u{F7FE}\u{F7FF}\u{FFFD}".chars().collect();
    for ty in ["BMPString", "UniversalString"] {
        for (i, a) in gap.iter().enumerate() {
            for b in gap.iter().skip(i) {
                let r = AElem::Range(Some(*a), Some(*b));
                let sizes = [SizeForm::None, SizeForm::SerialAfter, SizeForm::InterAfter];
                cases.push(Case { ty, froms: vec![From { first: r.clone(), rest: vec![] }], size: sizes[(i + *b as usize) % 3], component: i % 2 == 0 });
                cases.push(Case { ty, froms: vec![From { first: AElem::Str(format!("{a}{b}")), rest: vec![(Op::Union, r)] }], size: SizeForm::None, component: i % 2 == 1 });
            }
        }
    }
    // unions only (inside Dom), longer
    let n = cfg.budget(600, 12000);
    for _ in 0..n {
        let ty = *rng.pick(&KM);
        let k = rng.below(3);
        let first = gen_elem(&mut rng, ty);
        let rest = (0..k).map(|_| (Op::Union, gen_elem(&mut rng, ty))).collect();
        let size = *rng.pick(&[SizeForm::None, SizeForm::SerialBefore, SizeForm::SerialAfter]);
        cases.push(Case { ty, froms: vec![From { first, rest }], size, component: rng.chance(1, 2) });
    }
    cases
}

#[derive(Debug)]
enum Obs {
    None,
    Subs(Vec<String>),
    Bad(String),
}

fn parse_from(a: &proj::Attrs) -> Obs {
    let Some(v) = a.get("from") else { return Obs::None };
    // "\u{61}","\u{62}..=\u{66}"
    let mut subs = Vec::new();
    for part in v.split(',') {
        let p = part.trim().trim_matches('"');
        let cp = |s: &str| -> Option<u32> { u32::from_str_radix(s.strip_prefix("\\u{")?.strip_suffix('}')?, 16).ok() };
        if let Some((l, h)) = p.split_once("..=") {
            let lo = if l.is_empty() { None } else { match cp(l) { Some(x) => Some(x), None => return Obs::Bad(p.into()) } };
            let hi = if h.is_empty() { None } else { match cp(h) { Some(x) => Some(x), None => return Obs::Bad(p.into()) } };
            subs.push(format!("( range {} {} )", sx_opt(&lo), sx_opt(&hi)));
        } else {
            match cp(p) {
                Some(c) => subs.push(format!("( single {c} )")),
                None => return Obs::Bad(p.into()),
            }
        }
    }
    Obs::Subs(subs)
}

pub fn run(cfg: &RunCfg) -> Report {
    let mut rep = Report::new(
        "C15",
        "FROM expressions with 1..3 operands (strings of 1..6 characters, character ranges incl. MIN/MAX) × {|, ^, EXCEPT} over NumericString, PrintableString, VisibleString, IA5String, BMPString, UniversalString, combined with SIZE serially before/after and as `FROM ^ SIZE` / `SIZE ^ FROM` in one constraint, two serial FROM constraints, as assignment and as component; the same expressions on five string types that are not known-multiplier; plus seeded union-only expressions. Oracle: the annotation read as characters / inclusive code-point ranges equals the spec alphabet at every mentioned character ±1, and names only base-alphabet characters",
    );
    let cases: Vec<Case> = if let Some(r) = &cfg.replay { vec![case_from_json(r).expect("bad replay")] } else {
        let mut c: Vec<Case> = load_corpus("C15").iter().filter_map(case_from_json).collect();
        c.extend(gen_cases(cfg));
        c
    };
    rep.exhaustive = false;
    let rcfg = rasn_compiler::prelude::RasnConfig::default();
    let render = |idx: &[usize]| {
        vec![format!("C15-Mod DEFINITIONS AUTOMATIC TAGS ::= BEGIN\n{}\nEND\n", idx.iter().map(|i| cases[*i].asn(*i)).collect::<Vec<_>>().join("\n"))]
    };
    let mut reqs = Vec::new();
    let mut meta = Vec::new();
    for (idx, outcome) in batch_compile(cases.len(), 80, &render, &rcfg) {
        match outcome {
            Outcome::Ok { generated, .. } => {
                let mods = match proj::project(&generated) {
                    Ok(m) => m,
                    Err(e) => {
                        rep.harness_errors.push(format!("projection failed: {e}"));
                        continue;
                    }
                };
                let Some(m) = mods.first() else { continue };
                for i in idx {
                    rep.evaluations += 1;
                    let c = &cases[i];
                    let attrs = if c.component {
                        match m.item(&format!("S{i}")).map(|x| &x.kind) {
                            Some(ItemKind::Struct { fields, .. }) if fields.len() == 1 => Some(fields[0].attrs.clone()),
                            _ => None,
                        }
                    } else {
                        m.item(&format!("A{i}")).map(|x| x.attrs.clone())
                    };
                    let obs_sx = match attrs.as_ref().map(parse_from) {
                        Some(Obs::None) => "none".to_string(),
                        Some(Obs::Subs(s)) => sx_list(s),
                        Some(Obs::Bad(b)) => {
                            rep.harness_errors.push(format!("unparsed from(..) `{b}` in {}", c.asn(i)));
                            continue;
                        }
                        // a GrammarError drops the definition with a warning
                        None => "err".to_string(),
                    };
                    rep.distinct.insert(c.key());
                    rep.count(&format!("type:{}", c.ty));
                    rep.count(&format!("size-form:{:?}", c.size));
                    rep.count(&format!("operands:{}", c.froms.iter().map(|f| 1 + f.rest.len()).max().unwrap_or(1)));
                    reqs.push(format!("c15 {} {} {} {}", hex(c.ty), sx_bool(c.component), sx_list(c.froms.iter().map(|f| f.sx(c.form()))), obs_sx));
                    meta.push((i, obs_sx));
                }
            }
            Outcome::Err(e) => {
                rep.evaluations += 1;
                rep.count("compile-err");
                rep.sample(json!({"compile_err": e, "asn1": cases[idx[0]].asn(idx[0])}));
            }
            Outcome::Panic(p) => {
                rep.evaluations += 1;
                rep.count("compile-panic");
                rep.sample(json!({"compile_panic": p, "asn1": cases[idx[0]].asn(idx[0])}));
            }
        }
    }
    let answers = match run_driver(&reqs) {
        Ok(a) => a,
        Err(e) => {
            rep.harness_errors.push(e);
            return rep;
        }
    };
    for (k, a) in answers.iter().enumerate() {
        let (i, obs_sx) = &meta[k];
        let c = &cases[*i];
        let Some((model, verdict)) = a.split_once(' ') else {
            rep.harness_errors.push(format!("driver answer `{a}`"));
            continue;
        };
        // canonical text of the observation in the model's notation
        let obs_s = if obs_sx == "none" { "none".to_string() } else if obs_sx == "err" { "err".to_string() } else {
            obs_sx.replace("( single ", "").replace("( range ", "R").replace("( some ", "").replace(" ) )", "").replace(" )", "").replace("( ", "").trim().to_string()
        };
        let model_cmp = model.replace("..", " ").replace(',', " ");
        let obs_cmp = obs_s.replace("none", "*").replace('R', "");
        let agree = if model == "?" { true } else if obs_sx == "none" || obs_sx == "err" { model == obs_s } else { normalize(&model_cmp) == normalize(&obs_cmp) };
        let case_json = json!({"ty": c.ty, "asn1": c.asn(*i), "observed": obs_sx, "model": model, "component": c.component, "size": format!("{:?}", c.size),
            "froms": c.froms.iter().map(|f| f.sx(c.form())).collect::<Vec<_>>()});
        if k % 157 == 0 {
            rep.sample(json!({"asn1": c.asn(*i), "observed": obs_sx, "answer": a}));
        }
        if !agree {
            rep.disagree(case_json.clone());
        }
        if verdict == "ok" {
            rep.count("legal-judged");
        } else if let Some(why) = verdict.strip_prefix("skip:") {
            rep.count(&format!("not-judged:{why}"));
        } else if let Some(rest) = verdict.strip_prefix("bad:") {
            let (classes, msg) = rest.split_once(':').unwrap_or((rest, ""));
            for class in classes.split('+') {
                let class = if class == "unclassified" { "" } else { class };
                rep.unsat(class, agree, json!({"why": msg, "case": case_json}));
            }
        }
    }
    rep
}

fn normalize(s: &str) -> Vec<String> {
    s.split_whitespace().map(|x| x.to_string()).collect()
}

fn case_from_json(v: &serde_json::Value) -> Option<Case> {
    use crate::gen_types::{parse_sx, Sx};
    let v = v.get("case").unwrap_or(v);
    let ty = KM.iter().chain(OTHER.iter()).find(|t| **t == v["ty"].as_str().unwrap_or(""))?;
    let size = match v["size"].as_str()? {
        "None" => SizeForm::None,
        "SerialBefore" => SizeForm::SerialBefore,
        "SerialAfter" => SizeForm::SerialAfter,
        "InterAfter" => SizeForm::InterAfter,
        _ => SizeForm::InterBefore,
    };
    let atom = |s: &Sx| if let Sx::Atom(a) = s { Some(a.clone()) } else { None };
    let ch = |s: &Sx| -> Option<Option<char>> {
        match s {
            Sx::Atom(a) if a == "none" => Some(None),
            Sx::List(x) => Some(char::from_u32(atom(&x[1])?.parse().ok()?)),
            _ => None,
        }
    };
    let elem = |s: &Sx| -> Option<AElem> {
        let Sx::List(x) = s else { return None };
        match atom(&x[0])?.as_str() {
            "str" => {
                let Sx::List(cs) = &x[1] else { return None };
                Some(AElem::Str(cs.iter().filter_map(|c| atom(c)?.parse::<u32>().ok().and_then(char::from_u32)).collect()))
            }
            "range" => Some(AElem::Range(ch(&x[1])?, ch(&x[2])?)),
            _ => None,
        }
    };
    let mut froms = Vec::new();
    for f in v["froms"].as_array()? {
        let Sx::List(l) = parse_sx(f.as_str()?)? else { return None };
        let first = elem(&l[2])?;
        let Sx::List(restl) = &l[3] else { return None };
        let mut rest = Vec::new();
        for r in restl {
            let Sx::List(p) = r else { return None };
            let o = match atom(&p[0])?.as_str() { "inter" => Op::Inter, "union" => Op::Union, _ => Op::Except };
            rest.push((o, elem(&p[1])?));
        }
        froms.push(From { first, rest });
    }
    Some(Case { ty, froms, size, component: v["component"].as_bool().unwrap_or(false) })
}

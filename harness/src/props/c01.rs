//! C01: warning-free compilations yield Rust bindings that type-check against rasn.
use crate::gen_types::*;
use crate::modset::*;
use crate::props::c19::Opt;
use crate::props::structs::{header, ENVS};
use crate::report::{Report, RunCfg};
use crate::util::*;
use serde_json::{json, Value};
use std::collections::BTreeMap;
use std::process::Command;

#[derive(Clone)]
pub struct Case {
    pub label: String,
    pub sources: Vec<String>,
    pub opt: Opt,
}

const DEFAULT_ANN: &str = "#[derive(AsnType, Debug, Clone, Decode, Encode, PartialEq, Eq, Hash)]";

fn default_opt() -> Opt {
    Opt { opaque: true, wildcard: false, from_impls: false, no_std: false, custom: vec![], annotations: vec![DEFAULT_ANN.into()] }
}

const FIXED: [(&str, &str); 43] = [
    ("recursion-direct", "Rec ::= SEQUENCE { next Rec OPTIONAL, v INTEGER }"),
    ("recursion-choice", "Tree ::= CHOICE { leaf INTEGER, node SEQUENCE { l Tree, r Tree } }"),
    ("recursion-mutual", "Ra ::= SEQUENCE { b Rb OPTIONAL }\nRb ::= SEQUENCE { a Ra, n NULL }"),
    ("recursion-list", "Lst ::= SEQUENCE OF Lst"),
    ("recursion-through-alias", "Na ::= SEQUENCE { x Nb OPTIONAL }\nNb ::= Na"),
    ("forward-reference", "Use ::= SEQUENCE { a Later, b SEQUENCE OF Later }\nLater ::= INTEGER (0..7)"),
    ("keyword-members", "Kw ::= SEQUENCE { type INTEGER, self BOOLEAN, struct [0] NULL OPTIONAL, match ENUMERATED { a, b }, fn SEQUENCE { x INTEGER } }"),
    ("keyword-type-names", "Self ::= SEQUENCE { in SEQUENCE { x INTEGER }, as ENUMERATED { p } }\nBox ::= INTEGER\nOption ::= SEQUENCE { v Box OPTIONAL }"),
    ("keyword-choice", "Kc ::= CHOICE { self NULL, type INTEGER, crate SEQUENCE { a BOOLEAN } }"),
    ("defaults-builtin", "Df ::= SEQUENCE { a [0] INTEGER DEFAULT 5, b [1] BOOLEAN DEFAULT TRUE, c [2] UTF8String DEFAULT \"x\", d [3] OCTET STRING DEFAULT 'AB'H, e [4] BIT STRING DEFAULT '01'B, f [5] NULL DEFAULT NULL, g [6] ENUMERATED { p, q } DEFAULT q, h [7] INTEGER (0..7) DEFAULT 3 }"),
    ("defaults-referenced", "Small ::= INTEGER (0..255)\nCol ::= ENUMERATED { red, green }\nDr ::= SEQUENCE { a [0] Small DEFAULT 7, b [1] Col DEFAULT green, c [2] SEQUENCE { i Small DEFAULT 1 } OPTIONAL }"),
    ("defaults-value-reference", "lim INTEGER ::= 9\nSm ::= INTEGER (0..255)\nslim Sm ::= 4\nDv ::= SEQUENCE { a [0] INTEGER DEFAULT lim, b [1] Sm DEFAULT slim, c [2] INTEGER (0..lim) DEFAULT 2 }"),
    ("values-builtin", "vi INTEGER ::= 5\nvn INTEGER ::= -3\nvb BOOLEAN ::= FALSE\nvs UTF8String ::= \"abc\"\nvo OCTET STRING ::= 'AB'H\nvt BIT STRING ::= '0101'B\nvd OBJECT IDENTIFIER ::= { 1 2 840 }\nvu NULL ::= NULL\nvp PrintableString ::= \"P\"\nvg GeneralizedTime ::= \"20200101000000Z\"\nvc UTCTime ::= \"700101000000Z\""),
    ("values-referenced", "Sm ::= INTEGER (0..255)\nBg ::= INTEGER\nEn ::= ENUMERATED { x, y }\nSq ::= SEQUENCE { a Sm, b BOOLEAN DEFAULT TRUE }\nCh ::= CHOICE { i [0] INTEGER, s [1] Sq }\nLs ::= SEQUENCE OF Sm\nAl ::= Sm\nv1 Sm ::= 7\nv2 Bg ::= 99999999999999\nv3 En ::= y\nv4 Sq ::= { a 1 }\nv5 Ch ::= i : 4\nv6 Ls ::= { 1, 2 }\nv7 Al ::= 3\nv8 Ch ::= s : { a 2, b FALSE }"),
    ("values-cross-reference", "a1 INTEGER ::= 4\na2 INTEGER ::= a1\nSm ::= INTEGER (0..255)\na3 Sm ::= a1\nRg ::= INTEGER (a1..a2 | 100)"),
    ("bit-string-named", "Bn ::= BIT STRING { first(0), second(1) } (SIZE (2))\nbv Bn ::= { first }\nBs ::= SEQUENCE { f Bn DEFAULT { second } }"),
    ("integer-named", "In ::= INTEGER { one(1), two(2) } (1..2)\niv In ::= two\nIs ::= SEQUENCE { f In DEFAULT one }"),
    // the same through one and two alias steps: the DEFAULT / value is wrapped once per newtype on the way
    ("alias-named-number-default", "Nn ::= INTEGER { one(1), nine(9) }\nNa ::= Nn\nNb ::= Na\nDa ::= SEQUENCE { a [0] Na DEFAULT nine, b [1] Nb DEFAULT one }"),
    ("alias-number-default", "Nn ::= INTEGER { one(1), nine(9) }\nNa ::= Nn\nSs ::= INTEGER (0..255)\nSa ::= Ss\nSb ::= Sa\nDb ::= SEQUENCE { a [0] Na DEFAULT 3, b [1] Sa DEFAULT 7, c [2] Sb DEFAULT 8 }"),
    ("alias-enumerated-default", "Ee ::= ENUMERATED { p, q }\nEa ::= Ee\nEb ::= Ea\nDc ::= SEQUENCE { a [0] Ea DEFAULT q, b [1] Eb DEFAULT p }"),
    ("alias-values", "Nn ::= INTEGER { one(1), nine(9) }\nNa ::= Nn\nNb ::= Na\nEe ::= ENUMERATED { p, q }\nEa ::= Ee\nva Na ::= nine\nvb Nb ::= 4\nvc Ea ::= p\nvd Nb ::= one"),
    // the member's type comes from the PER-visible fold, the default function's from the plain ranges: they must agree
    ("defaults-set-operators", "Du ::= SEQUENCE { e [0] INTEGER (0..10 | 20..300) DEFAULT 5, f [1] INTEGER (0..10)(0..5, ...) DEFAULT 3, g [2] INTEGER (0..300 ^ 5..10) DEFAULT 7, h [3] INTEGER ((0..10), ...) DEFAULT 2, i [4] INTEGER (-5..5 | 100) DEFAULT -2 }"),
    ("values-governed-by-selection-types", "Shape ::= CHOICE { radius [0] INTEGER, side [1] BOOLEAN, small [2] INTEGER (0..7), label [3] UTF8String }\nlimit radius < Shape ::= 5\nflag side < Shape ::= TRUE\nlow small < Shape ::= 3\nname label < Shape ::= \"x\"\nHolder ::= SEQUENCE { r [0] radius < Shape, s [1] small < Shape DEFAULT 2 }"),
    ("recursion-two-members-through-alias", "Tree ::= SEQUENCE { left [0] Subtree OPTIONAL, right [1] Subtree OPTIONAL, v [2] INTEGER }\nSubtree ::= Tree\nPa ::= SEQUENCE { q1 [0] Pb OPTIONAL, q2 [1] Pb OPTIONAL }\nPb ::= SEQUENCE { p1 [0] Pa OPTIONAL, p2 [1] Pa OPTIONAL }"),
    ("enumerated-numbered-additions", "En1 ::= ENUMERATED { idle, busy, ..., failed(2), unknown }\nEn2 ::= ENUMERATED { a, b, ..., c(5), d }\nEn3 ::= ENUMERATED { a(3), b, c(0), ..., d, e(9), f }\nev En1 ::= unknown"),
    ("components-of-extensible-type", "Tt ::= SEQUENCE { t1 INTEGER, ..., t2 NULL }\nIi ::= SEQUENCE { y BOOLEAN, COMPONENTS OF Tt }\nIj ::= SET { y BOOLEAN, COMPONENTS OF Tt }"),
    ("alias-boolean-string-default", "Bo ::= BOOLEAN\nBa ::= Bo\nSt ::= UTF8String\nSa ::= St\nDd ::= SEQUENCE { a [0] Ba DEFAULT TRUE, b [1] Sa DEFAULT \"x\" }"),
    // a named INTEGER whose constraints are a set expression or applied one after the other, with a marker in either:
    // the newtype, a value of it, a DEFAULT of it and an alias value all have to agree on the inner type
    ("named-integer-serial-and-set-constraints", "Lv ::= INTEGER (0..255)(0..10, ...)\nLw ::= INTEGER (0..100, ...)(0..5)\nCd ::= INTEGER (0..10 | 300)\nCe ::= INTEGER (0..300 ^ 5..10)\nLa ::= Lv\nv1 Lv ::= 5\nv2 Lw ::= 3\nv3 Cd ::= 300\nv4 Ce ::= 7\nv5 La ::= 4\nNs ::= SEQUENCE { a [0] Lv DEFAULT 5, b [1] Lw DEFAULT 3, c [2] Cd DEFAULT 300, d [3] Ce DEFAULT 7, e [4] La DEFAULT 4 }"),
    // open ends of alphabet ranges
    ("alphabet-open-ends", "Ao ::= IA5String (FROM (\"a\"..MAX))\nAp ::= IA5String (FROM (MIN..\"f\"))\nAq ::= NumericString (FROM (\"3\"..MAX))\nAr ::= PrintableString (FROM (MIN..MAX))\nAs ::= BMPString (FROM (\"a\"..MAX)) (SIZE (1..4))\nAt ::= SEQUENCE { f VisibleString (FROM (\"A\"..MAX) ^ SIZE (2)) }"),
    // a fixed-type class field next to tagged alternatives / members
    ("class-field-next-to-tagged-choice", "ERR ::= CLASS { &code INTEGER UNIQUE, &Type } WITH SYNTAX { CODE &code TYPE &Type }\nCf ::= SEQUENCE { code ERR.&code, c CHOICE { a [5] INTEGER, b [7] BOOLEAN } }\nCg ::= CHOICE { code [1] ERR.&code, x [2] SEQUENCE { y [9] NULL, z [9] EXPLICIT CHOICE { p NULL, q INTEGER } } }"),
    // selection types as tagged members
    ("tagged-selection-members", "Ch ::= CHOICE { a INTEGER, b BOOLEAN, c SEQUENCE { n NULL } }\nSl ::= SEQUENCE { x [0] a < Ch, y [1] IMPLICIT b < Ch, z [2] EXPLICIT c < Ch, w a < Ch OPTIONAL }"),
    ("recursion-types-named-like-wrappers", "BoxNode ::= SEQUENCE { v INTEGER, next BoxNode OPTIONAL }\nBox-Content ::= CHOICE { leaf NULL, more SEQUENCE { a Box-Content, b Box-Content OPTIONAL } }\nOptionList ::= SEQUENCE { head INTEGER, tail OptionList OPTIONAL }\nVecTree ::= SET { kids SEQUENCE OF VecTree, up VecTree OPTIONAL }"),
    // list elements with a name, with a tag, and with both
    ("named-and-tagged-list-elements", "Le1 ::= SEQUENCE OF item INTEGER\nLe2 ::= SEQUENCE OF [3] INTEGER\nLe3 ::= SEQUENCE OF item [3] INTEGER\nLe4 ::= SET OF flag [APPLICATION 1] BOOLEAN\nLe5 ::= SEQUENCE { l SET (SIZE (1..4)) OF entry [0] SEQUENCE { a INTEGER } }"),
    ("choice-values-nested-and-aliased", "In ::= CHOICE { n [0] INTEGER, s [1] UTF8String, b [2] BOOLEAN, k [3] INTEGER (0..7), o [4] OCTET STRING }\nOuter ::= CHOICE { in [0] In, z [1] NULL }\nTagged ::= In\no1 Outer ::= in : n : 5\no2 Outer ::= in : s : \"x\"\no3 Outer ::= in : b : TRUE\no4 Outer ::= in : k : 3\no5 Outer ::= z : NULL\no6 Outer ::= in : o : '0A'H\nt1 Tagged ::= n : 7\nt2 Tagged ::= s : \"y\"\nt3 Tagged ::= k : 2\nt4 Tagged ::= b : FALSE"),
    // the four tag classes with one number side by side (rasn checks uniqueness at compile time)
    ("same-number-in-every-tag-class", "Tc ::= CHOICE { u [UNIVERSAL 30] INTEGER, a [APPLICATION 30] INTEGER, c [30] INTEGER, p [PRIVATE 30] INTEGER }\nTs ::= SET { a [APPLICATION 7] BOOLEAN, p [PRIVATE 7] BOOLEAN, c [7] BOOLEAN }\nTo ::= SEQUENCE { a [APPLICATION 3] INTEGER OPTIONAL, p [PRIVATE 3] INTEGER OPTIONAL, c [3] INTEGER OPTIONAL, last BOOLEAN }"),
    // SEQUENCE values whose members are typed by reference to a SEQUENCE, directly and through an alias, as value and as DEFAULT
    ("struct-values-of-referenced-structs", "Inn ::= SEQUENCE { p INTEGER, q BOOLEAN }\nAli ::= Inn\nOut ::= SEQUENCE { z Inn, k BOOLEAN }\nHol ::= SEQUENCE { f [0] Ali DEFAULT { p 1, q TRUE }, g [1] Inn DEFAULT { p 2, q FALSE } }\nvo Out ::= { z { p 2, q TRUE }, k TRUE }\nva Ali ::= { p 3, q FALSE }\nvi Inn ::= { p 4, q FALSE }"),
    ("nested-depth-4", "Dp ::= SEQUENCE { l1 SEQUENCE { l2 CHOICE { l3 SEQUENCE OF SEQUENCE { l4 ENUMERATED { a, b }, k SET { m INTEGER } } } } }"),
    ("set-and-set-of", "St ::= SET { a [0] INTEGER, b [1] BOOLEAN OPTIONAL, ... , c [2] NULL }\nSo ::= SET (SIZE (1..4)) OF St"),
    ("extension-groups", "Eg ::= SEQUENCE { a INTEGER, ..., [[ 2: b BOOLEAN, c NULL OPTIONAL ]], d UTF8String OPTIONAL }"),
    ("strings", "S1 ::= IA5String (SIZE (1..8))\nS2 ::= PrintableString (FROM (\"A\"..\"Z\"))\nS3 ::= NumericString\nS4 ::= BMPString\nS5 ::= UniversalString\nS6 ::= VisibleString\nS7 ::= TeletexString\nS8 ::= GeneralString\nS9 ::= GraphicString"),
    ("open-types", "Ot ::= SEQUENCE { a [0] ANY, b [1] EXTERNAL OPTIONAL, c [2] EMBEDDED PDV OPTIONAL }"),
    // object identifier values written with the well-known names of X.660 (every root, every second-level name), in
    // name form and name-and-number form, as values of the built-in type and of a named one
    ("oid-well-known-names", "Syntax-Id ::= OBJECT IDENTIFIER\no1 OBJECT IDENTIFIER ::= { iso standard 8571 }\no2 OBJECT IDENTIFIER ::= { iso member-body 840 }\no3 OBJECT IDENTIFIER ::= { iso identified-organization 6 }\no4 OBJECT IDENTIFIER ::= { iso registration-authority 1 }\no5 OBJECT IDENTIFIER ::= { itu-t recommendation 24 }\no6 OBJECT IDENTIFIER ::= { itu-t question 1 }\no7 OBJECT IDENTIFIER ::= { itu-t administration 2 }\no8 OBJECT IDENTIFIER ::= { itu-t network-operator 3 }\no9 OBJECT IDENTIFIER ::= { itu-t identified-organization 4 }\no10 OBJECT IDENTIFIER ::= { joint-iso-itu-t 5 }\no11 Syntax-Id ::= { iso standard 8571 abstract-syntax(2) }\no12 OBJECT IDENTIFIER ::= { 1 standard 8571 }\no13 OBJECT IDENTIFIER ::= { iso(1) standard(0) 8571 }\no14 OBJECT IDENTIFIER ::= { 0 recommendation 3 }"),
    // the empty named-bit list, as value and as DEFAULT, of a named and of an inline BIT STRING
    ("bit-string-named-empty-list", "Caps ::= BIT STRING { read(0), write(1), exec(5) }\nnone Caps ::= {}\nsome Caps ::= { write }\nMsg ::= SEQUENCE { unused [0] Caps DEFAULT {}, inline [1] BIT STRING { a(0), b(3) } DEFAULT {}, used [2] Caps DEFAULT { read, exec } }"),
];

/// Rust 2021 strict and reserved keywords (the harness's own list, not the compiler's)
const KEYWORDS: [&str; 50] = [
    "as", "break", "const", "continue", "crate", "else", "enum", "extern", "false", "fn", "for", "if", "impl", "in", "let", "loop", "match", "mod",
    "move", "mut", "pub", "ref", "return", "self", "static", "struct", "super", "trait", "true", "type", "unsafe", "use", "where", "while", "async",
    "await", "dyn", "abstract", "become", "box", "do", "final", "macro", "override", "priv", "typeof", "unsized", "virtual", "yield", "try",
];

/// ranges at and next to the boundaries of the Rust integer widths
const BOUNDS: [(&str, &str); 20] = [
    ("-128", "127"), ("-129", "127"), ("-128", "128"), ("0", "255"), ("0", "256"),
    ("-32768", "32767"), ("-32769", "32767"), ("0", "65535"), ("0", "65536"),
    ("-2147483648", "2147483647"), ("-2147483649", "2147483647"), ("0", "4294967295"), ("0", "4294967296"),
    ("-9223372036854775808", "9223372036854775807"), ("-9223372036854775809", "9223372036854775807"),
    ("0", "18446744073709551615"), ("0", "18446744073709551616"), ("-1", "0"), ("1", "1"), ("-32768", "-1"),
];

pub fn gen_cases(cfg: &RunCfg) -> Vec<Case> {
    let mut rng = Rng::new(cfg.seed ^ 0xC01);
    let mut out = Vec::new();
    // every keyword as member, alternative, enumeral and value name
    for chunk in KEYWORDS.chunks(10) {
        let members: Vec<String> = chunk.iter().enumerate().map(|(i, k)| format!("{k} [{i}] INTEGER OPTIONAL")).collect();
        let alts: Vec<String> = chunk.iter().enumerate().map(|(i, k)| format!("{k} [{i}] NULL")).collect();
        let enums: Vec<String> = chunk.iter().map(|k| k.to_string()).collect();
        let vals: Vec<String> = chunk.iter().map(|k| format!("{k} INTEGER ::= 1")).collect();
        let nested: Vec<String> = chunk.iter().enumerate().map(|(i, k)| format!("{k} [{i}] SEQUENCE {{ x INTEGER }} OPTIONAL")).collect();
        let body = format!(
            "KwS ::= SEQUENCE {{ {} }}\nKwC ::= CHOICE {{ {} }}\nKwE ::= ENUMERATED {{ {} }}\nKwN ::= SEQUENCE {{ {} }}\n{}\n",
            members.join(", "), alts.join(", "), enums.join(", "), nested.join(", "), vals.join("\n")
        );
        out.push(Case { label: "keywords".into(), sources: vec![format!("Kw-Mod DEFINITIONS AUTOMATIC TAGS ::= BEGIN\n{body}END\n")], opt: default_opt() });
    }
    // integer ranges at the width boundaries: top-level, member, member with DEFAULT, value
    for (k, chunk) in BOUNDS.chunks(5).enumerate() {
        let mut body = String::new();
        let mut members = Vec::new();
        for (i, (lo, hi)) in chunk.iter().enumerate() {
            body.push_str(&format!("Top{k}x{i} ::= INTEGER ({lo}..{hi})\nv{k}x{i} Top{k}x{i} ::= {lo}\nw{k}x{i} INTEGER ({lo}..{hi}) ::= {hi}\n"));
            members.push(format!("m{i} [{}] INTEGER ({lo}..{hi}) DEFAULT {lo}", 2 * i));
            members.push(format!("n{i} [{}] Top{k}x{i} DEFAULT {hi}", 2 * i + 1));
        }
        body.push_str(&format!("Holder{k} ::= SEQUENCE {{ {} }}\n", members.join(", ")));
        for env in ENVS {
            out.push(Case { label: "integer-boundaries".into(), sources: vec![format!("Int-Mod {}\n{body}END\n", header(env, false))], opt: default_opt() });
        }
    }
    // configurations whose own content is valid for every type (no Copy / Ord derives, imports that exist)
    let mut all_opts = Vec::new();
    for bits in 0..16u32 {
        for custom in [vec![], vec!["core::fmt".to_string(), "core::{cmp, ops}".to_string()]] {
            for ann in [
                vec![DEFAULT_ANN.to_string()],
                vec![DEFAULT_ANN.to_string(), "#[allow(dead_code)]".to_string()],
                vec![DEFAULT_ANN.to_string(), "# [ derive ( Eq ,, Hash , Eq ) ]".to_string()],
            ] {
                all_opts.push(Opt { opaque: bits & 1 == 0, wildcard: bits & 2 != 0, from_impls: bits & 4 != 0, no_std: bits & 8 != 0, custom: custom.clone(), annotations: ann });
            }
        }
    }
    // fixed notation under every tagging default and EXTENSIBILITY IMPLIED
    for (label, body) in FIXED {
        for env in ENVS {
            for implied in [false, true] {
                out.push(Case { label: format!("{label}:{env}:{implied}"), sources: vec![format!("Fixed-Mod {}\n{body}\nEND\n", header(env, implied))], opt: default_opt() });
            }
        }
        // and under a few non-default configurations
        for _ in 0..3 {
            let o = rng.pick(&all_opts).clone();
            out.push(Case { label: format!("{label}:config"), sources: vec![format!("Fixed-Mod DEFINITIONS AUTOMATIC TAGS ::= BEGIN\n{body}\nEND\n")], opt: o });
        }
    }
    // random constructed types, several per module
    let n_struct = cfg.budget(60, 900);
    for k in 0..n_struct {
        // X.680 wants distinct tags among alternatives / neighbouring optional components: random types are
        // generated without tags and compiled under AUTOMATIC TAGS, where this holds by construction
        let env = "automatic";
        let implied = rng.chance(1, 4);
        let mut body = String::from(BASE_DEFS);
        for j in 0..1 + rng.below(5) {
            let mut g = TyGen { rng: &mut rng, cfg: GenCfg { max_depth: 4, max_comps: 5, tags: false, groups: true, defaults: true } };
            let ty = g.top();
            let tag = g.tag();
            body.push_str(&format!("Tk{k}x{j}E ::= {}{}\n", tag.as_ref().map(tag_asn).unwrap_or_default(), ty.asn()));
        }
        let opt = if k % 3 == 0 { rng.pick(&all_opts).clone() } else { default_opt() };
        out.push(Case { label: "random-types".into(), sources: vec![format!("Struct-Mod {}\n{body}END\n", header(env, implied))], opt });
    }
    // module sets with IMPORTS, values, classes, parameterized types
    for k in 0..cfg.budget(40, 600) {
        let n_mod = 1 + rng.below(4);
        let mut mods = Vec::new();
        for m in 0..n_mod {
            let n_assign = 2 + rng.below(14);
            let mut g = Gen { rng: &mut rng, info_objects: true };
            mods.push(g.module(&format!("Mod{k}x{m}"), &format!("{k}x{m}"), n_assign));
        }
        link_imports(&mut rng, &mut mods, 2, &format!("{k}"));
        let opt = if k % 2 == 0 { rng.pick(&all_opts).clone() } else { default_opt() };
        out.push(Case { label: "module-set".into(), sources: mods.iter().map(|m| m.text()).collect(), opt });
    }
    out
}

fn check_crate_dir() -> std::path::PathBuf {
    verif_root().join("harness/checkcrate")
}

/// write the cases into a copy of the check crate (one per slot, so that batches can run in parallel) and
/// run `cargo check`; returns per case index the error messages
fn cargo_check(cases: &[(usize, String)], slot: usize) -> Result<BTreeMap<usize, Vec<String>>, String> {
    let dir = verif_root().join(format!("harness/target/c01/slot{slot}/crate"));
    let src = dir.join("src");
    let _ = std::fs::remove_dir_all(&src);
    std::fs::create_dir_all(&src).map_err(|e| e.to_string())?;
    for f in ["Cargo.toml", "Cargo.lock"] {
        std::fs::copy(check_crate_dir().join(f), dir.join(f)).map_err(|e| format!("{f}: {e}"))?;
    }
    let mut lib = String::from("#![allow(warnings)]\n");
    for (i, text) in cases {
        std::fs::write(src.join(format!("case_{i}.rs")), text).map_err(|e| e.to_string())?;
        lib.push_str(&format!("pub mod case_{i};\n"));
    }
    std::fs::write(src.join("lib.rs"), lib).map_err(|e| e.to_string())?;
    let out = Command::new("cargo")
        .args(["check", "--offline", "--quiet", "--message-format=json", "--manifest-path"])
        .arg(dir.join("Cargo.toml"))
        .arg("--target-dir")
        .arg(verif_root().join(format!("harness/target/c01/slot{slot}/target")))
        .env("CARGO_NET_OFFLINE", "true")
        .env_remove("RUSTFLAGS")
        .env("CARGO_ENCODED_RUSTFLAGS", "")
        .output()
        .map_err(|e| format!("cannot run cargo: {e}"))?;
    let mut errs: BTreeMap<usize, Vec<String>> = BTreeMap::new();
    let mut other = Vec::new();
    for line in String::from_utf8_lossy(&out.stdout).lines() {
        let Ok(v) = serde_json::from_str::<Value>(line) else { continue };
        if v["reason"] != "compiler-message" || v["message"]["level"] != "error" {
            continue;
        }
        let msg = v["message"]["message"].as_str().unwrap_or("").to_string();
        let code = v["message"]["code"]["code"].as_str().unwrap_or("").to_string();
        let mut attributed = false;
        for sp in v["message"]["spans"].as_array().cloned().unwrap_or_default() {
            let f = sp["file_name"].as_str().unwrap_or("");
            if let Some(k) = f.rsplit('/').next().and_then(|n| n.strip_prefix("case_")).and_then(|n| n.strip_suffix(".rs")).and_then(|n| n.parse::<usize>().ok()) {
                let snippet = sp["text"].as_array().and_then(|t| t.first()).and_then(|t| t["text"].as_str()).map(|s| {
                    let (a, b) = (sp["column_start"].as_u64().unwrap_or(1) as usize, sp["column_end"].as_u64().unwrap_or(1) as usize);
                    s.chars().skip(a.saturating_sub(40)).take(b.saturating_sub(a) + 80).collect::<String>()
                });
                errs.entry(k).or_default().push(format!("{code} {msg} @ {}", snippet.unwrap_or_default()));
                attributed = true;
                break;
            }
        }
        if !attributed {
            // const-evaluation errors (rasn's tag checks) carry the type's name in the message
            if let Some(name) = msg.split("evaluation panicked: ").nth(1).and_then(|r| r.split("'s ").next()) {
                for (i, text) in cases {
                    let squeezed: String = text.split_whitespace().collect::<Vec<_>>().join(" ");
                    if squeezed.contains(&format!("struct {name} ")) || squeezed.contains(&format!("enum {name} ")) {
                        errs.entry(*i).or_default().push(format!("{code} {msg}"));
                        attributed = true;
                        break;
                    }
                }
            }
        }
        if !attributed && !msg.starts_with("aborting due to") && !msg.starts_with("could not compile") {
            other.push(format!("{code} {msg}"));
        }
    }
    if !out.status.success() && errs.is_empty() {
        return Err(format!("cargo check failed without attributable errors: {} {}", other.join("; "), String::from_utf8_lossy(&out.stderr).chars().take(400).collect::<String>()));
    }
    Ok(errs)
}

/// finding class of a rustc error on generated bindings (by error code and the offending construct)
fn classify(msg: &str, case: &Case) -> String {
    let _ = case;
    let m = msg;
    if (m.contains("E0412") || m.contains("E0433") || m.contains("E0425")) && (m.contains("`R_") || m.contains("RSelf")) {
        return "C01_keyword_escaped_name_not_stable_under_hoisting".into();
    }
    if m.contains("E0425") && (m.contains("`INTEGER`") || m.contains("`BOOLEAN`")) {
        return "C01_value_defined_by_reference_of_builtin_type".into();
    }
    if m.contains("E0308") && m.contains("_default ()") {
        // the body of the helper is a bare constant: `fn x_default () -> T { SOME_CONST }`
        let bare_const = m.split("_default ()").skip(1).any(|rest| {
            rest.split_once('{').map(|(_, b)| {
                let body: String = b.chars().take_while(|c| *c != '}').collect();
                let body = body.trim();
                !body.is_empty() && body.chars().all(|c| c.is_ascii_uppercase() || c.is_ascii_digit() || c == '_') && body.chars().next().map(|c| c.is_ascii_uppercase()).unwrap_or(false)
            }).unwrap_or(false)
        });
        if bare_const {
            return "C01_default_given_by_value_reference".into();
        }
    }
    if m.contains("E0308") && m.contains("_default () -> Integer {") {
        // `fn x_default () -> Integer { 5 }`
        let lit = m.split("_default () -> Integer {").skip(1).any(|r| {
            let body: String = r.chars().take_while(|c| *c != '}').collect();
            let b = body.trim();
            !b.is_empty() && b.chars().all(|c| c.is_ascii_digit() || c == '-')
        });
        if lit {
            return "C01_integer_default_of_nested_member_is_a_bare_literal".into();
        }
    }
    if m.contains("FromStr` is not satisfied") && m.contains(". parse :: <") {
        return "C01_time_value_of_an_alias_parses_into_the_newtype".into();
    }
    if m.contains("E0308") && m.contains("alloc :: vec ! [") {
        return "C01_list_value_of_a_type_with_hoisted_element".into();
    }
    if m.contains("E0277") && m.contains("BitArray") && m.contains("collect") {
        return "C01_named_bits_value_of_fixed_size_bit_string".into();
    }
    if m.contains("struct without fields not allowed to be a `set`") {
        return "C01_empty_set".into();
    }
    if m.contains("E0170") {
        return "C01_member_named_like_an_enumeral_of_its_inline_enumerated".into();
    }
    String::new()
}

pub fn run(cfg: &RunCfg) -> Report {
    let mut rep = Report::new(
        "C01",
        "module sets of the supported-notation grammar: every built-in type, constraints, tags, extension markers and groups, anonymous nesting to depth 4, direct / mutual / alias / list recursion, forward references, Rust keywords as member and type names, DEFAULTs and value assignments of every supported form incl. references, named bits and numbers, cross-module IMPORTS, classes and parameterized types; under all four tagging defaults x EXTENSIBILITY IMPLIED on/off and a sample of the 288 RasnConfig combinations (incl. no_std). Every compilation that returns Ok without warnings is written to a crate whose only dependencies are rasn 0.27 (pinned by /repo/Cargo.lock) and lazy_static, and type-checked with `cargo check`; failing cases are removed and the check repeated until clean",
    );
    let cases: Vec<Case> = if let Some(r) = &cfg.replay {
        let r = r.get("case").unwrap_or(r);
        vec![Case {
            label: "replay".into(),
            sources: r["sources"].as_array().map(|a| a.iter().filter_map(|x| x.as_str().map(String::from)).collect()).unwrap_or_default(),
            opt: Opt::from_json(&r["config"]),
        }]
    } else {
        let mut v: Vec<Case> = load_corpus("C01")
            .iter()
            .map(|c| Case { label: "corpus".into(), sources: c["sources"].as_array().map(|a| a.iter().filter_map(|x| x.as_str().map(String::from)).collect()).unwrap_or_default(), opt: Opt::from_json(&c["config"]) })
            .collect();
        v.extend(gen_cases(cfg));
        v
    };
    let mut pending: Vec<(usize, String)> = Vec::new();
    for (i, c) in cases.iter().enumerate() {
        rep.evaluations += 1;
        rep.count(&format!("input:{}", c.label.split(':').next().unwrap_or("")));
        match compile_rasn_cfg(&c.sources, c.opt.to_cfg()) {
            Outcome::Ok { generated, warnings } => {
                if !warnings.is_empty() {
                    rep.count("compiles-with-warnings(out of the property's premise)");
                    continue;
                }
                rep.count("warning-free");
                rep.distinct.insert(format!("{}", generated.len()));
                if let Err(e) = syn::parse_file(&generated) {
                    rep.unsat("", false, json!({"why": format!("the generated text does not parse as Rust items: {e}"), "case": {"sources": c.sources, "config": c.opt.to_json()}}));
                    continue;
                }
                pending.push((i, generated));
            }
            Outcome::Err(_) => rep.count("compile-err(out of the premise)"),
            Outcome::Panic(_) => rep.count("compile-panic(C08)"),
        }
    }
    // type-check in batches (parallel slots), each in rounds: cases with errors are reported and taken out
    let batch = 120;
    let slots = 6;
    let batches: Vec<Vec<(usize, String)>> = pending.chunks(batch).map(|c| c.to_vec()).collect();
    pending.clear();
    let results: std::sync::Mutex<Vec<(Vec<(usize, Vec<String>)>, usize, Vec<String>, Vec<(usize, String)>)>> = std::sync::Mutex::new(Vec::new());
    let next = std::sync::atomic::AtomicUsize::new(0);
    std::thread::scope(|sc| {
        for slot in 0..slots.min(batches.len().max(1)) {
            let (batches, results, next) = (&batches, &results, &next);
            sc.spawn(move || loop {
                let k = next.fetch_add(1, std::sync::atomic::Ordering::SeqCst);
                if k >= batches.len() {
                    break;
                }
                let mut todo = batches[k].clone();
                let mut failed: Vec<(usize, Vec<String>)> = Vec::new();
                let mut harness: Vec<String> = Vec::new();
                let mut clean = 0;
                let mut round = 0;
                while !todo.is_empty() && round < 6 {
                    round += 1;
                    match cargo_check(&todo, slot) {
                        Ok(errs) => {
                            if errs.is_empty() {
                                clean += todo.len();
                                todo.clear();
                                break;
                            }
                            for (i, msgs) in &errs {
                                failed.push((*i, msgs.clone()));
                            }
                            todo.retain(|(i, _)| !errs.contains_key(i));
                        }
                        Err(e) => {
                            harness.push(e);
                            break;
                        }
                    }
                }
                results.lock().unwrap().push((failed, clean, harness, todo));
            });
        }
    });
    for (failed, clean, harness, left) in results.into_inner().unwrap() {
        for _ in 0..clean {
            rep.count("type-checks");
        }
        for (i, msgs) in failed {
            let c = &cases[i];
            let class = classify(&msgs.join(" | "), c);
            rep.unsat(&class, !class.is_empty(), json!({"why": format!("{} does not type-check against rasn: {}", c.label, msgs.iter().take(3).cloned().collect::<Vec<_>>().join(" | ")), "case": {"sources": c.sources, "config": c.opt.to_json()}}));
        }
        rep.harness_errors.extend(harness);
        pending.extend(left);
    }
    let round = 6;
    if !pending.is_empty() {
        rep.harness_errors.push(format!("{} cases left unchecked after {round} rounds", pending.len()));
    }
    rep
}

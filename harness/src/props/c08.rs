//! C08: compilation and error rendering are total: no panic, abort or hang.
use crate::asn_text::*;
use crate::modset::*;
use crate::report::{Report, RunCfg};
use crate::util::*;
use rasn_compiler::prelude::*;
use serde_json::json;
use std::io::{BufRead, BufReader, Write};
use std::process::{Command, Stdio};
use std::sync::Mutex;

static LAST_PANIC: Mutex<Option<(String, String)>> = Mutex::new(None);

/// worker process: one line `B <i>` before and `E <i> <status>` after every input
pub fn worker(file: &str, start: usize) {
    std::panic::set_hook(Box::new(|info| {
        let loc = info.location().map(|l| l.file().rsplit("rasn-compiler/src/").next().unwrap_or(l.file()).to_string()).unwrap_or_default();
        let msg = if let Some(s) = info.payload().downcast_ref::<&str>() {
            s.to_string()
        } else if let Some(s) = info.payload().downcast_ref::<String>() {
            s.clone()
        } else {
            "panic".into()
        };
        *LAST_PANIC.lock().unwrap() = Some((loc, msg));
    }));
    let text = std::fs::read_to_string(file).unwrap_or_default();
    let out = std::io::stdout();
    for (i, line) in text.lines().enumerate().skip(start) {
        let Some(src) = unhex(line) else { continue };
        {
            let mut o = out.lock();
            let _ = writeln!(o, "B {i}");
            let _ = o.flush();
        }
        let status = run_one(&src);
        let mut o = out.lock();
        let _ = writeln!(o, "E {i} {status}");
        let _ = o.flush();
    }
}

fn render(e: &CompilerError, src: &str) {
    let _ = e.to_string();
    let _ = e.contextualize(src);
}

fn run_one(src: &str) -> String {
    let mut status = Vec::new();
    // rasn backend, TypeScript backend, rasn backend with every option away from its default
    for mode in 0..3 {
        let s = src.to_string();
        let r = std::panic::catch_unwind(std::panic::AssertUnwindSafe(move || {
            let res = if mode == 1 {
                Compiler::<TypescriptBackend, _>::new().add_asn_literal(s.clone()).compile_to_string()
            } else if mode == 0 {
                Compiler::<RasnBackend, _>::new().add_asn_literal(s.clone()).compile_to_string()
            } else {
                let cfg = rasn_compiler::prelude::RasnConfig { opaque_open_types: false, default_wildcard_imports: true, generate_from_impls: true, no_std_compliant_bindings: true, custom_imports: vec!["my::path".into()], type_annotations: vec!["#[derive(Debug)]".into()], ..Default::default() };
                Compiler::<RasnBackend, _>::new_with_config(cfg).add_asn_literal(s.clone()).compile_to_string()
            };
            match res {
                Ok(r) => {
                    let mut tag = "ok";
                    for w in &r.warnings {
                        render(w, &s);
                        let t = w.to_string();
                        if t.contains("defined in terms of itself") {
                            tag = "ok+cyclic";
                        } else if t.contains("Failed to link value with") && tag == "ok" {
                            tag = "ok+missing";
                        }
                    }
                    tag
                }
                Err(e) => {
                    render(&e, &s);
                    "err"
                }
            }
        }));
        match r {
            Ok(x) => status.push(x.to_string()),
            Err(_) => {
                let (loc, msg) = LAST_PANIC.lock().unwrap().take().unwrap_or_default();
                let msg: String = msg.chars().take(70).map(|c| if c.is_whitespace() { '_' } else { c }).collect();
                status.push(format!("panic@{loc}:{msg}"));
            }
        }
    }
    status.join(" ")
}

#[derive(Debug, Clone)]
pub enum Res {
    Done(String),
    Crash,
    Timeout,
}

/// run all inputs through worker processes; a crash or a timeout costs one restart
pub fn run_isolated(inputs: &[String], timeout_ms: u64) -> Vec<Res> {
    let scratch = verif_root().join(".scratch");
    let _ = std::fs::create_dir_all(&scratch);
    let file = scratch.join(format!("c08-{}.txt", std::process::id()));
    {
        let mut f = std::io::BufWriter::new(std::fs::File::create(&file).unwrap());
        for i in inputs {
            let _ = writeln!(f, "{}", hex(i));
        }
    }
    let probe = verif_root().join("harness/target/debug/probe");
    let mut out: Vec<Option<Res>> = vec![None; inputs.len()];
    let mut start = 0;
    while start < inputs.len() {
        let mut child = match Command::new(&probe)
            .arg("--c08-worker")
            .arg(&file)
            .arg(start.to_string())
            .stdout(Stdio::piped())
            .stderr(Stdio::null())
            .env_remove("CARGO")
            .env_remove("CARGO_HOME")
            .spawn()
        {
            Ok(c) => c,
            Err(_) => break,
        };
        let stdout = child.stdout.take().unwrap();
        let (tx, rx) = std::sync::mpsc::channel::<String>();
        let reader = std::thread::spawn(move || {
            for l in BufReader::new(stdout).lines().map_while(Result::ok) {
                if tx.send(l).is_err() {
                    break;
                }
            }
        });
        let mut current: Option<usize> = None;
        let mut next_start = inputs.len();
        loop {
            match rx.recv_timeout(std::time::Duration::from_millis(timeout_ms)) {
                Ok(l) => {
                    let mut it = l.splitn(3, ' ');
                    match (it.next(), it.next().and_then(|x| x.parse::<usize>().ok())) {
                        (Some("B"), Some(i)) => current = Some(i),
                        (Some("E"), Some(i)) => {
                            out[i] = Some(Res::Done(it.next().unwrap_or("").to_string()));
                            current = None;
                        }
                        _ => {}
                    }
                }
                Err(std::sync::mpsc::RecvTimeoutError::Timeout) => {
                    if let Some(i) = current {
                        out[i] = Some(Res::Timeout);
                        next_start = i + 1;
                    }
                    let _ = child.kill();
                    break;
                }
                Err(std::sync::mpsc::RecvTimeoutError::Disconnected) => {
                    if let Some(i) = current {
                        out[i] = Some(Res::Crash);
                        next_start = i + 1;
                    }
                    break;
                }
            }
        }
        let _ = child.wait();
        let _ = reader.join();
        if next_start <= start {
            break;
        }
        start = next_start;
    }
    let _ = std::fs::remove_file(&file);
    out.into_iter().map(|r| r.unwrap_or(Res::Crash)).collect()
}

const EVERYTHING: &str = "Every-Thing DEFINITIONS AUTOMATIC TAGS ::= BEGIN\nIMPORTS Ext-Type FROM Other-Module;\nMY-CLASS ::= CLASS { &id INTEGER UNIQUE, &Type OPTIONAL } WITH SYNTAX { [TYPE &Type] ID &id }\nobj MY-CLASS ::= { TYPE BOOLEAN ID 1 }\nMySet MY-CLASS ::= { obj | { ID 2 }, ... }\nOtherSet MY-CLASS ::= { MySet | obj }\nPar { T, INTEGER : n } ::= SEQUENCE { x T, y INTEGER (0..n) }\nInst ::= Par { BOOLEAN, 7 }\nCho ::= CHOICE { a INTEGER, b BOOLEAN }\nSel ::= a < Cho\nRe ::= REAL\nrv REAL ::= 1.5\nTi ::= TIME\nTd ::= DATE\nDu ::= DURATION\nUse ::= SEQUENCE { id MY-CLASS.&id ({MySet}), val MY-CLASS.&Type ({MySet}{@id}) OPTIONAL }\nRec ::= SEQUENCE { next Rec OPTIONAL, alt CHOICE { r Rec, n NULL } }\nInst-Of ::= INSTANCE OF MY-CLASS\nEm ::= EMBEDDED PDV\nEx ::= EXTERNAL\nCs ::= CHARACTER STRING\nOd ::= ObjectDescriptor\nAny ::= ANY DEFINED BY id\nPat ::= UTF8String (PATTERN \"a*\")\nCont ::= OCTET STRING (CONTAINING Cho)\nWc ::= Rec (WITH COMPONENTS { ..., next ABSENT })\nSett ::= INTEGER (SETTINGS \"x\")\nERROR MACRO ::= BEGIN TYPE NOTATION ::= \"x\" VALUE NOTATION ::= value (VALUE INTEGER) END\nBs ::= BIT STRING { a(0), b(1) } (SIZE (2))\nbv Bs ::= { a, b }\nSv ::= SEQUENCE { a INTEGER DEFAULT 5, b UTF8String DEFAULT \"ü\" }\nsv Sv ::= { a 1, b \"語\" }\nEND\n";

const CYCLES: [&str; 6] = [
    "M DEFINITIONS ::= BEGIN\nA ::= B\nB ::= A\nEND\n",
    "M DEFINITIONS ::= BEGIN\nA ::= B (0..5)\nB ::= C\nC ::= A\nv A ::= 3\nEND\n",
    "M DEFINITIONS ::= BEGIN\nC1 ::= CLASS { &id INTEGER UNIQUE }\nSet-A C1 ::= { o1 | Set-B }\nSet-B C1 ::= { Set-A }\no1 C1 ::= { &id 1 }\nEND\n",
    "M DEFINITIONS ::= BEGIN\nA ::= SEQUENCE { COMPONENTS OF B }\nB ::= SEQUENCE { COMPONENTS OF A, x NULL }\nEND\n",
    "M DEFINITIONS ::= BEGIN\nP { T } ::= SEQUENCE { x P { T } }\nI ::= P { NULL }\nEND\n",
    "M DEFINITIONS ::= BEGIN\nv1 INTEGER ::= v2\nv2 INTEGER ::= v1\nT ::= INTEGER (0..v1)\nS ::= a < S\nEND\n",
];

/// Reference cycles, systematically: kind of reference × cycle length 1..3 × the construct the reference stands
/// in × names of the members sorting upwards / downwards × entered from a member or from an outside definition
/// whose name sorts before / after the members (the linker walks names in order and guards differ per entry).
fn cycle_family() -> Vec<String> {
    let mut out = Vec::new();
    let name_sets: [[&str; 3]; 2] = [["Ca", "Cb", "Cc"], ["Cz", "Cy", "Cx"]];
    // COMPONENTS OF
    let cof_wrappers: [&str; 6] = [
        "SEQUENCE { m@ BOOLEAN, COMPONENTS OF @N }",
        "SEQUENCE { w SEQUENCE OF SEQUENCE { m@ BOOLEAN, COMPONENTS OF @N } }",
        "SEQUENCE { w SET OF SET { m@ BOOLEAN, COMPONENTS OF @N } }",
        "SEQUENCE { w SEQUENCE { m@ BOOLEAN, COMPONENTS OF @N } }",
        "SEQUENCE { w CHOICE { c SEQUENCE { m@ BOOLEAN, COMPONENTS OF @N }, d NULL } }",
        "SET { m@ BOOLEAN, ..., COMPONENTS OF @N }",
    ];
    // type references
    let ref_wrappers: [&str; 6] = [
        "@N",
        "[3] @N",
        "@N (WITH COMPONENTS { ... })",
        "SEQUENCE { COMPONENTS OF @N, m@ NULL }",
        "SEQUENCE { f a < @N }",
        "a < @N",
    ];
    for names in &name_sets {
        for len in 1..=3usize {
            for (wi, w) in cof_wrappers.iter().enumerate().map(|(i, w)| (i, *w)).chain(ref_wrappers.iter().enumerate().map(|(i, w)| (i + 10, *w))) {
                let mut body = String::new();
                for i in 0..len {
                    let next = names[(i + 1) % len];
                    body.push_str(&format!("{} ::= {}\n", names[i], w.replace("@N", next).replace("m@", &format!("m{i}"))));
                }
                for entry in 0..3 {
                    let extra = match entry {
                        0 => format!("aw {} ::= 5\nav {} ::= aw\nzw INTEGER ::= 5\nZs ::= SEQUENCE {{ f {} DEFAULT zw }}\n", names[0], names[0], names[len - 1]),
                        1 => format!("Aa ::= SEQUENCE {{ e BOOLEAN, COMPONENTS OF {} }}\naav {} ::= {{ }}\n", names[0], names[0]),
                        _ => format!("Zz ::= SEQUENCE {{ e BOOLEAN, COMPONENTS OF {} }}\nZl ::= SEQUENCE OF {}\nzzv {} ::= 3\n", names[0], names[len - 1], names[0]),
                    };
                    out.push(format!("Cyc-Mod DEFINITIONS AUTOMATIC TAGS ::= BEGIN\n{body}{extra}END\n"));
                    let _ = wi;
                }
            }
            // value references
            let vn: Vec<String> = names.iter().map(|n| n.to_lowercase()).collect();
            let mut body = String::new();
            for i in 0..len {
                body.push_str(&format!("{} INTEGER ::= {}\n", vn[i], vn[(i + 1) % len]));
            }
            for user in [
                "Aa ::= INTEGER (0..@V)",
                "Zz ::= SEQUENCE { f INTEGER DEFAULT @V }",
                "Zz ::= OCTET STRING (SIZE (@V..@V))",
                "Aa ::= SEQUENCE (SIZE (1..@V)) OF BOOLEAN",
                "zz INTEGER ::= @V",
                "Aa ::= INTEGER { top(@V) } (0..top)",
            ] {
                out.push(format!("Cyc-Mod DEFINITIONS ::= BEGIN\n{body}{}\nEND\n", user.replace("@V", &vn[0])));
            }
            // object sets and objects
            let sn: Vec<String> = names.iter().map(|n| format!("Set-{n}")).collect();
            let mut body = String::from("C1 ::= CLASS { &id INTEGER UNIQUE, &Type OPTIONAL } WITH SYNTAX { ID &id [TYPE &Type] }\no1 C1 ::= { ID 1 TYPE BOOLEAN }\n");
            for i in 0..len {
                body.push_str(&format!("{} C1 ::= {{ o1 | {} }}\n", sn[i], sn[(i + 1) % len]));
            }
            for user in ["", "Aa ::= SEQUENCE { id C1.&id ({@S}), v C1.&Type ({@S}{@id}) }", "Zz ::= SEQUENCE { id C1.&id ({@S}), v C1.&Type ({@S}{@id}) }", "Zset C1 ::= { @S }", "Aset C1 ::= { o1 | @S }"] {
                out.push(format!("Cyc-Mod DEFINITIONS AUTOMATIC TAGS ::= BEGIN\n{body}{}\nEND\n", user.replace("@S", &sn[0])));
            }
            // parameterized templates
            let mut body = String::new();
            for i in 0..len {
                body.push_str(&format!("{} {{ T }} ::= SEQUENCE {{ x{i} {} {{ T }}, t T }}\n", names[i], names[(i + 1) % len]));
            }
            for user in ["Aa ::= @P { NULL }", "Zz ::= SEQUENCE OF @P { BOOLEAN }", "Aa ::= SEQUENCE { COMPONENTS OF @P { NULL } }"] {
                out.push(format!("Cyc-Mod DEFINITIONS AUTOMATIC TAGS ::= BEGIN\n{body}{}\nEND\n", user.replace("@P", names[0])));
            }
        }
    }
    out
}

pub fn gen_inputs(cfg: &RunCfg) -> Vec<(String, String)> {
    let mut rng = Rng::new(cfg.seed ^ 0xC08);
    let mut out: Vec<(String, String)> = Vec::new();
    // (1) fixed: everything the lexer accepts, cycles, open comments and strings at EOF
    out.push(("everything".into(), EVERYTHING.into()));
    // one notation at a time (an Err for one must not mask the others), then random subsets
    let lines: Vec<&str> = EVERYTHING.lines().collect();
    let prelude = "MY-CLASS ::= CLASS { &id INTEGER UNIQUE, &Type OPTIONAL } WITH SYNTAX { [TYPE &Type] ID &id }\nobj MY-CLASS ::= { TYPE BOOLEAN ID 1 }\nMySet MY-CLASS ::= { obj | { ID 2 }, ... }\nCho ::= CHOICE { a INTEGER, b BOOLEAN }\nRec ::= SEQUENCE { next Rec OPTIONAL, alt CHOICE { r Rec, n NULL } }\nBs ::= BIT STRING { a(0), b(1) } (SIZE (2))\nSv ::= SEQUENCE { a INTEGER DEFAULT 5, b UTF8String DEFAULT \"x\" }\nPar { T, INTEGER : n } ::= SEQUENCE { x T, y INTEGER (0..n) }\n";
    let extra = [
        "Tt ::= SEQUENCE { t TIME, d DATE OPTIONAL }",
        "tv TIME ::= \"2020-01-01\"",
        "rv2 REAL ::= { mantissa 1, base 10, exponent 2 }",
        "rv3 REAL ::= PLUS-INFINITY",
        "Rs ::= SEQUENCE OF REAL",
        "Os MY-CLASS ::= { ... }",
        "Ip ::= Par { Cho, 3 }",
        "Ip2 ::= Par { Par { NULL, 1 }, 2 }",
        "ov MY-CLASS ::= obj",
        "Sel2 ::= SEQUENCE { s a < Cho, t b < Cho OPTIONAL }",
        "Sel3 ::= zz < Cho",
        "Sel4 ::= a < Missing",
        "Cof ::= SEQUENCE { COMPONENTS OF Cho }",
        "Cof2 ::= SET { COMPONENTS OF Sv }",
        "SelSeq ::= SEQUENCE { s a < Cho, n NULL }\nCof3 ::= SEQUENCE { first BOOLEAN, COMPONENTS OF SelSeq }",
        // the same combinations with the names sorting the other way round (the linker walks names in order)
        "ASelSeq ::= SEQUENCE { s a < Cho, n NULL }\nZCof ::= SEQUENCE { first BOOLEAN, COMPONENTS OF ASelSeq }",
        "ZSelSeq ::= SEQUENCE { s a < Cho, n NULL }\nACof ::= SEQUENCE { first BOOLEAN, COMPONENTS OF ZSelSeq }",
        "APar { T } ::= SEQUENCE { x T, s a < Cho }\nZInst ::= APar { Cho }\nZZ ::= SEQUENCE { COMPONENTS OF ZInst }",
        "ZPar { T } ::= SEQUENCE { x T, s a < Cho }\nAInst ::= ZPar { Cho }\nAA ::= SEQUENCE { COMPONENTS OF AInst }",
        "AFld ::= SEQUENCE { f MY-CLASS.&id, COMPONENTS OF ZBase }\nZBase ::= SEQUENCE { g MY-CLASS.&id }",
        "aval INTEGER ::= zval\nzval INTEGER ::= 5\nZt ::= INTEGER (0..aval)\nAt ::= INTEGER (0..zval)",
        "SetSelf MY-CLASS ::= { obj | SetSelf }",
        "Alp ::= IA5String (FROM (\"a\"..\"z\" | \"0\"..\"9\")) (SIZE (1..MAX))",
        "Alp2 ::= PrintableString (FROM (ALL EXCEPT \"x\"))",
        "Big ::= INTEGER (-170141183460469231731687303715884105728..170141183460469231731687303715884105727)",
        "Big2 ::= INTEGER (0..99999999999999999999999999999999999999999999)",
        "Inv ::= INTEGER (MAX..MIN)",
        "Emp ::= ENUMERATED { a(0), a(0), b }",
        "Dup ::= SEQUENCE { a INTEGER, a BOOLEAN }",
        "Kw ::= SEQUENCE { type INTEGER, self BOOLEAN, struct NULL }",
        "Tg ::= [0] [1] [2] EXPLICIT INTEGER",
        "Tg2 ::= [UNIVERSAL 99999999999] INTEGER",
        "dv Sv ::= { }",
        "cv Cho ::= c : 5",
        "bv2 Bs ::= { zz }",
        "bv3 BIT STRING ::= 'GG'H",
        "ev E1 ::= missing",
        "oid OBJECT IDENTIFIER ::= { joint-iso-itu-t 999999999999999999999999 }",
        "Tc ::= SEQUENCE { id MY-CLASS.&id ({Missing}), v MY-CLASS.&Type ({Missing}{@id}) }",
        "Tc2 ::= SEQUENCE { v MY-CLASS.&Type ({MySet}{@.missing}) }",
        "Fx ::= MY-CLASS.&missing",
        "Wc2 ::= Sv (WITH COMPONENTS { a (0..1), b ABSENT })",
        "Up ::= UTF8String (PATTERN \"[a-z]#(1,8)\"\"q\")",
        "Ct ::= BIT STRING (CONTAINING Missing ENCODED BY { 1 2 })",
        "Us ::= OCTET STRING (CONSTRAINED BY { })",
        "An ::= ANY",
        "In ::= INTEGER { a(1), b(a) }",
        "Deep ::= SEQUENCE OF SEQUENCE OF SET OF CHOICE { x SEQUENCE { y SET { z ENUMERATED { q } } } }",
        // degenerate forms of accepted notation: a group of COMPONENTS OF only, empty strings as range ends,
        // numbers at the edge of i128, empty lists
        "Gb ::= SEQUENCE { b BOOLEAN }\nGa ::= SEQUENCE { a INTEGER, ..., [[ COMPONENTS OF Gb ]] }",
        "Gc ::= SEQUENCE { a INTEGER, ..., [[ ]] }",
        "Fe ::= IA5String (FROM (\"\"..\"z\"))",
        "Ff ::= IA5String (\"\"..\"z\")",
        "Fg ::= IA5String (FROM (\"a\"..\"\"))",
        "Fh ::= PrintableString (FROM (\"\"))",
        "Em ::= ENUMERATED { a, ..., b(170141183460469231731687303715884105727), c }",
        "En ::= ENUMERATED { a(170141183460469231731687303715884105727), b }",
        "Eo ::= ENUMERATED { a(-170141183460469231731687303715884105728), b, ..., c }",
        "Im ::= INTEGER { top(170141183460469231731687303715884105727) } (0..top)",
        "Sz ::= OCTET STRING (SIZE (0..170141183460469231731687303715884105727))",
        "Bz ::= BIT STRING { far(170141183460469231731687303715884105727) }",
        "Tz ::= [170141183460469231731687303715884105727] INTEGER",
        // references that are not type references behind COMPONENTS OF; constraints that are not PER-visible as operands
        "Gx ::= SEQUENCE { a INTEGER, ..., [[ COMPONENTS OF x.&y ]] }",
        // field paths of two and three steps, object and class first, alone and next to a named component
        "Gx2 ::= SEQUENCE { a INTEGER, ..., [[ COMPONENTS OF x.&y.&Z ]] }",
        "Gx3 ::= SEQUENCE { a INTEGER, ..., [[ COMPONENTS OF MY-CLASS.&next.&more.&Hops ]], [[ b NULL, COMPONENTS OF x.&y.&Z ]] }",
        "Gx4 ::= SET { ..., [[ COMPONENTS OF x.&y.&z ]] }",
        // numbers beyond what a machine float / integer holds, as value and as DEFAULT
        "Rl ::= SEQUENCE { a REAL DEFAULT 9999999999999999999999999999999999999999999999999999999999999999999999999999999999999999999999999999999999999999999999999999999999999999999999999999999999999999999999999999999999999999999999999999999999999999999999999999999999999999999999999999999999999999999999999999999999999999999999999999999999999999999999999999999999999999999.5 }\nrl REAL ::= 9999999999999999999999999999999999999999999999999999999999999999999999999999999999999999999999999999999999999999999999999999999999999999999999999999999999999999999999999999999999999999999999999999999999999999999999999999999999999999999999999999999999999999999999999999999999999999999999999999999999999999999999999999999999999999999999999999999999999999999999.0\nrs REAL ::= { mantissa 1, base 10, exponent 99999 }",
        "Gy ::= SEQUENCE { COMPONENTS OF MY-CLASS.&Type, b BOOLEAN }",
        "Pv1 ::= INTEGER (SIZE (PATTERN \"x\") ^ 1 | PATTERN \"y\")",
        "Pv2 ::= IA5String (FROM (PATTERN \"x\") ^ \"a\" | PATTERN \"y\")",
        "Pv3 ::= OCTET STRING (SIZE (CONSTRAINED BY { }) | 4)",
        "Pv4 ::= UTF8String (SIZE (1..4) ^ (PATTERN \"a\" | SIZE (2)))",
        // objects and object sets that refer to each other, entered from outside the cycle",
        "o1 MY-CLASS ::= { o2 }\no2 MY-CLASS ::= { o3 }\no3 MY-CLASS ::= { o2 }",
        "C ::= CLASS { &id INTEGER UNIQUE, &Type } WITH SYNTAX { &Type IDENTIFIED BY &id }\nObjs C ::= { { INTEGER (1 ^ 2) IDENTIFIED BY 1 } | { IA5String (SIZE (1..4)) IDENTIFIED BY 2 } }",
        "IdC ::= CLASS { &id INTEGER UNIQUE, &Type } WITH SYNTAX { &Type IDENTIFIED BY &id }\nObjs IdC ::= { { INTEGER (1 ^ 2) IDENTIFIED BY 1 } | { IA5String (SIZE (1..4)) IDENTIFIED BY 2 } }\nUse ::= SEQUENCE { id IdC.&id ({Objs}), v IdC.&Type ({Objs}{@id}) }",
        // sixth round (list of the C08 sub-agent): an object set written in line in a table constraint; values of types
        // with a hyphenated name and an anonymous CHOICE / SEQUENCE member
        "IDD ::= CLASS { &id INTEGER UNIQUE, &Type } WITH SYNTAX { &Type IDENTIFIED BY &id }\nUseD ::= SEQUENCE { id IDD.&id, val IDD.&Type ({ { BOOLEAN IDENTIFIED BY 2 } }{@id}) }",
        "IDE ::= CLASS { &id INTEGER UNIQUE, &Type } WITH SYNTAX { &Type IDENTIFIED BY &id }\nUseE ::= SET { id IDE.&id, val IDE.&Type ({ { BOOLEAN IDENTIFIED BY 2 } | { NULL IDENTIFIED BY 3 }, ... }{@id}) OPTIONAL }",
        "My-Type ::= SEQUENCE { c CHOICE { a INTEGER, b BOOLEAN } }\nmy-v My-Type ::= { c a : 5 }",
        "Ot-Her ::= SEQUENCE { s SEQUENCE { c CHOICE { a INTEGER, b BOOLEAN } } }\not-v Ot-Her ::= { s { c b : TRUE } }",
        "Ch-Oice ::= CHOICE { c CHOICE { a INTEGER, b BOOLEAN }, d NULL }\nch-v Ch-Oice ::= c : a : 5",
    ];
    for l in lines.iter().skip(2).filter(|l| !l.starts_with("END")).map(|l| l.to_string()).chain(extra.iter().map(|x| x.to_string())) {
        for hdr in ["AUTOMATIC TAGS", "", "EXPLICIT TAGS EXTENSIBILITY IMPLIED"] {
            out.push(("notation".into(), format!("One-Mod DEFINITIONS {hdr} ::= BEGIN\n{prelude}{l}\nEND\n")));
        }
    }
    for _ in 0..cfg.budget(100, 2000) {
        let mut body = String::new();
        for _ in 0..1 + rng.below(6) {
            let pick = if rng.chance(1, 2) { extra[rng.below(extra.len())].to_string() } else { lines[2 + rng.below(lines.len() - 3)].to_string() };
            body.push_str(&pick);
            body.push('\n');
        }
        out.push(("notation-mix".into(), format!("Mix-Mod DEFINITIONS AUTOMATIC TAGS ::= BEGIN\n{prelude}{body}END\n")));
    }
    // (1a') permitted alphabets and string values built from two operands of every kind, degenerate ones included
    // (empty strings, empty and one-point ranges, characters of more than one byte), under both set operators and the
    // three spellings; and constraints of every kind directly behind SIZE / FROM
    let operands = ["\"abc\"", "\"\"", "\"a\"..\"z\"", "\"\"..\"z\"", "\"a\"..\"\"", "\"A\"..\"A\"", "\"Z\"..\"A\"", "\"é\"", "\"а\"..\"я\"", "\"！\"..\"～\"", "\"😀\"", "\"\u{ffff}\"..\"\u{10000}\""];
    let str_types = ["IA5String", "BMPString", "UTF8String", "PrintableString", "VisibleString"];
    let mut k = 0usize;
    for x in operands {
        for y in operands {
            for op in ["|", "^"] {
                for spelling in 0..3 {
                    let ty = str_types[k % str_types.len()];
                    k += 1;
                    let c = match spelling {
                        0 => format!("(FROM ({x} {op} {y}))"),
                        1 => format!("(FROM ({x}) {op} FROM ({y}))"),
                        _ => format!("({x} {op} {y})"),
                    };
                    out.push(("alphabet-operands".into(), format!("Al-Mod DEFINITIONS AUTOMATIC TAGS ::= BEGIN\nA ::= {ty} {c}\nEND\n")));
                }
            }
        }
    }
    // long texts of characters of two, three and four bytes in the places a warning or an error quotes, moved over
    // every byte position by a pad of one-byte characters
    for ch in ["é", "€", "𝄞"] {
        for n in [40usize, 110, 200, 700] {
            for pad in 0..4 {
                let t = "a".repeat(pad) + &ch.repeat(n);
                for form in [
                    format!("F ::= IA5String (\"{t}\" .. \"x\" ^ \"b\" .. \"c\")"),
                    format!("F ::= IA5String (FROM (\"{t}\" .. \"x\"))"),
                    format!("F ::= UTF8String (FROM (\"{t}\") ^ FROM (\"a\"..\"c\"))"),
                    format!("v UTF8String ::= \"{t}\"\nF ::= INTEGER (v)\nG ::= SEQUENCE {{ a INTEGER DEFAULT v }}"),
                    format!("F ::= UTF8String (PATTERN \"{t}\") (SIZE (\"{t}\"))"),
                    // syntax errors on, behind and in front of a long line (the excerpt of contextualize shows the lines around)
                    format!("F ::= UTF8String (\"{t}\") !! oops"),
                    format!("-- {t}\nF ::= SEQUENCE {{ a INTEGER,, }}\n-- {t}"),
                    format!("v UTF8String ::= \"{t}\" F ::= SEQUENCE {{ a INTEGER b }}"),
                ] {
                    out.push(("long-multibyte".into(), format!("Lm-Mod DEFINITIONS AUTOMATIC TAGS ::= BEGIN\n{form}\nH ::= INTEGER (0..7)\nEND\n")));
                }
            }
        }
    }
    let inner = ["CONTAINING INTEGER", "{Set}", "PATTERN \"x\"", "WITH COMPONENTS { ... }", "SIZE (1)", "FROM (\"a\")", "CONSTRAINED BY { }", "INCLUDES B", "B", "ALL EXCEPT 1", "MIN..MAX", "TRUE", "\"a\"", "{ 1 }", "..."];
    for i in inner {
        for (outer, ty) in [("SIZE", "OCTET STRING"), ("SIZE", "IA5String"), ("FROM", "IA5String"), ("SIZE", "SEQUENCE OF"), ("WITH COMPONENT", "SEQUENCE OF")] {
            let t = if ty == "SEQUENCE OF" { format!("A ::= SEQUENCE ({outer} ({i})) OF INTEGER") } else { format!("A ::= {ty} ({outer} ({i}))") };
            out.push(("constraint-in-constraint".into(), format!("Cc-Mod DEFINITIONS AUTOMATIC TAGS ::= BEGIN\nB ::= INTEGER (0..3)\n{t}\nEND\n")));
        }
    }
    for c in CYCLES {
        out.push(("cycle".into(), c.to_string()));
    }
    for c in cycle_family() {
        out.push(("cycle-family".into(), c));
    }
    // (1b) growth: chains of 40 definitions each mentioning the next one more than once, in every notation that
    // can do so; names ascending and descending (the linker walks names in order); ending in a leaf or closing a
    // cycle. A traversal that follows every *path* instead of every definition needs 2^40 steps: the watchdog
    // reports it as a hang
    let chain_forms: [&str; 8] = [
        "SEQUENCE { a @N, b @N }",
        "SET { a @N, b @N OPTIONAL, c @N OPTIONAL }",
        "CHOICE { a @N, b @N }",
        "SEQUENCE { a @N OPTIONAL, b SEQUENCE OF @N, c SET OF @N }",
        "SEQUENCE { a SEQUENCE { x @N, y @N }, b @N }",
        "CHOICE { a @N, b SET { c @N, d CHOICE { e @N, f NULL } } }",
        "SEQUENCE { a [0] @N, b [1] EXPLICIT @N, ..., c @N OPTIONAL }",
        "SEQUENCE { a @N (WITH COMPONENTS { ... }) OPTIONAL, b @N DEFAULT { }, c @N }",
    ];
    for (fi, form) in chain_forms.iter().enumerate() {
        for descending in [false, true] {
            for closed in [false, true] {
                let n = 40usize;
                let name = |i: usize| if descending { format!("Ch{:02}", n - i) } else { format!("Ch{:02}", i) };
                let mut body = String::new();
                for i in 0..n {
                    body.push_str(&format!("{} ::= {}\n", name(i), form.replace("@N", &name(i + 1))));
                }
                if closed {
                    body.push_str(&format!("{} ::= SEQUENCE {{ back {} OPTIONAL, again {} OPTIONAL }}\n", name(n), name(0), name(n / 2)));
                } else {
                    body.push_str(&format!("{} ::= INTEGER (0..7)\n", name(n)));
                }
                out.push((format!("growth:form{fi}"), format!("Grow-Mod DEFINITIONS AUTOMATIC TAGS ::= BEGIN\n{body}END\n")));
            }
        }
    }
    for tail in ["/*", "/* open", "/* a /* b */", "--", "-- open", "\"open", "'0101", "'AB'", "/* ü", "/* 語", "-- ü", "\"ü", "{", "((", "[[", "::=", "&", "@", "."] {
        out.push(("open-at-eof".into(), format!("M DEFINITIONS ::= BEGIN\nA ::= INTEGER {tail}")));
        out.push(("open-at-eof".into(), format!("M DEFINITIONS ::= BEGIN\nA ::= INTEGER\nEND {tail}")));
        out.push(("open-at-eof".into(), tail.to_string()));
    }
    // (2) every prefix of valid modules (character boundaries)
    let small = build_module("Pre", &[0, 1, 2, 3, 4, 6, 9, 11], 7, false, true).text;
    for (i, _) in small.char_indices() {
        out.push(("prefix".into(), small[..i].to_string()));
    }
    let every: Vec<usize> = EVERYTHING.char_indices().map(|x| x.0).collect();
    for i in every.iter().step_by(if cfg.thorough { 1 } else { 3 }) {
        out.push(("prefix".into(), EVERYTHING[..*i].to_string()));
    }
    // (3) multi-byte characters at every position of a small module
    let tiny = "M DEFINITIONS ::= BEGIN\nA ::= SEQUENCE { a INTEGER (0..7), b UTF8String DEFAULT \"x\" } -- c\nEND\n";
    for (i, _) in tiny.char_indices() {
        for ch in ["ü", "語", "\u{1F600}"] {
            let mut s = tiny.to_string();
            s.insert_str(i, ch);
            out.push(("multibyte".into(), s));
        }
    }
    // (3a) the same inside and around block comments (nested, with lone `*` and `/`): the scanner for `*/` walks bytes
    let tiny2 = "M DEFINITIONS ::= BEGIN\n/* l in m /* n */ * / e */ A ::= INTEGER /* t */\nEND\n";
    for (i, _) in tiny2.char_indices() {
        for ch in ["ü", "語", "\u{1F600}"] {
            let mut s = tiny2.to_string();
            s.insert_str(i, ch);
            out.push(("multibyte-in-block-comment".into(), s));
        }
    }
    // (3b) a syntax error *after* multi-byte characters (in strings, comments, at line ends): offsets, lines and
    // the excerpt of the report are computed behind them
    for mb in ["5€", "ëë", "語", "€5", "Zoë", "\u{1F600}x", "ü", "aé語€\u{1F600}"] {
        for reps in [1usize, 2, 3, 5] {
            for bad in ["Bad ::= SEQUENCE { a INTEGER,, }", "Bad ::= INTEGER (0..", "bad INTEGER ::= §", "Bad ::= CHOICE { }"] {
                let strings: String = (0..reps).map(|i| format!("v{i} UTF8String ::= \"{mb}\"\n")).collect();
                out.push(("multibyte-then-error".into(), format!("M DEFINITIONS ::= BEGIN\n{strings}-- {mb} {mb}\nOk ::= BOOLEAN -- {mb}\n{bad}\nEND\n")));
            }
        }
    }
    // (4) byte soup
    let frags = [
        "A", "b", " ", "\n", "::=", "{", "}", "(", ")", "[", "]", ",", "..", "...", "INTEGER", "SEQUENCE", "OF", "BEGIN", "END", "DEFINITIONS", "--", "/*", "*/", "\"", "'", "H", "B", "0", "9", "-", "&", "@", ".", ":", "|", "^", "<", "ü", "語", "\u{0}", "\t", "\r", "CLASS", "MACRO", "WITH SYNTAX", "TIME", "REAL", "CHOICE", "ENUMERATED", "IMPORTS", "FROM", ";", "!", "#", "$", "\\",
    ];
    for _ in 0..cfg.budget(1500, 30000) {
        let n = 1 + rng.below(40);
        let mut s = String::new();
        if rng.chance(1, 2) {
            s.push_str("M DEFINITIONS ::= BEGIN\n");
        }
        for _ in 0..n {
            s.push_str(frags[rng.below(frags.len())]);
            if rng.chance(1, 3) {
                s.push(' ');
            }
        }
        if rng.chance(1, 3) {
            s.push_str("\nEND\n");
        }
        out.push(("soup".into(), s));
    }
    // (5) token mutations of generated and real-world modules
    let mut bases: Vec<String> = vec![EVERYTHING.to_string()];
    for k in 0..cfg.budget(6, 40) {
        let n_assign = 3 + rng.below(15);
        let mut g = Gen { rng: &mut rng, info_objects: true };
        bases.push(g.module(&format!("Gen{k}"), &format!("{k}x0"), n_assign).text());
    }
    let dir = std::path::Path::new("/repo/rasn-compiler-tests/tests/modules");
    let mut files: Vec<std::path::PathBuf> = std::fs::read_dir(dir).map(|d| d.filter_map(|e| e.ok().map(|e| e.path())).collect()).unwrap_or_default();
    files.sort();
    for _ in 0..cfg.budget(30, 892).min(files.len()) {
        let f = &files[rng.below(files.len())];
        if let Ok(t) = std::fs::read_to_string(f) {
            if t.len() < 60_000 {
                out.push(("real-world".into(), t.clone()));
                bases.push(t);
            }
        }
    }
    let per_base = cfg.budget(40, 120);
    for b in &bases {
        let toks = tokenize(b);
        if toks.len() < 4 {
            continue;
        }
        for _ in 0..per_base {
            let mut s = b.clone();
            let i = rng.below(toks.len());
            let j = rng.below(toks.len());
            let (ti, tj) = (&toks[i], &toks[j]);
            match rng.below(6) {
                0 => s.replace_range(ti.start..ti.end, ""),
                1 => s.insert_str(ti.start, &format!("{} ", &b[tj.start..tj.end])),
                2 => s.replace_range(ti.start..ti.end, &b[tj.start..tj.end]),
                3 => s.insert_str(ti.end, &format!(" {}", &b[ti.start..ti.end])),
                4 => {
                    // swap two tokens
                    let (a, c) = if ti.start <= tj.start { (ti, tj) } else { (tj, ti) };
                    if a.end <= c.start {
                        let (sa, sc) = (b[a.start..a.end].to_string(), b[c.start..c.end].to_string());
                        s.replace_range(c.start..c.end, &sa);
                        s.replace_range(a.start..a.end, &sc);
                    }
                }
                _ => {
                    // splice: a run of tokens from elsewhere
                    let k = (j + 1 + rng.below(8)).min(toks.len() - 1);
                    let run = b[tj.start..toks[k].end.max(tj.end)].to_string();
                    s.insert_str(ti.start, &format!("{run} "));
                }
            }
            out.push(("mutation".into(), s));
        }
    }
    out
}

/// random alias environments with a value of one of the types: implementation vs the Lean chase model
fn chase_correspondence(cfg: &RunCfg, rep: &mut Report) {
    let mut rng = Rng::new(cfg.seed ^ 0xC4A5E);
    let n = cfg.budget(300, 5000);
    let mut inputs = Vec::new();
    let mut reqs = Vec::new();
    for k in 0..n {
        let size = 1 + rng.below(7);
        let mut defs: Vec<(String, Option<String>)> = Vec::new();
        for i in 0..size {
            let name = format!("T{k}x{i}");
            let target = match rng.below(5) {
                0 => None,
                1 => Some(format!("Missing{k}")),
                _ => Some(format!("T{k}x{}", rng.below(size))),
            };
            defs.push((name, target));
        }
        let start = format!("T{k}x{}", rng.below(size));
        let mut body = String::new();
        for (n, t) in &defs {
            body.push_str(&format!("{n} ::= {}\n", t.clone().unwrap_or_else(|| "INTEGER".into())));
        }
        body.push_str(&format!("val{k} {start} ::= 3\n"));
        inputs.push(format!("Chase-Mod DEFINITIONS ::= BEGIN\n{body}END\n"));
        reqs.push(format!(
            "c08chase {} {}",
            sx_list(defs.iter().map(|(n, t)| format!("( {} {} )", hex(n), t.as_ref().map(|t| hex(t)).unwrap_or_else(|| "base".into())))),
            hex(&start)
        ));
    }
    let res = run_isolated(&inputs, 10_000);
    match run_driver(&reqs) {
        Ok(ans) => {
            for ((a, r), text) in ans.iter().zip(res.iter()).zip(inputs.iter()) {
                rep.evaluations += 1;
                rep.count(&format!("chase:model:{a}"));
                let observed = match r {
                    Res::Done(s) => {
                        let first = s.split(' ').next().unwrap_or("");
                        match first {
                            "ok" => "resolved",
                            "ok+cyclic" => "cyclic",
                            "ok+missing" => "missing",
                            other => other,
                        }
                        .to_string()
                    }
                    Res::Crash => "crash".into(),
                    Res::Timeout => "timeout".into(),
                };
                if &observed != a {
                    if observed == "crash" || observed == "timeout" || observed.starts_with("panic") {
                        rep.unsat(&format!("C08_{observed}"), false, json!({"why": format!("value of an alias chain: the model answers {a}, the implementation: {observed}"), "case": {"text": text, "kind": "chase"}}));
                    }
                    rep.disagree(json!({"difference": format!("alias chase: model {a}, implementation {observed}"), "case": {"text": text, "kind": "chase"}}));
                }
            }
        }
        Err(e) => rep.harness_errors.push(e),
    }
}

pub fn run(cfg: &RunCfg) -> Report {
    let mut rep = Report::new(
        "C08",
        "inputs run in isolated worker processes (panic hook with location, crash = worker death, 10 s watchdog), both backends, every returned error and warning rendered with Display and contextualize: a module using every notation the lexer accepts (CLASS / objects / object sets, parameterization, selection, REAL, TIME / DATE / DURATION, INSTANCE OF, EMBEDDED PDV, EXTERNAL, CHARACTER STRING, ANY DEFINED BY, PATTERN / CONTAINING / WITH COMPONENTS / SETTINGS, MACRO, recursion); cyclic type, value, object-set, COMPONENTS OF and parameter references; comments, strings and brackets left open at EOF; every prefix of valid modules; multi-byte characters at every position; byte soup over ASN.1 fragments; token mutations (delete, insert, replace, duplicate, swap, splice) of generated and real-world modules",
    );
    let inputs: Vec<(String, String)> = if let Some(r) = &cfg.replay {
        let r = r.get("case").unwrap_or(r);
        vec![("replay".into(), r["text"].as_str().unwrap_or("").to_string())]
    } else {
        let mut v: Vec<(String, String)> = load_corpus("C08").iter().map(|c| ("corpus".to_string(), c["text"].as_str().unwrap_or("").to_string())).collect();
        v.extend(gen_inputs(cfg));
        v
    };
    let texts: Vec<String> = inputs.iter().map(|x| x.1.clone()).collect();
    let results = run_isolated(&texts, 10_000);
    for ((kind, text), res) in inputs.iter().zip(results.iter()) {
        rep.evaluations += 1;
        rep.count(&format!("input:{kind}"));
        if rep.evaluations % 97 == 0 {
            rep.distinct.insert(format!("{}", text.len()));
        }
        let short: String = text.chars().take(4000).collect();
        match res {
            Res::Done(s) => {
                for part in s.split(' ') {
                    if let Some(p) = part.strip_prefix("panic@") {
                        let class = format!("C08_panic@{}", p.split(':').take(2).collect::<Vec<_>>().join(":").chars().take(110).collect::<String>());
                        rep.unsat(&class, true, json!({"why": format!("panic at {p}"), "case": {"text": short, "kind": kind}}));
                    } else {
                        rep.count(&format!("outcome:{part}"));
                    }
                }
            }
            Res::Crash => rep.unsat("C08_crash", true, json!({"why": "the worker process died (stack exhaustion or abort)", "case": {"text": text, "kind": kind}})),
            Res::Timeout => rep.unsat("C08_timeout", true, json!({"why": "no answer within 10 s", "case": {"text": text, "kind": kind}})),
        }
    }
    if cfg.replay.is_none() {
        chase_correspondence(cfg, &mut rep);
    }
    rep
}

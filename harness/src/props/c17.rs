//! C17: syntax errors are reported at the malformed definition, consistently.
use crate::asn_text::*;
use crate::report::{Report, RunCfg};
use crate::util::*;
use rasn_compiler::prelude::*;
use serde_json::json;
use std::panic::{catch_unwind, AssertUnwindSafe};

#[derive(Clone, Debug)]
pub struct Case {
    pub text: String,
    /// first token of the malformed definition (or the corruption position when it comes first)
    pub lower: usize,
    /// position of an inserted character that starts no ASN.1 token
    pub upper: Option<usize>,
    pub what: String,
    pub as_file: bool,
}

const REPLACEMENTS: [&str; 12] = ["::=", ",", "}", "{", "(", ")", "SEQUENCE", "OF", "..", "5", "x-y", "[["];
const IMPOSSIBLE: [&str; 4] = ["$", "%", "§", "\u{1}"];

pub fn gen_cases(cfg: &RunCfg) -> Vec<Case> {
    let mut rng = Rng::new(cfg.seed ^ 0xC17);
    let mut cases = Vec::new();
    let n_sets = cfg.budget(40, 600);
    for set in 0..n_sets {
        let n_mod = 1 + rng.below(3);
        let crlf = set % 2 == 1;
        let comments = set % 3 != 0;
        let mut mods = Vec::new();
        for m in 0..n_mod {
            let n_assign = if set < 10 { 1 + rng.below(4) } else { 1 + rng.below(30) };
            let picks: Vec<usize> = (0..n_assign).map(|_| rng.below(ASSIGNMENTS.len())).collect();
            mods.push(build_module(&format!("Mod{set}x{m}"), &picks, set * 10 + m, crlf, comments));
        }
        // one source text with all modules
        let mut text = String::new();
        let mut regions: Vec<(usize, usize, String)> = Vec::new(); // (start, end, label) of header / assignment regions
        for (mi, m) in mods.iter().enumerate() {
            let base = text.len();
            regions.push((base + m.header.0, base + m.header.1, format!("header of module {mi}")));
            for (k, a) in m.assignments.iter().enumerate() {
                regions.push((base + a.0, base + a.1, format!("assignment {k} of module {mi}")));
            }
            text.push_str(&m.text);
        }
        let toks = tokenize(&text);
        // exhaustive over regions and token positions for small inputs, random otherwise
        let exhaustive = set < 10;
        let per_set = if exhaustive { usize::MAX } else { 25 };
        let mut made = 0;
        let mut region_order: Vec<usize> = (0..regions.len()).collect();
        if !exhaustive {
            for i in (1..region_order.len()).rev() {
                region_order.swap(i, rng.below(i + 1));
            }
        }
        'outer: for ri in region_order {
            let (rs, re, label) = &regions[ri];
            let rtoks: Vec<&Tok> = toks.iter().filter(|t| t.start >= *rs && t.end <= *re).collect();
            if rtoks.is_empty() {
                continue;
            }
            let positions: Vec<usize> = if exhaustive { (0..rtoks.len()).collect() } else { vec![rng.below(rtoks.len())] };
            for ti in positions {
                let t = rtoks[ti];
                let kinds: Vec<usize> = if exhaustive { vec![0, 1, 2, 3, 4] } else { vec![rng.below(4)] };
                for kind in kinds {
                    let first_tok = rtoks[0].start;
                    let (new_text, lower, upper, what) = match kind {
                        0 => {
                            let mut s = text.clone();
                            s.replace_range(t.start..t.end, "");
                            (s, first_tok.min(t.start), None, format!("delete token `{}` in {label}", &text[t.start..t.end]))
                        }
                        1 => {
                            let r = *rng.pick(&REPLACEMENTS);
                            let mut s = text.clone();
                            s.replace_range(t.start..t.end, r);
                            (s, first_tok.min(t.start), None, format!("replace token `{}` by `{r}` in {label}", &text[t.start..t.end]))
                        }
                        2 => {
                            let r = *rng.pick(&REPLACEMENTS);
                            let mut s = text.clone();
                            s.insert_str(t.start, &format!("{r} "));
                            (s, first_tok.min(t.start), None, format!("insert `{r}` before token `{}` in {label}", &text[t.start..t.end]))
                        }
                        4 => {
                            // a block comment that is opened in front of the token and never closed
                            let mut s = text.clone();
                            s.insert_str(t.start, "/* open ");
                            (s, first_tok.min(t.start), None, format!("open a block comment before token `{}` in {label} and never close it", &text[t.start..t.end]))
                        }
                        _ => {
                            let r = *rng.pick(&IMPOSSIBLE);
                            let mut s = text.clone();
                            s.insert_str(t.start, r);
                            (s, first_tok.min(t.start), Some(t.start), format!("insert impossible character {:?} before token `{}` in {label}", r, &text[t.start..t.end]))
                        }
                    };
                    cases.push(Case { text: new_text, lower, upper, what, as_file: (made + set) % 4 == 0 });
                    made += 1;
                    if made >= per_set {
                        break 'outer;
                    }
                }
            }
        }
    }
    cases.extend(open_comment_family(cfg));
    cases.extend(distance_family());
    cases.extend(layout_family());
    cases
}

/// A block comment opened somewhere in the k-th assignment of the second or third module and never closed: the text
/// up to it is well-formed, so the report must not lie before the first token of that assignment (and it names the
/// file when the source is one).
fn open_comment_family(cfg: &RunCfg) -> Vec<Case> {
    let mut rng = Rng::new(cfg.seed ^ 0xC17_0C);
    let mut out = Vec::new();
    for set in 0..cfg.budget(40, 400) {
        let n_mod = 1 + rng.below(3);
        let mut text = String::new();
        let mut regions: Vec<(usize, usize)> = Vec::new();
        for m in 0..n_mod {
            let n_assign = 1 + rng.below(12);
            let picks: Vec<usize> = (0..n_assign).map(|_| rng.below(ASSIGNMENTS.len())).collect();
            let md = build_module(&format!("Oc{set}x{m}"), &picks, 7000 + set * 10 + m, set % 2 == 1, set % 3 == 0);
            let base = text.len();
            for a in &md.assignments {
                regions.push((base + a.0, base + a.1));
            }
            text.push_str(&md.text);
        }
        let toks = tokenize(&text);
        let (rs, re) = *rng.pick(&regions);
        let rtoks: Vec<&Tok> = toks.iter().filter(|t| t.start >= rs && t.end <= re).collect();
        if rtoks.is_empty() {
            continue;
        }
        let t = rtoks[rng.below(rtoks.len())];
        let mut s = text.clone();
        s.insert_str(t.start, ["/* open ", "/*", "/* a /* b */ "][(set / 3) % 3]);
        out.push(Case { text: s, lower: rtoks[0].start.min(t.start), upper: None, what: format!("open-comment: a block comment opened before token `{}` and never closed", &text[t.start..t.end]), as_file: (set / 2) % 2 == 0 });
    }
    out
}

/// Layouts that decide how the excerpt of `contextualize` is cut: every line indented (END too), blank and
/// white-space-only lines before the malformed definition, the malformed definition as the last one, a definition
/// whose failing line lies more than 300 bytes behind its first token, comment lines between, LF and CRLF.
fn layout_family() -> Vec<Case> {
    let mut out = Vec::new();
    let mut k = 0usize;
    for crlf in [false, true] {
        for indent in ["", "  ", "\t"] {
            for end_indent in ["", "  "] {
                for blanks in [0usize, 1, 3] {
                    for members in [1usize, 3, 12] {
                        for last in [false, true] {
                            // every fourth layout stands behind a well-formed module whose END carries a comment, glued or not
                            let mut text = match k % 8 {
                                1 => String::from("Lead-Mod DEFINITIONS ::= BEGIN\nLead ::= NULL\nEND-- end of Lead-Mod\n"),
                                5 => String::from("Lead-Mod DEFINITIONS ::= BEGIN\nLead ::= NULL\nEND -- end of Lead-Mod --\n\n"),
                                _ => String::new(),
                            };
                            text.push_str("Layout-Mod DEFINITIONS AUTOMATIC TAGS ::= BEGIN\n");
                            text.push_str(&format!("{indent}First ::= INTEGER\n"));
                            for b in 0..blanks {
                                text.push_str(if b % 2 == 0 { "\n" } else { "   \n" });
                            }
                            if k % 3 == 0 {
                                text.push_str(&format!("{indent}-- a remark before the definition\n"));
                            }
                            let lower = text.len() + indent.len();
                            text.push_str(&format!("{indent}Bad ::= SEQUENCE {{\n"));
                            let bad_line = members - 1;
                            let mut upper = 0;
                            for m in 0..members {
                                text.push_str(&format!("{indent}    member-number-{m:02} "));
                                if m == bad_line {
                                    upper = text.len();
                                    text.push('§');
                                }
                                text.push_str("INTEGER (0..281474976710655) DEFAULT 5");
                                text.push_str(if m + 1 < members { ",\n" } else { "\n" });
                            }
                            text.push_str(&format!("{indent}}}\n"));
                            if !last {
                                text.push_str(&format!("{indent}After ::= BOOLEAN\n"));
                            }
                            text.push_str(&format!("{end_indent}END\n"));
                            let (text, lower, upper) = if crlf {
                                let conv = |pos: usize| pos + text[..pos].matches('\n').count();
                                (text.replace('\n', "\r\n"), conv(lower), conv(upper))
                            } else {
                                (text, lower, upper)
                            };
                            out.push(Case { text, lower, upper: Some(upper), what: format!("layout: indent {:?}, END indent {:?}, {blanks} blank lines before, {members} members, last definition {last}", indent, end_indent), as_file: k % 5 == 0 });
                            k += 1;
                        }
                    }
                }
            }
        }
    }
    out
}

/// How far the failing line lies from the place the error context starts is varied systematically: 0..24 well-formed
/// assignments or 0..24 comment lines before the malformed definition, a malformed definition of 1..24 lines with
/// the impossible character on its first / middle / last line (incl. in a DEFAULT value), LF and CRLF.
fn distance_family() -> Vec<Case> {
    let mut out = Vec::new();
    let mut k = 0usize;
    for crlf in [false, true] {
        for before in [0usize, 1, 3, 7, 8, 9, 10, 14, 24] {
            for filler in 0..2 {
                for members in [1usize, 2, 6, 9, 14, 24] {
                    for at in 0..3 {
                        let mut text = String::from("Dist-Mod DEFINITIONS AUTOMATIC TAGS ::= BEGIN\nFirst ::= INTEGER\n");
                        for i in 0..before {
                            if filler == 0 {
                                text.push_str(&format!("T{i} ::= INTEGER (0..{i})\n"));
                            } else {
                                text.push_str(&format!("-- remark {i}\n"));
                            }
                        }
                        let lower = text.len();
                        text.push_str("Bad ::= SEQUENCE {\n");
                        let bad_line = match at { 0 => 0, 1 => members / 2, _ => members - 1 };
                        let mut upper = 0;
                        for m in 0..members {
                            text.push_str(&format!("    m{m:02} "));
                            if m == bad_line && k % 2 == 0 {
                                upper = text.len();
                                text.push('§');
                            }
                            text.push_str("INTEGER (0..255) DEFAULT ");
                            if m == bad_line && k % 2 == 1 {
                                upper = text.len();
                                text.push('§');
                            } else {
                                text.push('5');
                            }
                            text.push_str(if m + 1 < members { ",\n" } else { "\n" });
                        }
                        text.push_str("}\nAfter ::= BOOLEAN\nEND\n");
                        let (text, lower, upper) = if crlf {
                            let conv = |pos: usize| pos + text[..pos].matches('\n').count();
                            (text.replace('\n', "\r\n"), conv(lower), conv(upper))
                        } else {
                            (text, lower, upper)
                        };
                        out.push(Case { text, lower, upper: Some(upper), what: format!("distance: {before} {} before, {members} members, impossible character on member line {bad_line}", if filler == 0 { "assignments" } else { "comment lines" }), as_file: k % 5 == 0 });
                        k += 1;
                    }
                }
            }
        }
    }
    out
}

struct Obs {
    offset: usize,
    line: usize,
    ctx_off: usize,
    ctx_line: usize,
    excerpt: Vec<(usize, String, bool)>,
    display_line: Option<usize>,
    marked_line: Option<usize>,
    display_path: bool,
    ctx_path: bool,
}

const MARK: &str = " ◀▪▪▪▪▪▪▪▪▪▪ FAILED AT THIS LINE";

/// the entries of a rendering of `contextualize`: (label, text, marked) of every line ` <digits> │  <text>[MARK]`
pub fn parse_excerpt(rendered: &str) -> Vec<(usize, String, bool)> {
    let mut out = Vec::new();
    for l in rendered.split('\n') {
        let Some(rest) = l.strip_prefix(' ') else { continue };
        let digits: String = rest.chars().take_while(|c| c.is_ascii_digit()).collect();
        if digits.is_empty() {
            continue;
        }
        let Some(text) = rest[digits.len()..].strip_prefix(" │  ") else { continue };
        let (text, marked) = match text.strip_suffix(MARK) {
            Some(t) => (t, true),
            None => (text, false),
        };
        out.push((digits.parse().unwrap_or(0), text.to_string(), marked));
    }
    out
}

fn sx_excerpt(es: &[(usize, String, bool)]) -> String {
    sx_list(es.iter().map(|(l, t, m)| format!("( {l} {} {} )", hex(t), sx_bool(*m))))
}

fn show_excerpt(es: &[(usize, String, bool)]) -> String {
    es.iter().map(|(l, t, m)| format!("({l} {} {})", hex(t), sx_bool(*m))).collect::<Vec<_>>().join(" ")
}

fn first_number_after(s: &str, key: &str) -> Option<usize> {
    let i = s.find(key)? + key.len();
    let d: String = s[i..].chars().take_while(|c| c.is_ascii_digit()).collect();
    d.parse().ok()
}

fn observe(c: &Case, path: &std::path::Path) -> Result<Option<Obs>, String> {
    let text = c.text.clone();
    let as_file = c.as_file;
    let p = path.to_path_buf();
    let r = catch_unwind(AssertUnwindSafe(move || {
        let res = if as_file {
            std::fs::write(&p, &text).unwrap();
            let r = Compiler::<RasnBackend, _>::new().add_asn_by_path(&p).compile_to_string();
            let _ = std::fs::remove_file(&p);
            r
        } else {
            Compiler::<RasnBackend, _>::new().add_asn_literal(text.clone()).compile_to_string()
        };
        match res {
            Ok(_) => Ok(None),
            Err(e) => {
                let display = e.to_string();
                let ctx = e.contextualize(&text);
                match &e {
                    CompilerError::Lexer(LexerError { kind: LexerErrorType::MatchingError(rd) }) => {
                        let pstr = p.to_string_lossy().to_string();
                        let display_line = if display.contains("source file ") {
                            // source file <path>:<line>:<col>.
                            let tail = display.rsplit("source file ").next().unwrap_or("");
                            let parts: Vec<&str> = tail.trim_end_matches('.').rsplitn(3, ':').collect();
                            parts.get(1).and_then(|x| x.parse().ok())
                        } else {
                            first_number_after(&display, "line ")
                        };
                        let marked_line = ctx.lines().find(|l| l.contains('◀')).and_then(|l| {
                            let d: String = l.trim_start().chars().take_while(|c| c.is_ascii_digit()).collect();
                            d.parse().ok()
                        });
                        Ok(Some(Obs {
                            offset: rd.offset,
                            line: rd.line,
                            ctx_off: rd.context_start_offset,
                            ctx_line: rd.context_start_line,
                            excerpt: parse_excerpt(&ctx),
                            display_line,
                            marked_line,
                            display_path: display.contains(&pstr) && as_file,
                            ctx_path: ctx.contains(&pstr) && as_file,
                        }))
                    }
                    _ => Err(format!("not a syntax error: {display}")),
                }
            }
        }
    }));
    match r {
        Ok(x) => x,
        Err(p) => Err(format!("panic: {}", panic_msg(p))),
    }
}

pub fn run(cfg: &RunCfg) -> Report {
    let mut rep = Report::new(
        "C17",
        "[plus a systematic family: 0..24 assignments / comment lines before a malformed definition of 1..24 lines, impossible character on its first / middle / last line] module sets (1..3 modules in one source, 1..30 assignments each, LF and CRLF, three comment forms) with one corruption each: token deleted / replaced / a token inserted / a character that starts no ASN.1 token inserted; exhaustive over regions × token positions × corruption kinds for the ten smallest sets, seeded random for the rest; every fourth case is compiled from a file path. Oracle (Lean, on the real ReportData): offset inside the input, line = 1 + line breaks before the offset, offset not before the first token of the malformed definition and not after an inserted impossible character, Display / contextualize / ReportData show the same line, path reported iff file source. Plus the Input::slice hook run against the Lean model on random nested slice sequences",
    );
    let scratch = verif_root().join(".scratch");
    let _ = std::fs::create_dir_all(&scratch);
    let path = scratch.join(format!("c17-{}.asn", std::process::id()));
    let cases: Vec<Case> = if let Some(r) = &cfg.replay {
        let r = r.get("case").unwrap_or(r);
        vec![Case {
            text: r["text"].as_str().unwrap_or("").to_string(),
            lower: r["lower"].as_u64().unwrap_or(0) as usize,
            upper: r["upper"].as_u64().map(|x| x as usize),
            what: "replay".into(),
            as_file: r["as_file"].as_bool().unwrap_or(false),
        }]
    } else {
        gen_cases(cfg)
    };
    let mut reqs = Vec::new();
    let mut ctx_reqs = Vec::new();
    let mut meta = Vec::new();
    for (i, c) in cases.iter().enumerate() {
        rep.evaluations += 1;
        match observe(c, &path) {
            Ok(None) => rep.count("corruption-still-valid(not judged)"),
            Ok(Some(o)) => {
                rep.count(if c.as_file { "source:file" } else { "source:literal" });
                rep.count(&format!("corruption:{}", c.what.split(' ').next().unwrap_or("")));
                rep.distinct.insert(format!("{}|{}", c.what, c.text.len()));
                reqs.push(format!(
                    "c17report {} {} {} {} {} {} {} {} {} {}",
                    hex(&c.text),
                    o.offset,
                    o.line,
                    c.lower,
                    sx_opt(&c.upper),
                    sx_opt(&o.display_line),
                    sx_opt(&o.marked_line),
                    sx_bool(c.as_file),
                    sx_bool(o.display_path),
                    sx_bool(o.ctx_path)
                ));
                ctx_reqs.push(format!("c17ctx {} {} {} {} {} {}", hex(&c.text), o.ctx_off, o.ctx_line, o.offset, o.line, sx_excerpt(&o.excerpt)));
                meta.push((i, o));
            }
            Err(e) if e.starts_with("panic") => {
                rep.count("panic-while-reporting");
                rep.unsat("", false, json!({"why": e, "case": {"text": c.text, "lower": c.lower, "upper": c.upper, "as_file": c.as_file, "what": c.what}}));
            }
            Err(_) => rep.count("other-error-kind(not judged)"),
        }
    }
    match run_driver(&reqs) {
        Ok(ans) => {
            for (k, a) in ans.iter().enumerate() {
                let (i, o) = &meta[k];
                let c = &cases[*i];
                if k % 301 == 0 {
                    rep.sample(json!({"what": c.what, "offset": o.offset, "line": o.line, "lower": c.lower, "upper": c.upper, "answer": a}));
                }
                if let Some(msg) = a.strip_prefix("bad:") {
                    // class by the failing clause
                    let class = if msg.contains("before-the-first-token") { "C17_reported_before_the_malformed_definition" } else { "" };
                    rep.unsat(class, true, json!({"why": msg, "case": {"text": c.text, "lower": c.lower, "upper": c.upper, "as_file": c.as_file, "what": c.what,
                        "offset": o.offset, "line": o.line}}));
                } else if a != "ok" {
                    rep.harness_errors.push(format!("driver answer `{a}`"));
                }
            }
        }
        Err(e) => rep.harness_errors.push(e),
    }
    // the excerpt of contextualize on the real reports: Lean model (correspondence) and Lean spec (verdict)
    match run_driver(&ctx_reqs) {
        Ok(ans) => {
            for (k, a) in ans.iter().enumerate() {
                let (i, o) = &meta[k];
                let c = &cases[*i];
                let parts: Vec<&str> = a.split(" | ").collect();
                if parts.len() != 3 {
                    rep.harness_errors.push(format!("driver answer `{a}`"));
                    continue;
                }
                let agrees = parts[0] == show_excerpt(&o.excerpt);
                let case = json!({"text": c.text, "lower": c.lower, "upper": c.upper, "as_file": c.as_file, "what": c.what, "offset": o.offset, "line": o.line,
                    "context_start_offset": o.ctx_off, "context_start_line": o.ctx_line});
                if !agrees {
                    rep.disagree(json!({"excerpt_of": case.clone(), "model": parts[0], "impl": show_excerpt(&o.excerpt)}));
                }
                rep.count(&format!("excerpt:{}", parts[2]));
                if let Some(msg) = parts[1].strip_prefix("bad:") {
                    rep.unsat("", agrees, json!({"why": format!("excerpt: {msg}"), "case": case}));
                }
            }
        }
        Err(e) => rep.harness_errors.push(e),
    }
    // function-level correspondence: Input::slice via the hook vs the Lean model
    if cfg.replay.is_none() {
        slice_correspondence(cfg, &mut rep);
        context_correspondence(cfg, &mut rep);
    }
    rep
}

/// Function-level correspondence for `LexerError::contextualize` (public API, no hook): synthetic reports over
/// texts built from indented / unindented / blank / white-space-only / long / multi-byte lines, LF and CRLF.
/// The Lean model renders the same excerpt; the Lean spec judges the implementation's excerpt whenever the
/// report is consistent (context start and offset carry their true line numbers).
fn context_correspondence(cfg: &RunCfg, rep: &mut Report) {
    let mut rng = Rng::new(cfg.seed ^ 0xC0817);
    let n = cfg.budget(3000, 60000);
    let pieces = [
        "A ::= INTEGER", "  b BOOLEAN,", "}", "    ", "", "\t", "-- remark", "  -- indented remark", "Ünï ::= NULL", "  é 中 😀,", "END", "  END",
        "x", " x", "0", "B ::= SEQUENCE {", "  c INTEGER (0..255) DEFAULT 5,", "9z", "_a", "é", "  ",
    ];
    let long = "  member-with-a-very-long-name-that-goes-on-and-on INTEGER (0..281474976710655) DEFAULT 281474976710655,";
    let mut reqs = Vec::new();
    let mut impls = Vec::new();
    let mut descr = Vec::new();
    for it in 0..n {
        let crlf = it % 5 == 4;
        let n_lines = 1 + rng.below(if it % 7 == 0 { 14 } else { 7 });
        let mut src = String::new();
        for li in 0..n_lines {
            if it % 7 == 0 && rng.chance(1, 3) {
                src.push_str(long);
            } else {
                src.push_str(*rng.pick(&pieces));
            }
            if li + 1 < n_lines || rng.chance(1, 2) {
                src.push_str(if crlf { "\r\n" } else { "\n" });
            }
        }
        let bounds: Vec<usize> = (0..=src.len()).filter(|i| src.is_char_boundary(*i)).collect();
        let ctx_off = *rng.pick(&bounds);
        let later: Vec<usize> = bounds.iter().cloned().filter(|b| *b >= ctx_off).collect();
        let off = *rng.pick(&later);
        let nl = |p: usize| src[..p].matches('\n').count();
        // mostly consistent reports; sometimes arbitrary line numbers (correspondence only)
        let (ctx_line, line) = if rng.chance(1, 8) { (rng.below(1200), rng.below(1200)) } else { (1 + nl(ctx_off), 1 + nl(off)) };
        let err = LexerError {
            kind: LexerErrorType::MatchingError(ReportData {
                src_file: if it % 3 == 0 { Some("dir/file.asn".into()) } else { None },
                context_start_line: ctx_line,
                context_start_offset: ctx_off,
                line,
                offset: off,
                column: 1 + rng.below(9),
                reason: "synthetic".into(),
                unexpected_eof: false,
            }),
        };
        let src2 = src.clone();
        let rendered = catch_unwind(AssertUnwindSafe(move || err.contextualize(&src2)));
        rep.evaluations += 1;
        match rendered {
            Ok(r) => {
                let es = parse_excerpt(&r);
                reqs.push(format!("c17ctx {} {ctx_off} {ctx_line} {off} {line} {}", hex(&src), sx_excerpt(&es)));
                impls.push(show_excerpt(&es));
                descr.push(json!({"contextualize_src": src, "context_start_offset": ctx_off, "context_start_line": ctx_line, "offset": off, "line": line}));
            }
            Err(p) => {
                rep.count("panic-in-contextualize");
                rep.unsat("", false, json!({"why": format!("contextualize panics: {}", panic_msg(p)), "case": {"contextualize_src": src, "context_start_offset": ctx_off, "context_start_line": ctx_line, "offset": off, "line": line}}));
            }
        }
    }
    match run_driver(&reqs) {
        Ok(ans) => {
            for (k, a) in ans.iter().enumerate() {
                let parts: Vec<&str> = a.split(" | ").collect();
                if parts.len() != 3 {
                    rep.harness_errors.push(format!("driver answer `{a}`"));
                    continue;
                }
                let agrees = parts[0] == impls[k];
                if !agrees {
                    rep.disagree(json!({"case": descr[k].clone(), "model": parts[0], "impl": impls[k]}));
                }
                rep.count(&format!("excerpt-fn:{}", parts[2]));
                if parts[2] != "outside-dom" {
                    if let Some(msg) = parts[1].strip_prefix("bad:") {
                        rep.unsat("", agrees, json!({"why": format!("excerpt: {msg}"), "case": descr[k].clone()}));
                    }
                }
            }
        }
        Err(e) => rep.harness_errors.push(e),
    }
}

fn slice_correspondence(cfg: &RunCfg, rep: &mut Report) {
    let mut rng = Rng::new(cfg.seed ^ 0x511CE);
    let n = cfg.budget(1500, 40000);
    let pool = ["a", "b", "\n", "\r\n", " ", "é", "😀", "--", "x", "\n\n"];
    let mut reqs = Vec::new();
    let mut traces = Vec::new();
    let mut srcs = Vec::new();
    for _ in 0..n {
        let len = rng.below(24);
        let src: String = (0..len).map(|_| *rng.pick(&pool)).collect();
        // nested slices: suffixes and bounded slices at character boundaries
        let mut ops: Vec<(usize, Option<usize>)> = Vec::new();
        let mut cur = src.as_str();
        for _ in 0..rng.below(6) {
            let bounds: Vec<usize> = (0..=cur.len()).filter(|i| cur.is_char_boundary(*i)).collect();
            let a = *rng.pick(&bounds);
            let to = if rng.chance(1, 3) {
                let later: Vec<usize> = bounds.iter().cloned().filter(|b| *b >= a).collect();
                Some(*rng.pick(&later))
            } else {
                None
            };
            ops.push((a, to));
            cur = &cur[a..to.unwrap_or(cur.len())];
        }
        let trace = rasn_compiler::verif_hooks::input_slice_trace(&src, &ops);
        let t: Vec<String> = trace.iter().map(|(l, c, o, n)| format!("{l}:{c}:{o}:{n}")).collect();
        reqs.push(format!("c17slice {} {}", hex(&src), sx_list(ops.iter().map(|(a, b)| format!("( {a} {} )", sx_opt(b))))));
        traces.push(t.join(" "));
        srcs.push((src, ops));
        rep.evaluations += 1;
    }
    match run_driver(&reqs) {
        Ok(ans) => {
            for (k, a) in ans.iter().enumerate() {
                if *a != traces[k] {
                    rep.disagree(json!({"slice_src": srcs[k].0, "ops": format!("{:?}", srcs[k].1), "model": a, "impl": traces[k]}));
                } else {
                    rep.count("slice-trace-agrees");
                }
            }
        }
        Err(e) => rep.harness_errors.push(e),
    }
}

//! C10: no definition is lost silently; warnings are local; Err carries nothing.
use crate::modset::*;
use crate::pipe_obs::*;
use crate::report::{Report, RunCfg};
use crate::util::*;
use rasn_compiler::prelude::*;
use serde_json::{json, Value};
use std::collections::BTreeSet;

#[derive(Clone)]
pub struct Case {
    pub base: Vec<M>,
    /// (module index, definition index, fault kind)
    pub faults: Vec<(usize, usize, usize)>,
}

impl Case {
    pub fn to_json(&self) -> Value {
        json!({"base": self.base.iter().map(|m| m.to_json()).collect::<Vec<_>>(),
               "faults": self.faults.iter().map(|(a, b, c)| json!([a, b, c])).collect::<Vec<_>>()})
    }
    pub fn from_json(v: &Value) -> Case {
        Case {
            base: v["base"].as_array().map(|a| a.iter().map(M::from_json).collect()).unwrap_or_default(),
            faults: v["faults"]
                .as_array()
                .map(|a| a.iter().map(|t| (t[0].as_u64().unwrap_or(0) as usize, t[1].as_u64().unwrap_or(0) as usize, t[2].as_u64().unwrap_or(0) as usize)).collect())
                .unwrap_or_default(),
        }
    }
    pub fn faulted(&self) -> Vec<M> {
        let mut ms = self.base.clone();
        for (mi, di, k) in &self.faults {
            if let Some(d) = ms.get(*mi).and_then(|m| m.defs.get(*di)).cloned() {
                ms[*mi].defs[*di] = fault(&d, *k);
            }
        }
        ms
    }
}

pub fn gen_cases(cfg: &RunCfg) -> Vec<Case> {
    let mut rng = Rng::new(cfg.seed ^ 0xC10);
    let n = cfg.budget(120, 1500);
    let mut cases = Vec::new();
    for set in 0..n {
        // every eighth set: few assignments, *all* of them replaced (nothing is left to generate)
        let all_faulty = set % 8 == 7;
        let n_mod = if all_faulty { 1 + rng.below(2) } else { 1 + rng.below(4) };
        let mut mods = Vec::new();
        for m in 0..n_mod {
            let n_assign = if all_faulty { 1 + rng.below(3) } else if set % 3 == 0 { 1 + rng.below(4) } else { 1 + rng.below(40) };
            let mut g = Gen { rng: &mut rng, info_objects: !all_faulty };
            mods.push(g.module(&format!("Mod{set}x{m}"), &format!("{set}x{m}"), n_assign));
        }
        // assignments of the same name in different modules
        if n_mod > 1 && rng.chance(1, 3) {
            let from = rng.below(n_mod);
            let to = (from + 1 + rng.below(n_mod - 1)) % n_mod;
            let cands: Vec<D> = mods[from].defs.iter().filter(|d| d.refs.is_empty() && matches!(d.kind, Kind::Type | Kind::Value)).cloned().collect();
            if !cands.is_empty() {
                let d = rng.pick(&cands).clone();
                let at = rng.below(mods[to].defs.len() + 1);
                mods[to].defs.insert(at, d);
            }
        }
        // a value of a type whose name has no lower-case letter (finding witness; rare)
        if rng.chance(1, 25) {
            let mi = rng.below(n_mod);
            let letters: String = format!("{set}{mi}").chars().map(|c| (b'A' + (c as u8 - b'0')) as char).collect();
            let tn = format!("UPT{letters}");
            mods[mi].defs.push(D { text: format!("{tn} ::= SEQUENCE {{ a INTEGER }}"), name: tn.clone(), kind: Kind::Type, shape: "Up".into(), refs: vec![], fault: None });
            let vn = format!("vup{set}x{mi}e");
            mods[mi].defs.push(D { text: format!("{vn} {tn} ::= {{ a 1 }}"), name: vn, kind: Kind::Value, shape: "UpObj".into(), refs: vec![tn], fault: None });
        }
        // a struct value of a type whose name has lower-case letters only directly behind hyphens (`PDU-v2-s3-m1`): an
        // ordinary type reference, and the value an ordinary value
        if set % 5 == 3 {
            let mi = set % n_mod;
            let tn = format!("PDU-v2-s{set}-m{mi}");
            mods[mi].defs.push(D { text: format!("{tn} ::= SEQUENCE {{ a INTEGER, b BOOLEAN }}"), name: tn.clone(), kind: Kind::Type, shape: "Seq".into(), refs: vec![], fault: None });
            let vn = format!("hypv{set}x{mi}e");
            mods[mi].defs.push(D { text: format!("{vn} {tn} ::= {{ a 1, b TRUE }}"), name: vn, kind: Kind::Value, shape: "vSeq".into(), refs: vec![tn], fault: None });
        }
        // only type and value assignments with ordinary names are replaced
        let eligible: Vec<(usize, usize)> = mods
            .iter()
            .enumerate()
            .flat_map(|(mi, m)| m.defs.iter().enumerate().filter(|(_, d)| matches!(d.kind, Kind::Type | Kind::Value) && d.shape != "Up" && d.shape != "UpObj").map(move |(di, _)| (mi, di)))
            .collect();
        if all_faulty {
            let same = rng.chance(1, 2).then(|| [2usize, 4, 0, 1, 3][rng.below(5)]);
            let faults = eligible.iter().map(|(mi, di)| (*mi, *di, same.unwrap_or_else(|| rng.below(10)))).collect();
            cases.push(Case { base: mods, faults });
            continue;
        }
        let n_faults = (1 + rng.below(3)).min(eligible.len());
        let mut faults = Vec::new();
        let mut taken = BTreeSet::new();
        while faults.len() < n_faults {
            let (mi, di) = *rng.pick(&eligible);
            if taken.insert((mi, di)) {
                faults.push((mi, di, rng.below(10)));
            }
        }
        cases.push(Case { base: mods, faults });
    }
    cases
}

/// classification of every definition from the observation; a definition that depends on a replaced one and
/// is not represented may be the subject of a warning that names nobody
/// (e.g. "VideotexString values are currently unsupported!")
fn classify_c10(flat: &[(&M, &D)], obs: &Obs, deps: &BTreeSet<String>) -> Vec<(bool, bool)> {
    let mut cls = classify(flat, &obs.warnings);
    let names: Vec<&String> = flat.iter().map(|x| &x.1.name).collect();
    let attributed = flat.iter().zip(cls.iter()).filter(|((_, d), (v, g))| *v && !*g && !gen_warned(&obs.warnings, &d.name) && d.fault.is_some()).count();
    let anonymous_total = obs.warnings.iter().filter(|w| !names.iter().any(|n| w.contains(&format!(" {n}:")))).count();
    let mut pool = anonymous_total.saturating_sub(attributed);
    for (i, (m, d)) in flat.iter().enumerate() {
        if pool == 0 {
            break;
        }
        // a definition whose bare name is also defined elsewhere is accounted for by the collision finding, not here
        let collides = flat.iter().enumerate().any(|(k, (_, d2))| k != i && d2.name == d.name);
        if cls[i] == (true, true) && deps.contains(&d.name) && d.fault.is_none() && !d.no_output() && !collides {
            let mn = norm_mod(&m.name);
            let represented = obs.mods.iter().any(|(n, items)| n == &mn && items.iter().any(|(id, _)| id == &d.rust_name()));
            if !represented {
                cls[i] = (true, false);
                pool -= 1;
            }
        }
    }
    cls
}

struct Judged {
    disagreement: Option<Value>,
    /// (class, agrees, why)
    unsat: Vec<(String, bool, String)>,
    harness: Vec<String>,
    stats: Vec<String>,
}

/// accounting + model tie for one compilation of `mods`
fn judge_one(mods: &[M], obs: &Obs, ans: &str, label: &str, dependents_of_faults: &BTreeSet<String>) -> Judged {
    let mut j = Judged { disagreement: None, unsat: vec![], harness: vec![], stats: vec![] };
    let sources = vec![mods.to_vec()];
    let flat = flatten(&sources);
    match &obs.outcome {
        Outcome::Ok { .. } => {}
        Outcome::Err(e) => {
            j.unsat.push(("".into(), false, format!("{label}: a parseable input was answered with Err: {e}")));
            return j;
        }
        Outcome::Panic(p) => {
            j.unsat.push(("".into(), false, format!("{label}: panic: {p}")));
            return j;
        }
    }
    if let Some(e) = &obs.parse_error {
        j.harness.push(format!("{label}: {e}"));
        return j;
    }
    let events = match parse_events(ans) {
        Ok(e) => e,
        Err(e) => {
            j.harness.push(e);
            return j;
        }
    };
    if let Some(d) = compare(&events, &flat, obs, &sources) {
        j.disagreement = Some(json!({"compilation": label, "difference": d}));
    }
    // accounting (the spec): every definition is represented, or warned about, or of a no-output category
    let cls = classify_c10(&flat, obs, dependents_of_faults);
    for (i, (m, d)) in flat.iter().enumerate() {
        let mn = norm_mod(&m.name);
        let represented = obs.mods.iter().any(|(n, items)| n == &mn && items.iter().any(|(id, _)| id == &d.rust_name()));
        let (valid, gen) = cls[i];
        let warned = !valid || !gen;
        let later_same_name = flat[i + 1..].iter().any(|(_, d2)| d2.name == d.name);
        if d.no_output() {
            j.stats.push("accounted:no-output-category".into());
        } else if later_same_name {
            // the index keeps the last definition of a bare name; the replaced one is the subject of a warning of its own
            // (since the fix recorded as C10_bare_name_collision; the class is no longer listed as known)
            if crate::pipe_obs::replaced_warned(&obs.warnings).iter().any(|(wm, wn)| wm == &m.name && wn == &d.name) {
                j.stats.push("accounted:replaced-warning".into());
            } else {
                let model_drops = !events.iter().any(|e| matches!(e, Ev::E { module, name, .. } | Ev::G { module, name } | Ev::R { module, name } if module == &m.name && name == &d.name));
                j.unsat.push(("C10_bare_name_collision".into(), model_drops, format!("{label}: `{}` of module {} is not the subject of a warning although module {} defines the same name later and replaces it", d.name, m.name, flat[i + 1..].iter().find(|(_, d2)| d2.name == d.name).map(|x| x.0.name.clone()).unwrap_or_default())));
            }
        } else if represented {
            j.stats.push("accounted:represented".into());
            if warned && d.fault.is_none() {
                j.stats.push("represented-and-warned".into());
            }
        } else if warned {
            j.stats.push(if !valid { "accounted:validator-warning" } else { "accounted:generator-warning" }.into());
        } else if d.shape == "UpObj" {
            j.unsat.push(("C10_value_of_uppercase_type_read_as_object".into(), true, format!("{label}: value `{}` of type `{}` (no lower-case letter in the type name) is lexed as an information object: no output, no warning", d.name, d.refs.first().cloned().unwrap_or_default())));
        } else {
            j.unsat.push(("".into(), false, format!("{label}: `{}` ({}{}) of module {} is neither represented as `{}` nor the subject of a warning", d.name, d.kind.tag(), d.fault.as_ref().map(|f| format!(", replaced: {f}")).unwrap_or_default(), m.name, d.rust_name())));
        }
    }
    j
}

/// locality: the items of unaffected definitions are the same with and without the faults
fn locality(case: &Case, base: &Obs, faulted_mods: &[M], faulted: &Obs) -> Vec<String> {
    let mut out = Vec::new();
    let mut roots: Vec<String> = Vec::new();
    for (mi, di, _) in &case.faults {
        roots.push(case.base[*mi].defs[*di].name.clone());
        roots.push(faulted_mods[*mi].defs[*di].name.clone());
    }
    let mut affected = dependents(&case.base, &roots);
    affected.extend(dependents(faulted_mods, &roots));
    for m in &case.base {
        let mn = norm_mod(&m.name);
        let b: Vec<&(String, String)> = base.mods.iter().filter(|(n, _)| n == &mn).flat_map(|(_, i)| i.iter()).collect();
        let f: Vec<&(String, String)> = faulted.mods.iter().filter(|(n, _)| n == &mn).flat_map(|(_, i)| i.iter()).collect();
        let fm = faulted_mods.iter().find(|x| x.name == m.name).unwrap();
        let all_defs: Vec<D> = m.defs.iter().chain(fm.defs.iter()).cloned().collect();
        let check = |from: &Vec<&(String, String)>, to: &Vec<&(String, String)>, dir: &str, out: &mut Vec<String>| {
            for (id, text) in from.iter().map(|x| (&x.0, &x.1)) {
                if id == "use" || id == "extern" {
                    continue;
                }
                let Some(o) = owner(id, &all_defs) else {
                    continue;
                };
                if affected.contains(&o.name) {
                    continue;
                }
                if !to.iter().any(|(i2, t2)| i2 == id && t2 == text) {
                    out.push(format!("item `{id}` of `{}` (module {}; independent of the replaced definitions) {dir}", o.name, m.name));
                }
            }
        };
        check(&b, &f, "is missing or different once the faults are introduced", &mut out);
        check(&f, &b, "appears or differs only when the faults are present", &mut out);
    }
    out
}

fn err_carries_nothing(cfg: &RunCfg, rep: &mut Report) {
    let mut rng = Rng::new(cfg.seed ^ 0xE44);
    let scratch = verif_root().join(".scratch");
    let _ = std::fs::create_dir_all(&scratch);
    for k in 0..cfg.budget(12, 100) {
        let mut g = Gen { rng: &mut rng, info_objects: false };
        let m1 = g.module(&format!("Good{k}"), &format!("9{k}x0"), 3);
        let m2 = g.module(&format!("Bad{k}"), &format!("9{k}x1"), 3);
        let broken = m2.text().replacen("::=", [":=", "::= ::=", "= ", ""][k % 4], 2);
        let out = scratch.join(format!("c10-out-{}-{k}.rs", std::process::id()));
        let _ = std::fs::remove_file(&out);
        let (t1, t2, o2) = (m1.text(), broken.clone(), out.clone());
        let r = std::panic::catch_unwind(std::panic::AssertUnwindSafe(move || {
            Compiler::<RasnBackend, _>::new().add_asn_literal(t1).add_asn_literal(t2).set_output_path(o2).compile()
        }));
        rep.evaluations += 1;
        match r {
            Ok(Err(_)) => {
                rep.count("err:checked-no-output-written");
                if out.exists() {
                    let _ = std::fs::remove_file(&out);
                    rep.unsat("", false, json!({"why": "compile() returned Err but wrote bindings to the output path", "case": {"kind": "err", "sources": [m1.text(), broken]}}));
                }
            }
            Ok(Ok(_)) => {
                rep.count("err:corruption-still-valid(not judged)");
                let _ = std::fs::remove_file(&out);
            }
            Err(p) => {
                let _ = std::fs::remove_file(&out);
                rep.unsat("", false, json!({"why": format!("panic: {}", panic_msg(p)), "case": {"kind": "err", "sources": [m1.text(), broken]}}));
            }
        }
    }
}

/// A source whose last module is cut off at a boundary between definitions (its END is missing): either the whole
/// compilation fails, or the definitions of the cut module that are in the text are accounted for like any others.
fn truncated_last_module(cfg: &RunCfg, rep: &mut Report) {
    let mut rng = Rng::new(cfg.seed ^ 0x7C10);
    for k in 0..cfg.budget(16, 120) {
        let mut g = Gen { rng: &mut rng, info_objects: false };
        let m1 = g.module(&format!("Whole{k}"), &format!("8{k}x0"), 3);
        let m2 = g.module(&format!("Cut{k}"), &format!("8{k}x1"), 4);
        let t2 = m2.text();
        // cut in front of END, in front of the last definition, or (every fourth) behind the header
        let kept: Vec<&D> = match k % 4 {
            0 | 1 => m2.defs.iter().collect(),
            2 => m2.defs[..m2.defs.len() - 1].iter().collect(),
            _ => vec![],
        };
        let at = match k % 4 {
            0 | 1 => t2.rfind("END"),
            2 => m2.defs.last().and_then(|d| t2.find(&d.text)),
            _ => m2.defs.first().and_then(|d| t2.find(&d.text)),
        };
        let Some(at) = at else { continue };
        let cut = t2[..at].trim_end().to_string() + if k % 2 == 0 { "" } else { "\n" };
        // as the second module of one source, and as a source of its own behind a complete one
        let sources: Vec<String> = if k % 3 == 0 { vec![m1.text(), cut.clone()] } else { vec![format!("{}\n{}", m1.text(), cut)] };
        let src2 = sources.clone();
        let r = std::panic::catch_unwind(std::panic::AssertUnwindSafe(move || {
            let mut c = Compiler::<RasnBackend, _>::new().add_asn_literal(src2[0].clone());
            for s in &src2[1..] {
                c = c.add_asn_literal(s.clone());
            }
            c.compile_to_string()
        }));
        rep.evaluations += 1;
        match r {
            Ok(Err(_)) => rep.count("truncated:err"),
            Ok(Ok(res)) => {
                rep.count("truncated:ok");
                let squeezed: String = res.generated.chars().filter(|c| !c.is_whitespace()).collect();
                let warnings: Vec<String> = res.warnings.iter().map(|w| w.to_string()).collect();
                for d in kept.iter().filter(|d| !d.no_output() && d.shape != "UpObj") {
                    let rn = d.rust_name();
                    let represented = ["struct", "enum", "type", "static", "const"].iter().any(|kw| squeezed.contains(&format!("pub{kw}{rn}")));
                    let warned = warnings.iter().any(|w| w.contains(&format!(" {}:", d.name)));
                    if !represented && !warned {
                        rep.unsat("", false, json!({"why": format!("the compilation of a source whose last module is cut off (no END) is answered with Ok, and `{}` of that module is neither represented nor warned about", d.name), "case": {"kind": "truncated", "sources": sources}}));
                        break;
                    }
                }
            }
            Err(p) => rep.unsat("", false, json!({"why": format!("panic: {}", panic_msg(p)), "case": {"kind": "truncated", "sources": sources}})),
        }
    }
}

pub fn run(cfg: &RunCfg) -> Report {
    let mut rep = Report::new(
        "C10",
        "module sets (1..4 modules, 1..40 assignments each: 16 type shapes, aliases / wrappers / lists of earlier types, builtin and referenced-type values, classes + objects, parameterized templates + instances; differing tagging / extensibility defaults; in a third of the sets one assignment is repeated under the same name in another module) compiled without faults and with 1..3 assignments (in every eighth, small, set: all assignments) replaced by REAL / VideotexString / inverted range / unsupported value form / MACRO. Oracle: every assignment is represented under its mangled name in its own module, or named in a warning (REAL / VideotexString warnings carry no name: matched by count), or of a no-output category; items of definitions that do not depend on a replaced one are byte-identical with and without the faults; Err writes nothing; a source whose last module is cut off at a boundary between definitions gives Err, or accounts for what is in the text. Model tie: the sequence of emitted definitions equals the pipeline skeleton's",
    );
    let cases: Vec<Case> = if let Some(r) = &cfg.replay {
        let r = r.get("case").unwrap_or(r);
        if r["kind"] == "err" || r["kind"] == "truncated" {
            vec![]
        } else {
            vec![Case::from_json(r)]
        }
    } else {
        let mut v: Vec<Case> = load_corpus("C10").iter().map(Case::from_json).collect();
        v.extend(gen_cases(cfg));
        v
    };
    // compile everything first, then one driver batch
    let mut obs = Vec::new();
    let mut reqs = Vec::new();
    for c in &cases {
        let fm = c.faulted();
        let ob = observe(&render(&[c.base.clone()]));
        let of = observe(&render(&[fm.clone()]));
        let mut roots: Vec<String> = Vec::new();
        for (mi, di, _) in &c.faults {
            roots.push(c.base[*mi].defs[*di].name.clone());
            roots.push(fm[*mi].defs[*di].name.clone());
        }
        let mut deps = dependents(&c.base, &roots);
        deps.extend(dependents(&fm, &roots));
        for (ms, o, dp) in [(&c.base, &ob, BTreeSet::new()), (&fm, &of, deps)] {
            let sources = vec![ms.clone()];
            let flat = flatten(&sources);
            let cls = classify_c10(&flat, o, &dp);
            reqs.push(pipe_request(&flat, &cls));
        }
        obs.push((fm, ob, of));
    }
    let ans = match run_driver(&reqs) {
        Ok(a) => a,
        Err(e) => {
            rep.harness_errors.push(e);
            return rep;
        }
    };
    for (k, c) in cases.iter().enumerate() {
        let (fm, ob, of) = &obs[k];
        rep.evaluations += 2;
        let n_defs: usize = c.base.iter().map(|m| m.defs.len()).sum();
        rep.count(&format!("modules:{}", c.base.len()));
        rep.count(&format!("assignments:{}", match n_defs { 0..=4 => "1-4", 5..=20 => "5-20", 21..=60 => "21-60", _ => "61+" }));
        for (mi, di, _) in &c.faults {
            rep.count(&format!("fault:{}", fm[*mi].defs[*di].fault.clone().unwrap_or_default()));
        }
        rep.distinct.insert(format!("{:?}", c.faults.iter().map(|(m, d, k)| (fm[*m].defs[*d].fault.clone(), c.base[*m].defs[*d].shape.clone(), *k)).collect::<Vec<_>>()));
        let mut roots: Vec<String> = Vec::new();
        for (mi, di, _) in &c.faults {
            roots.push(c.base[*mi].defs[*di].name.clone());
            roots.push(fm[*mi].defs[*di].name.clone());
        }
        let mut deps = dependents(&c.base, &roots);
        deps.extend(dependents(fm, &roots));
        let jb = judge_one(&c.base, ob, &ans[2 * k], "without faults", &BTreeSet::new());
        let jf = judge_one(fm, of, &ans[2 * k + 1], "with faults", &deps);
        // the TypeScript backend: every replaced assignment is declared under its name or named in a warning
        if k % 4 == 3 || c.faults.len() == fm.iter().map(|m| m.defs.len()).sum::<usize>() {
            if let Outcome::Ok { generated, warnings } = compile_ts(&render(&[fm.clone()])) {
                rep.count("typescript-backend");
                let sq: String = generated.split_whitespace().collect::<Vec<_>>().join(" ");
                // warnings that name no definition may stand for one unrepresented definition each
                let all_names: Vec<&String> = fm.iter().flat_map(|m| m.defs.iter().map(|d| &d.name)).collect();
                let mut anonymous = warnings.iter().filter(|w| !all_names.iter().any(|n| w.contains(&format!(" {n}:")))).count();
                for (mi, di, _) in &c.faults {
                    let d = &fm[*mi].defs[*di];
                    let collides = fm.iter().flat_map(|m| m.defs.iter()).filter(|x| x.name == d.name).count() > 1;
                    let n = d.name.replace('-', "_");
                    let declared = ["type", "enum", "const", "interface"].iter().any(|kw| sq.contains(&format!("export {kw} {n} ")) || sq.contains(&format!("export {kw} {n}=")));
                    let warned = warnings.iter().any(|w| w.contains(&format!(" {}:", d.name)));
                    if !declared && !warned && !collides && anonymous > 0 {
                        anonymous -= 1;
                        continue;
                    }
                    if !declared && !warned && !collides {
                        rep.unsat("", false, json!({"why": format!("TypeScript backend: `{}` ({}) of module {} is neither declared nor named in a warning ({} warnings in all)", d.name, d.text, fm[*mi].name, warnings.len()), "case": c.to_json()}));
                    }
                }
            }
        }
        let mut loc = Vec::new();
        if matches!(ob.outcome, Outcome::Ok { .. }) && matches!(of.outcome, Outcome::Ok { .. }) && ob.parse_error.is_none() && of.parse_error.is_none() {
            loc = locality(c, ob, fm, of);
        }
        for j in [&jb, &jf] {
            for s in &j.stats {
                rep.count(s);
            }
            for h in &j.harness {
                rep.harness_errors.push(h.clone());
            }
            if let Some(d) = &j.disagreement {
                rep.disagree(json!({"difference": d, "case": c.to_json()}));
            }
            for (class, agrees, why) in &j.unsat {
                rep.unsat(class, *agrees, json!({"why": why, "case": c.to_json()}));
            }
        }
        for l in loc {
            rep.unsat("", false, json!({"why": l, "case": c.to_json()}));
        }
        if k % 40 == 0 {
            rep.sample(json!({"modules": c.base.iter().map(|m| m.name.clone()).collect::<Vec<_>>(), "faults": c.faults.iter().map(|(m, d, _)| fm[*m].defs[*d].text.clone()).collect::<Vec<_>>(),
                "warnings": of.warnings, "model": ans[2 * k + 1].chars().take(300).collect::<String>()}));
        }
    }
    if cfg.replay.is_none() || cfg.replay.as_ref().map(|r| { let k = &r.get("case").unwrap_or(r)["kind"]; k == "err" || k == "truncated" }).unwrap_or(false) {
        err_carries_nothing(cfg, &mut rep);
        truncated_last_module(cfg, &mut rep);
    }
    rep
}

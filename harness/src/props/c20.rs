//! C20: compile() delivers exactly the compiled text, and nothing on failure.
use crate::modset::*;
use crate::report::{Report, RunCfg};
use crate::util::*;
use rasn_compiler::prelude::*;
use rasn_compiler::OutputMode;
use serde_json::{json, Value};
use std::collections::BTreeMap;
use std::path::{Path, PathBuf};
use std::process::Command;

#[derive(Clone, Copy, Debug, PartialEq)]
pub enum SrcKind {
    Literal,
    Paths,
    PathIter,
}

#[derive(Clone, Debug)]
pub enum Dest {
    Absent,
    ExistingLonger,
    DirEmpty,
    DirWithStale,
    DevFull,
    MissingParent,
    MissingParentLong,
    ParentIsFile,
    ReadOnly,
    NoOutput,
}

const DESTS: [Dest; 10] = [Dest::Absent, Dest::ExistingLonger, Dest::DirEmpty, Dest::DirWithStale, Dest::DevFull, Dest::MissingParent, Dest::MissingParentLong, Dest::ParentIsFile, Dest::ReadOnly, Dest::NoOutput];

fn snapshot(root: &Path) -> BTreeMap<String, Vec<u8>> {
    fn walk(p: &Path, root: &Path, out: &mut BTreeMap<String, Vec<u8>>) {
        if let Ok(rd) = std::fs::read_dir(p) {
            for e in rd.flatten() {
                let path = e.path();
                let rel = path.strip_prefix(root).unwrap().to_string_lossy().to_string();
                if path.is_dir() {
                    out.insert(format!("{rel}/"), vec![]);
                    walk(&path, root, out);
                } else {
                    out.insert(rel, std::fs::read(&path).unwrap_or_default());
                }
            }
        }
    }
    let mut out = BTreeMap::new();
    walk(root, root, &mut out);
    out
}

fn compile_generic<B: Backend>(texts: &[String], paths: &[PathBuf], kind: SrcKind, mode: Option<OutputMode>) -> Result<Result<(Option<String>, usize), String>, String> {
    // returns Ok(Ok((generated when compile_to_string, n warnings))) | Ok(Err(error text)) | Err(panic)
    let texts = texts.to_vec();
    let paths = paths.to_vec();
    let r = std::panic::catch_unwind(std::panic::AssertUnwindSafe(move || {
        let c = Compiler::<B, _>::new();
        let c = match kind {
            SrcKind::Literal => {
                let mut it = texts.into_iter();
                let mut c = c.add_asn_literal(it.next().unwrap_or_default());
                for t in it {
                    c = c.add_asn_literal(t);
                }
                c
            }
            SrcKind::Paths => {
                let mut it = paths.into_iter();
                let mut c = c.add_asn_by_path(it.next().unwrap_or_default());
                for p in it {
                    c = c.add_asn_by_path(p);
                }
                c
            }
            SrcKind::PathIter => c.add_asn_sources_by_path(paths.into_iter()),
        };
        match mode {
            None => c.compile_to_string().map(|r| (Some(r.generated), r.warnings.len())).map_err(|e| e.to_string()),
            Some(m) => c.set_output_mode(m).compile().map(|w| (None, w.len())).map_err(|e| e.to_string()),
        }
    }));
    r.map_err(panic_msg)
}

fn compile_b(ts: bool, texts: &[String], paths: &[PathBuf], kind: SrcKind, mode: Option<OutputMode>) -> Result<Result<(Option<String>, usize), String>, String> {
    if ts {
        compile_generic::<TypescriptBackend>(texts, paths, kind, mode)
    } else {
        compile_generic::<RasnBackend>(texts, paths, kind, mode)
    }
}

struct Prepared {
    mode: Option<OutputMode>,
    /// path given to the compiler, relative to the work dir (for the model)
    given: Option<String>,
    nodes: Vec<(String, char)>,
}

fn prepare(work: &Path, d: &Dest, ext: &str, long: usize, root_user: bool) -> Option<Prepared> {
    let out = work.join("out");
    let _ = std::fs::remove_dir_all(&out);
    std::fs::create_dir_all(&out).ok()?;
    let junk: String = "// stale bindings that must not survive\n".repeat(long / 40 + 30);
    let rel = |p: &Path| p.strip_prefix(work).unwrap().to_string_lossy().to_string();
    Some(match d {
        Dest::Absent => {
            let p = out.join("absent").with_extension(&ext[1..]);
            Prepared { mode: Some(OutputMode::SingleFile(p.clone())), given: Some(rel(&p)), nodes: vec![(rel(&p), 'a')] }
        }
        Dest::ExistingLonger => {
            let p = out.join("existing").with_extension(&ext[1..]);
            std::fs::write(&p, &junk).ok()?;
            Prepared { mode: Some(OutputMode::SingleFile(p.clone())), given: Some(rel(&p)), nodes: vec![(rel(&p), 'f')] }
        }
        Dest::DirEmpty => {
            let p = out.join("dir");
            std::fs::create_dir_all(&p).ok()?;
            Prepared { mode: Some(OutputMode::SingleFile(p.clone())), given: Some(rel(&p)), nodes: vec![(rel(&p), 'd'), (format!("{}/generated{ext}", rel(&p)), 'a')] }
        }
        Dest::DirWithStale => {
            let p = out.join("dir");
            std::fs::create_dir_all(&p).ok()?;
            std::fs::write(p.join(format!("generated{ext}")), &junk).ok()?;
            std::fs::write(p.join("unrelated.txt"), "keep me").ok()?;
            Prepared { mode: Some(OutputMode::SingleFile(p.clone())), given: Some(rel(&p)), nodes: vec![(rel(&p), 'd'), (format!("{}/generated{ext}", rel(&p)), 'f')] }
        }
        Dest::DevFull => {
            if !Path::new("/dev/full").exists() {
                return None;
            }
            Prepared { mode: Some(OutputMode::SingleFile("/dev/full".into())), given: Some("/dev/full".into()), nodes: vec![("/dev/full".into(), 'b')] }
        }
        Dest::MissingParent => {
            let p = out.join("missing").join("x").with_extension(&ext[1..]);
            Prepared { mode: Some(OutputMode::SingleFile(p.clone())), given: Some(rel(&p)), nodes: vec![(rel(&p), 'b')] }
        }
        Dest::MissingParentLong => {
            // a failing write whose message quotes a path of several hundred bytes of multi-byte characters, shifted by 0..2 bytes
            let a = format!("{}{}", "a".repeat(long % 3), "語".repeat(70));
            let p = out.join("missing").join(a).join("ü€".repeat(40)).join("x").with_extension(&ext[1..]);
            Prepared { mode: Some(OutputMode::SingleFile(p.clone())), given: Some(rel(&p)), nodes: vec![(rel(&p), 'b')] }
        }
        Dest::ParentIsFile => {
            let f = out.join("plainfile");
            std::fs::write(&f, "i am a file").ok()?;
            let p = f.join("x").with_extension(&ext[1..]);
            Prepared { mode: Some(OutputMode::SingleFile(p.clone())), given: Some(rel(&p)), nodes: vec![(rel(&p), 'b')] }
        }
        Dest::ReadOnly => {
            if root_user {
                return None; // permissions do not bind uid 0
            }
            let p = out.join("readonly").with_extension(&ext[1..]);
            std::fs::write(&p, &junk).ok()?;
            let mut perm = std::fs::metadata(&p).ok()?.permissions();
            perm.set_readonly(true);
            std::fs::set_permissions(&p, perm).ok()?;
            Prepared { mode: Some(OutputMode::SingleFile(p.clone())), given: Some(rel(&p)), nodes: vec![(rel(&p), 'b')] }
        }
        Dest::NoOutput => Prepared { mode: Some(OutputMode::NoOutput), given: None, nodes: vec![] },
    })
}

fn is_root() -> bool {
    std::fs::read_to_string("/proc/self/status").map(|s| s.lines().any(|l| l.starts_with("Uid:") && l.split_whitespace().nth(1) == Some("0"))).unwrap_or(false)
}

fn cli_path() -> Result<PathBuf, String> {
    let target = verif_root().join("harness/target/cli");
    let out = Command::new("cargo")
        .args(["build", "--offline", "--quiet", "--manifest-path", "/repo/rasn-compiler/Cargo.toml", "--features", "cli", "--bin", "rasn_compiler_cli", "--target-dir"])
        .arg(&target)
        .env("CARGO_NET_OFFLINE", "true")
        .env_remove("RUSTFLAGS")
        .output()
        .map_err(|e| format!("cannot run cargo: {e}"))?;
    if !out.status.success() {
        return Err(format!("building rasn_compiler_cli failed: {}", String::from_utf8_lossy(&out.stderr).chars().take(600).collect::<String>()));
    }
    Ok(target.join("debug/rasn_compiler_cli"))
}

#[derive(Clone, Debug)]
enum T {
    F(String, String),
    D(String, Vec<T>),
}

fn materialize(t: &T, at: &Path) {
    match t {
        T::F(n, c) => {
            let _ = std::fs::write(at.join(n), c);
        }
        T::D(n, cs) => {
            let p = at.join(n);
            let _ = std::fs::create_dir_all(&p);
            for c in cs {
                materialize(c, &p);
            }
        }
    }
}

fn tree_sx(t: &T) -> String {
    match t {
        T::F(n, _) => format!("( f {} )", hex(n)),
        T::D(n, cs) => format!("( d {} {} )", hex(n), sx_list(cs.iter().map(tree_sx))),
    }
}

pub fn run(cfg: &RunCfg) -> Report {
    let mut rep = Report::new(
        "C20",
        "generated module sets and malformed variants x both backends x sources as literals / single paths / a path iterator x destinations {absent file, existing file with longer other content, empty directory, directory holding a stale generated.<ext> and an unrelated file, /dev/full, missing parent directory, parent is a file, read-only file (skipped for uid 0), NoOutput}: file-system snapshot before/after compile() compared with the Lean delivery model given compile_to_string()'s text; stdout mode through child processes (library via the probe binary, CLI --stdout); the CLI (rebuilt from /repo with --features cli) over -m files and -d directory trees (nested, hidden directories, other extensions, `-d .`) x {-o file, -o directory, --stdout, --no-output, default} x both backends, compared with the library on exactly the files the Lean search model finds, incl. exit status; asn1!: the macro's source wrapping (regenerated constants) compiled by the library vs the same snippet in an explicit AUTOMATIC TAGS module",
    );
    let work = verif_root().join(".scratch").join(format!("c20-{}", std::process::id()));
    let _ = std::fs::remove_dir_all(&work);
    let _ = std::fs::create_dir_all(work.join("src"));
    let root_user = is_root();
    if root_user {
        rep.count("uid0:read-only-destination-replaced-by-/dev/full-and-parent-is-file");
    }
    let mut rng = Rng::new(cfg.seed ^ 0xC20);
    let n_inputs = cfg.budget(6, 40);
    let mut reqs: Vec<String> = Vec::new();
    // (expectation closure data) per request
    struct Pending {
        before: BTreeMap<String, Vec<u8>>,
        after: BTreeMap<String, Vec<u8>>,
        result: Result<Result<(Option<String>, usize), String>, String>,
        expected: Option<String>,
        given: Option<String>,
        what: Value,
    }
    let mut pend: Vec<Pending> = Vec::new();
    let mut inputs: Vec<(Vec<String>, bool)> = Vec::new();
    for k in 0..n_inputs {
        let n_mod = 1 + rng.below(3);
        let mut mods = Vec::new();
        for m in 0..n_mod {
            let n_assign = 1 + rng.below(8);
            let mut g = Gen { rng: &mut rng, info_objects: false };
            mods.push(g.module(&format!("Mod{k}x{m}"), &format!("{k}x{m}"), n_assign));
        }
        let texts: Vec<String> = mods.iter().map(|m| m.text()).collect();
        inputs.push((texts.clone(), false));
        // malformed variant
        let mut bad = texts.clone();
        let last = bad.len() - 1;
        bad[last] = bad[last].replacen("::=", [":=", "::= ::=", "=:"][k % 3], 2);
        inputs.push((bad, true));
    }
    for (ii, (texts, malformed)) in inputs.iter().enumerate() {
        let paths: Vec<PathBuf> = texts
            .iter()
            .enumerate()
            .map(|(i, t)| {
                let p = work.join("src").join(src_name(ii, i));
                let _ = std::fs::write(&p, t);
                p
            })
            .collect();
        for ts in [false, true] {
            let ext = if ts { ".ts" } else { ".rs" };
            for kind in [SrcKind::Literal, SrcKind::Paths, SrcKind::PathIter] {
                let expected = match compile_b(ts, texts, &paths, kind, None) {
                    Ok(Ok((g, _))) => g,
                    Ok(Err(_)) => None,
                    Err(p) => {
                        rep.count("compile_to_string:panic(not judged here)");
                        let _ = p;
                        continue;
                    }
                };
                rep.count(if expected.is_some() { "compilation:ok" } else { "compilation:err" });
                if *malformed && expected.is_some() {
                    rep.count("malformed-variant-still-compiles");
                }
                for d in DESTS.iter() {
                    let long = expected.as_ref().map(|e| e.len()).unwrap_or(2000);
                    let Some(p) = prepare(&work, d, ext, long, root_user) else {
                        rep.count(&format!("dest:{d:?}:skipped"));
                        continue;
                    };
                    rep.evaluations += 1;
                    rep.count(&format!("dest:{d:?}"));
                    rep.distinct.insert(format!("{d:?}|{ts}|{kind:?}|{}", expected.is_some()));
                    let before = snapshot(&work.join("out"));
                    let result = compile_b(ts, texts, &paths, kind, p.mode);
                    let after = snapshot(&work.join("out"));
                    let mode_sx = match &p.given {
                        Some(g) => format!("( file {} )", hex(g)),
                        None => "none".into(),
                    };
                    reqs.push(format!(
                        "c20 {} {} {} {}",
                        hex(ext),
                        mode_sx,
                        sx_list(p.nodes.iter().map(|(n, k)| format!("( {} {k} )", hex(n)))),
                        sx_opt(&expected.as_ref().map(|e| hex(e)))
                    ));
                    pend.push(Pending {
                        before,
                        after,
                        result,
                        expected: expected.clone(),
                        given: p.given.clone(),
                        what: json!({"kind": "library", "sources": texts, "typescript": ts, "source_kind": format!("{kind:?}"), "destination": format!("{d:?}")}),
                    });
                }
            }
        }
    }
    match run_driver(&reqs) {
        Ok(ans) => {
            for (a, p) in ans.iter().zip(pend.iter()) {
                let obs_ok = matches!(p.result, Ok(Ok(_)));
                if let Err(pm) = &p.result {
                    rep.unsat("", false, json!({"why": format!("compile() panicked: {pm}"), "case": p.what}));
                    continue;
                }
                let model_ok = a.starts_with("ok");
                if a == "ok ?" || a == "bad-request" {
                    rep.harness_errors.push(format!("driver answer `{a}`"));
                    continue;
                }
                if model_ok != obs_ok {
                    rep.disagree(json!({"difference": format!("model: {a}; compile() returned {}", match &p.result { Ok(Ok(_)) => "Ok".to_string(), Ok(Err(e)) => format!("Err({e})"), Err(_) => "panic".into() }), "case": p.what}));
                }
                // the spec on the observed file system
                let out_prefix = "out/";
                let mut expected_after = p.before.clone();
                if obs_ok {
                    if let (Some(text), Some(given)) = (&p.expected, &p.given) {
                        if let Some(rel) = given.strip_prefix(out_prefix) {
                            let key = if p.before.contains_key(&format!("{rel}/")) {
                                format!("{rel}/generated{}", if p.what["typescript"] == true { ".ts" } else { ".rs" })
                            } else {
                                rel.to_string()
                            };
                            expected_after.insert(key.clone(), text.as_bytes().to_vec());
                            // model's destination
                            if let Some(h) = a.strip_prefix("ok file ") {
                                let md = unhex(&format!("x{h}")).unwrap_or_default();
                                if md != format!("{out_prefix}{key}") {
                                    rep.disagree(json!({"difference": format!("model writes {md}, expected destination {out_prefix}{key}"), "case": p.what}));
                                }
                            }
                        }
                    }
                    if p.expected.is_none() {
                        rep.unsat("", model_ok == obs_ok, json!({"why": "compile() returned Ok although compile_to_string() fails on the same input", "case": p.what}));
                    }
                } else if p.expected.is_some() && model_ok {
                    rep.unsat("", false, json!({"why": format!("compile() failed on a writable destination: {:?}", p.result), "case": p.what}));
                }
                if p.after != expected_after {
                    let diffs: Vec<String> = p
                        .after
                        .keys()
                        .chain(expected_after.keys())
                        .filter(|k| p.after.get(*k) != expected_after.get(*k))
                        .map(|k| format!("{k}: {} bytes, expected {}", p.after.get(k).map(|v| v.len() as i64).unwrap_or(-1), expected_after.get(k).map(|v| v.len() as i64).unwrap_or(-1)))
                        .collect();
                    rep.unsat("", model_ok == obs_ok, json!({"why": format!("file system after compile() ({}) is not `before` with exactly the compiled text at the destination: {}", if obs_ok { "Ok" } else { "Err" }, diffs.join("; ")), "case": p.what}));
                }
            }
        }
        Err(e) => rep.harness_errors.push(e),
    }
    children(cfg, &mut rep, &work, &inputs);
    macro_wrapping(cfg, &mut rep);
    builder_sequences(&mut rep, &work);
    cli_warnings(&mut rep, &work);
    let _ = std::fs::remove_dir_all(&work);
    rep
}

/// source file names with characters that argument parsers like to give a meaning to: a path is a path
fn src_name(ii: usize, i: usize) -> String {
    let shapes = ["in{}x{}.asn", "in{},v{}.asn", "in {} x{}.asn", "in{}=x{}.asn", "ïn{}x{};b.asn1", "in{}x{}.asn"];
    shapes[(ii + i) % shapes.len()].replacen("{}", &ii.to_string(), 1).replacen("{}", &i.to_string(), 1)
}

/// the environment a build script or `cargo run` gives the compiler: CARGO names cargo's executable. The path is one
/// next to which no rustfmt exists, so the bindings stay unformatted as in the harness's own process
fn run_child_under_cargo(cmd: &mut Command) -> (i32, Vec<u8>, String) {
    match cmd.env("CARGO", "/nonexistent-cargo-home/bin/cargo").env("CARGO_MANIFEST_DIR", "/nonexistent-cargo-home/pkg").env("OUT_DIR", "/nonexistent-cargo-home/out").env_remove("CARGO_HOME").output() {
        Ok(o) => (o.status.code().unwrap_or(-1), o.stdout, String::from_utf8_lossy(&o.stderr).to_string()),
        Err(e) => (-2, vec![], e.to_string()),
    }
}

fn run_child(cmd: &mut Command) -> (i32, Vec<u8>, String) {
    match cmd.env_remove("CARGO").env_remove("CARGO_HOME").output() {
        Ok(o) => (o.status.code().unwrap_or(-1), o.stdout, String::from_utf8_lossy(&o.stderr).to_string()),
        Err(e) => (-2, vec![], e.to_string()),
    }
}

fn children(cfg: &RunCfg, rep: &mut Report, work: &Path, inputs: &[(Vec<String>, bool)]) {
    let cli = match cli_path() {
        Ok(p) => p,
        Err(e) => {
            rep.harness_errors.push(e);
            return;
        }
    };
    let probe = verif_root().join("harness/target/debug/probe");
    let mut rng = Rng::new(cfg.seed ^ 0xC11C);
    // (1) stdout mode of the library and of the CLI on -m files
    for (ii, (texts, malformed)) in inputs.iter().enumerate() {
        let paths: Vec<PathBuf> = (0..texts.len()).map(|i| work.join("src").join(src_name(ii, i))).collect();
        for ts in [false, true] {
            let expected = compile_b(ts, texts, &paths, SrcKind::PathIter, None).ok().and_then(|r| r.ok()).and_then(|x| x.0);
            // vacuity guard: the well-formed inputs must compile from their files, or nothing below tests the Ok side
            rep.count(if expected.is_some() { "child:library-returns-ok" } else { "child:library-returns-err" });
            if !*malformed && expected.is_none() {
                rep.harness_errors.push(format!("well-formed input {ii} does not compile from its files {:?}", paths));
            }
            // library, OutputMode::Stdout, in a child
            let mut c = Command::new(&probe);
            c.arg("--compile-stdout");
            if ts {
                c.arg("--ts");
            }
            c.args(&paths);
            // every other input: the child runs as cargo runs a build script (CARGO set)
            let under_cargo = ii % 2 == 1;
            if under_cargo {
                c.arg("--under-cargo");
            }
            let (code, out, _) = if under_cargo { run_child_under_cargo(&mut c) } else { run_child(&mut c) };
            rep.evaluations += 1;
            rep.count(if under_cargo { "child:library-stdout:under-cargo" } else { "child:library-stdout" });
            let what = json!({"kind": "library-stdout", "sources": texts, "typescript": ts, "under_cargo": under_cargo});
            match &expected {
                Some(t) => {
                    if code != 0 || out != t.as_bytes() {
                        rep.unsat("", false, json!({"why": format!("compile() with OutputMode::Stdout: exit {code}, {} bytes on stdout, compile_to_string() text has {}", out.len(), t.len()), "case": what}));
                    }
                }
                None => {
                    if code == 0 || !out.is_empty() {
                        rep.unsat("", false, json!({"why": format!("failed compilation: exit {code}, {} bytes on stdout", out.len()), "case": what}));
                    }
                }
            }
            // CLI --stdout / --no-output / -o file / -o dir / default
            for variant in 0..6 {
                let dest = work.join("cliout");
                let _ = std::fs::remove_dir_all(&dest);
                let _ = std::fs::create_dir_all(&dest);
                let stale = "// stale\n".repeat(expected.as_ref().map(|e| e.len()).unwrap_or(100) / 5 + 50);
                let ext = if ts { "ts" } else { "rs" };
                let mut c = Command::new(&cli);
                c.current_dir(&dest);
                if ts {
                    c.args(["-b", "typescript"]);
                }
                c.arg("-m").args(&paths);
                let target: Option<PathBuf> = match variant {
                    0 => {
                        c.arg("--stdout");
                        None
                    }
                    1 => {
                        c.arg("--no-output");
                        None
                    }
                    2 => {
                        let f = dest.join(format!("bindings.{ext}"));
                        let _ = std::fs::write(&f, &stale);
                        c.arg("-o").arg(&f);
                        Some(f)
                    }
                    3 => {
                        let d = dest.join("sub");
                        let _ = std::fs::create_dir_all(&d);
                        c.arg("-o").arg(&d);
                        Some(d.join(format!("generated.{ext}")))
                    }
                    5 => {
                        // a destination whose parent directory does not exist: the library's compile() is an Err there
                        // (it creates no directories), and nothing may be left behind, compilation failed or not
                        let f = dest.join("missing").join("deeper").join(format!("out.{ext}"));
                        c.arg("-o").arg(&f);
                        let before = snapshot(&dest);
                        let (code, out, _) = run_child(&mut c);
                        rep.evaluations += 1;
                        rep.count("child:cli-m:missing-parent");
                        let what = json!({"kind": "cli", "sources": texts, "typescript": ts, "variant": variant});
                        if code == 0 {
                            rep.unsat("", false, json!({"why": "CLI exits 0 for a destination whose parent directory does not exist, where compile() returns an Err", "case": what}));
                        }
                        if dest.join("missing").exists() || snapshot(&dest) != before || !out.is_empty() {
                            rep.unsat("", false, json!({"why": format!("CLI with a destination in a missing directory left something behind (directory created: {}, stdout {} bytes)", dest.join("missing").exists(), out.len()), "case": what}));
                        }
                        continue;
                    }
                    _ => Some(dest.join(format!("generated.{ext}"))),
                };
                let before = snapshot(&dest);
                // every other input: the CLI is started as `cargo run` starts it (CARGO set)
                let (code, out, err) = if ii % 2 == 0 { run_child_under_cargo(&mut c) } else { run_child(&mut c) };
                let after = snapshot(&dest);
                rep.evaluations += 1;
                rep.count(&format!("child:cli-m:{}", ["stdout", "no-output", "o-file", "o-dir", "default", "missing-parent"][variant]));
                let what = json!({"kind": "cli", "sources": texts, "typescript": ts, "variant": variant, "under_cargo": ii % 2 == 0});
                let mut want = before.clone();
                let mut want_out: Vec<u8> = vec![];
                if let Some(t) = &expected {
                    match (&target, variant) {
                        (None, 0) => want_out = t.as_bytes().to_vec(),
                        (Some(p), _) => {
                            want.insert(p.strip_prefix(&dest).unwrap().to_string_lossy().to_string(), t.as_bytes().to_vec());
                        }
                        _ => {}
                    }
                }
                let ok_expected = expected.is_some();
                if (code == 0) != ok_expected {
                    rep.unsat("", false, json!({"why": format!("CLI exit status {code} but the library returns {}: {}", if ok_expected { "Ok" } else { "Err" }, err.chars().take(200).collect::<String>()), "case": what}));
                }
                if out != want_out {
                    rep.unsat("", false, json!({"why": format!("CLI stdout has {} bytes, expected {}", out.len(), want_out.len()), "case": what}));
                }
                if after != want {
                    rep.unsat("", false, json!({"why": format!("CLI left the destination directory in a state other than `before` + exactly the library's text: {:?} vs {:?}", after.iter().map(|(k, v)| (k.clone(), v.len())).collect::<Vec<_>>(), want.iter().map(|(k, v)| (k.clone(), v.len())).collect::<Vec<_>>()), "case": what}));
                }
            }
        }
    }
    // (2) -d directory trees
    let n_trees = cfg.budget(10, 80);
    let mut reqs = Vec::new();
    let mut trees = Vec::new();
    for k in 0..n_trees {
        let mut counter = 0;
        let mut mk_file = |rng: &mut Rng, counter: &mut usize| -> T {
            *counter += 1;
            let ext = *rng.pick(&[".asn", ".asn1", ".asn", ".asn1", ".txt", ".asn2", ".ASN", ""]);
            let hidden = rng.chance(1, 6);
            let name = format!("{}m{k}x{}{ext}", if hidden { "." } else { "" }, *counter);
            let modname = format!("Tree{k}x{}", *counter);
            T::F(name, format!("{modname} DEFINITIONS AUTOMATIC TAGS ::= BEGIN\nTy{k}x{}e ::= INTEGER (0..{})\nEND\n", *counter, *counter))
        };
        fn mk_dir(rng: &mut Rng, depth: usize, counter: &mut usize, mk_file: &mut dyn FnMut(&mut Rng, &mut usize) -> T, k: usize) -> Vec<T> {
            let mut out = Vec::new();
            for _ in 0..rng.below(4) {
                out.push(mk_file(rng, counter));
            }
            if depth < 3 {
                for d in 0..rng.below(3) {
                    let name = format!("{}sub{depth}x{d}", if rng.chance(1, 3) { "." } else { "" });
                    let cs = mk_dir(rng, depth + 1, counter, mk_file, k);
                    out.push(T::D(name, cs));
                }
            }
            out
        }
        let root_name = *rng.pick(&["specs", ".specs", "my specs", "a.asn"]);
        let children = mk_dir(&mut rng, 0, &mut counter, &mut mk_file, k);
        let t = T::D(root_name.to_string(), children);
        reqs.push(format!("c20find {}", tree_sx(&t)));
        trees.push(t);
    }
    let found = match run_driver(&reqs) {
        Ok(a) => a,
        Err(e) => {
            rep.harness_errors.push(e);
            return;
        }
    };
    for (k, t) in trees.iter().enumerate() {
        let base = work.join(format!("tree{k}"));
        let _ = std::fs::remove_dir_all(&base);
        let _ = std::fs::create_dir_all(&base);
        materialize(t, &base);
        let T::D(root_name, _) = t else { continue };
        let model_paths: Vec<PathBuf> = if found[k] == "-" { vec![] } else { found[k].split(' ').filter_map(|h| unhex(&format!("x{h}"))).map(|p| base.join(p)).collect() };
        let mut sorted = model_paths.clone();
        sorted.sort();
        for ts in [false, true] {
            let expected = if sorted.is_empty() { None } else { compile_b(ts, &[], &sorted, SrcKind::PathIter, None).ok().and_then(|r| r.ok()).and_then(|x| x.0) };
            for dot in [false, true] {
                let mut c = Command::new(&cli);
                if dot {
                    c.current_dir(base.join(root_name));
                    c.args(["-d", "."]);
                } else {
                    c.current_dir(&base);
                    c.arg("-d").arg(root_name);
                }
                if ts {
                    c.args(["-b", "typescript"]);
                }
                c.arg("--stdout");
                let (code, out, err) = run_child(&mut c);
                rep.evaluations += 1;
                rep.count(if dot { "child:cli-d-dot" } else { "child:cli-d-named" });
                rep.count(&format!("tree:found:{}", sorted.len().min(5)));
                let what = json!({"kind": "cli-directory", "tree": format!("{t:?}"), "typescript": ts, "dot": dot});
                let infos: Vec<&str> = err.lines().filter(|l| l.contains("Found ASN1 module")).collect();
                if infos.len() != sorted.len() {
                    rep.disagree(json!({"difference": format!("the search model finds {} module files, the CLI reports {}", sorted.len(), infos.len()), "case": what}));
                }
                match &expected {
                    Some(text) => {
                        if code != 0 || out != text.as_bytes() {
                            rep.unsat("", infos.len() == sorted.len(), json!({"why": format!("CLI -d: exit {code}, {} bytes on stdout; the library on the {} files of the tree ending in .asn/.asn1 gives {} bytes. stderr: {}", out.len(), sorted.len(), text.len(), err.chars().take(300).collect::<String>()), "case": what}));
                        }
                    }
                    None => {
                        if code == 0 {
                            rep.unsat("", infos.len() == sorted.len(), json!({"why": format!("CLI -d succeeds although the library fails / there are no module files ({} found)", sorted.len()), "case": what}));
                        }
                    }
                }
            }
        }
    }
}

/// The CLI reports what the library returns: as many warnings on stderr as `compile()` gives, equal ones included.
fn cli_warnings(rep: &mut Report, work: &Path) {
    let Ok(cli) = cli_path() else { return };
    let dir = work.join("warn");
    let _ = std::fs::remove_dir_all(&dir);
    let _ = std::fs::create_dir_all(&dir);
    let text = "Warn-Mod DEFINITIONS AUTOMATIC TAGS ::= BEGIN\nAa ::= REAL\nAb ::= REAL\nBa ::= VideotexString\nBb ::= VideotexString\nOk ::= BOOLEAN\nBad ::= INTEGER (5..1)\nEND\n";
    let f = dir.join("w.asn");
    let _ = std::fs::write(&f, text);
    let lib = Compiler::<RasnBackend, _>::new().add_asn_by_path(&f).set_output_mode(OutputMode::NoOutput).compile();
    let Ok(lib_warnings) = lib else {
        rep.harness_errors.push("cli_warnings: the module with unsupported types does not compile".into());
        return;
    };
    let mut c = Command::new(&cli);
    c.current_dir(&dir).arg("-m").arg(&f).arg("--no-output");
    let (code, _, err) = run_child(&mut c);
    rep.evaluations += 1;
    rep.count("child:cli-warnings");
    let printed = err.lines().filter(|l| l.contains("warning")).count();
    if code != 0 || printed != lib_warnings.len() {
        rep.unsat("", false, json!({"why": format!("the library returns {} warnings for the module, the CLI (exit {code}) prints {printed} warning lines", lib_warnings.len()), "case": {"kind": "cli-warnings", "sources": [text]}}));
    }
}

/// The builder may be fed in any order: literals, single paths and path lists mixed; the output mode before or
/// after; the backend swapped with `with_backend`. What is delivered is the compilation of *all* sources, at the
/// destination named, in the language of the backend that finally compiles.
fn builder_sequences(rep: &mut Report, work: &Path) {
    let dir = work.join("seq");
    let _ = std::fs::remove_dir_all(&dir);
    let _ = std::fs::create_dir_all(dir.join("out"));
    let ma = "Seq-A DEFINITIONS AUTOMATIC TAGS ::= BEGIN\nAa ::= INTEGER (0..7)\nEND\n";
    let mb = "Seq-B DEFINITIONS AUTOMATIC TAGS ::= BEGIN\nBb ::= BOOLEAN\nEND\n";
    let mc = "Seq-C DEFINITIONS AUTOMATIC TAGS ::= BEGIN\nCc ::= NULL\nEND\n";
    let (pa, pb, pc) = (dir.join("a.asn"), dir.join("b.asn"), dir.join("c.asn"));
    for (p, t) in [(&pa, ma), (&pb, mb), (&pc, mc)] {
        let _ = std::fs::write(p, t);
    }
    let all = |ts: bool| -> Option<String> {
        let r = if ts {
            Compiler::<TypescriptBackend, _>::new().add_asn_literal(ma).add_asn_literal(mb).add_asn_literal(mc).compile_to_string()
        } else {
            Compiler::<RasnBackend, _>::new().add_asn_literal(ma).add_asn_literal(mb).add_asn_literal(mc).compile_to_string()
        };
        r.ok().map(|r| r.generated)
    };
    let (Some(want_rs), Some(want_ts)) = (all(false), all(true)) else {
        rep.harness_errors.push("builder sequences: the three modules do not compile".into());
        return;
    };
    let mut check = |label: &str, got: Result<String, String>, want: &String| {
        rep.evaluations += 1;
        rep.count("builder-sequence");
        match got {
            Ok(g) if &g == want => {}
            Ok(g) => rep.unsat("", false, json!({"why": format!("builder sequence `{label}`: the result differs from the compilation of all three sources ({} vs {} bytes)", g.len(), want.len()), "case": {"kind": "builder-sequence", "sequence": label}})),
            Err(e) => rep.unsat("", false, json!({"why": format!("builder sequence `{label}`: {e}"), "case": {"kind": "builder-sequence", "sequence": label}})),
        }
    };
    let s = |r: Result<rasn_compiler::CompileResult, CompilerError>| r.map(|x| x.generated).map_err(|e| e.to_string());
    check("literal A, path list [B, C]", s(Compiler::<RasnBackend, _>::new().add_asn_literal(ma).add_asn_sources_by_path(vec![pb.clone(), pc.clone()].into_iter()).compile_to_string()), &want_rs);
    check("path A, path list [B, C]", s(Compiler::<RasnBackend, _>::new().add_asn_by_path(&pa).add_asn_sources_by_path(vec![pb.clone(), pc.clone()].into_iter()).compile_to_string()), &want_rs);
    check("path list [A], literal B, path C", s(Compiler::<RasnBackend, _>::new().add_asn_sources_by_path(vec![pa.clone()].into_iter()).add_asn_literal(mb).add_asn_by_path(&pc).compile_to_string()), &want_rs);
    check("path list [A, B], path list [C]", s(Compiler::<RasnBackend, _>::new().add_asn_sources_by_path(vec![pa.clone(), pb.clone()].into_iter()).add_asn_sources_by_path(vec![pc.clone()].into_iter()).compile_to_string()), &want_rs);
    check("literal A, literal B, path list [C] (TypeScript)", s(Compiler::<TypescriptBackend, _>::new().add_asn_literal(ma).add_asn_literal(mb).add_asn_sources_by_path(vec![pc.clone()].into_iter()).compile_to_string()), &want_ts);
    // the order (and multiplicity) of the paths of a path list is the order of the sources: two files that define the same
    // name differently, given in descending file-name order, and one file given twice, against the same texts as literals
    {
        let mz = "Ord-Mod DEFINITIONS AUTOMATIC TAGS ::= BEGIN\nShared ::= BOOLEAN\nOnlyZ ::= NULL\nEND\n";
        let m1 = "Ord-Mod DEFINITIONS AUTOMATIC TAGS ::= BEGIN\nShared ::= INTEGER (0..7)\nOnlyA ::= OCTET STRING\nEND\n";
        let (pz, p1) = (dir.join("z-last.asn"), dir.join("a-first.asn"));
        let _ = std::fs::write(&pz, mz);
        let _ = std::fs::write(&p1, m1);
        let full = |r: Result<rasn_compiler::CompileResult, CompilerError>| r.map(|x| format!("{}\n-- warnings: {:?}", x.generated, x.warnings.iter().map(|w| w.to_string()).collect::<Vec<_>>())).map_err(|e| e.to_string());
        for ts in [false, true] {
            for (label, paths, texts) in [
                ("path list [z-last, a-first] vs the literals in that order", vec![pz.clone(), p1.clone()], vec![mz, m1]),
                ("path list [a-first, z-last] vs the literals in that order", vec![p1.clone(), pz.clone()], vec![m1, mz]),
                ("path list [z-last, a-first, z-last] vs the literals in that order", vec![pz.clone(), p1.clone(), pz.clone()], vec![mz, m1, mz]),
                ("path list [a-first, a-first] vs the literals in that order", vec![p1.clone(), p1.clone()], vec![m1, m1]),
            ] {
                let (got, want) = if ts {
                    let mut c = Compiler::<TypescriptBackend, _>::new().add_asn_literal(texts[0]);
                    for t in &texts[1..] {
                        c = c.add_asn_literal(*t);
                    }
                    (full(Compiler::<TypescriptBackend, _>::new().add_asn_sources_by_path(paths.into_iter()).compile_to_string()), full(c.compile_to_string()))
                } else {
                    let mut c = Compiler::<RasnBackend, _>::new().add_asn_literal(texts[0]);
                    for t in &texts[1..] {
                        c = c.add_asn_literal(*t);
                    }
                    (full(Compiler::<RasnBackend, _>::new().add_asn_sources_by_path(paths.into_iter()).compile_to_string()), full(c.compile_to_string()))
                };
                match want {
                    Ok(w) => check(&format!("{label}{}", if ts { " (TypeScript)" } else { "" }), got, &w),
                    Err(e) => check(&format!("{label}: the literals do not compile"), Err(e), &String::new()),
                }
            }
        }
    }
    // output mode set first / in between / last; backend swapped afterwards: the file is the final backend's
    let out = dir.join("out");
    let read = |name: &str| std::fs::read_to_string(out.join(name)).map_err(|e| format!("{name}: {e}"));
    let clean = || {
        let _ = std::fs::remove_dir_all(&out);
        let _ = std::fs::create_dir_all(&out);
    };
    clean();
    let r = Compiler::<RasnBackend, _>::new().set_output_mode(OutputMode::SingleFile(out.clone())).add_asn_literal(ma).add_asn_sources_by_path(vec![pb.clone(), pc.clone()].into_iter()).compile();
    check("output directory first, literal A, path list [B, C]", r.map_err(|e| e.to_string()).and_then(|_| read("generated.rs")), &want_rs);
    clean();
    let r = Compiler::<RasnBackend, _>::new().add_asn_literal(ma).add_asn_literal(mb).add_asn_literal(mc).set_output_mode(OutputMode::SingleFile(out.clone())).with_backend(TypescriptBackend::default()).compile();
    check("sources, output directory, then with_backend(TypeScript)", r.map_err(|e| e.to_string()).and_then(|_| read("generated.ts")), &want_ts);
    let leftover: Vec<String> = std::fs::read_dir(&out).map(|d| d.filter_map(|e| e.ok().map(|e| e.file_name().to_string_lossy().to_string())).collect()).unwrap_or_default();
    check("with_backend(TypeScript): the output directory holds exactly generated.ts", if leftover == vec!["generated.ts".to_string()] { Ok(want_ts.clone()) } else { Err(format!("it holds {:?}", leftover)) }, &want_ts);
    clean();
    let r = Compiler::<TypescriptBackend, _>::new().set_output_mode(OutputMode::SingleFile(out.clone())).with_backend(RasnBackend::default()).add_asn_literal(ma).add_asn_literal(mb).add_asn_literal(mc).compile();
    check("output directory, with_backend(rasn), then sources", r.map_err(|e| e.to_string()).and_then(|_| read("generated.rs")), &want_rs);
    // a configured backend travels through every builder state: whatever the order of the calls, what compile() writes
    // is what compile_to_string() returns for that configuration
    let md = "Seq-D DEFINITIONS AUTOMATIC TAGS ::= BEGIN\nDd ::= CHOICE { i INTEGER, b BOOLEAN }\nv INTEGER ::= 99999999999999999999\nEND\n";
    let pd = dir.join("d.asn");
    let _ = std::fs::write(&pd, md);
    let mk = || rasn_compiler::prelude::RasnConfig { generate_from_impls: true, no_std_compliant_bindings: true, custom_imports: vec!["my::path".into()], type_annotations: vec!["#[derive(Debug, PartialOrd)]".into(), "#[non_exhaustive]".into()], ..Default::default() };
    let Some(want_cfg) = Compiler::<RasnBackend, _>::new_with_config(mk()).add_asn_literal(md).compile_to_string().ok().map(|r| r.generated) else {
        check("the configured module compiles", Err("it does not".into()), &want_rs);
        return;
    };
    let default_cfg = Compiler::<RasnBackend, _>::new().add_asn_literal(md).compile_to_string().ok().map(|r| r.generated).unwrap_or_default();
    check("the configuration shows in the bindings (vacuity guard)", if want_cfg == default_cfg { Err("it does not".into()) } else { Ok(want_cfg.clone()) }, &want_cfg);
    let file = dir.join("out").join("cfg.rs");
    let readf = || std::fs::read_to_string(&file).map_err(|e| format!("cfg.rs: {e}"));
    clean();
    let r = Compiler::<RasnBackend, _>::new_with_config(mk()).set_output_mode(OutputMode::SingleFile(file.clone())).add_asn_literal(md).compile();
    check("new_with_config, output file, literal", r.map_err(|e| e.to_string()).and_then(|_| readf()), &want_cfg);
    clean();
    let r = Compiler::<RasnBackend, _>::new_with_config(mk()).set_output_mode(OutputMode::SingleFile(file.clone())).add_asn_by_path(&pd).compile();
    check("new_with_config, output file, path", r.map_err(|e| e.to_string()).and_then(|_| readf()), &want_cfg);
    clean();
    let r = Compiler::<RasnBackend, _>::new_with_config(mk()).set_output_mode(OutputMode::SingleFile(file.clone())).add_asn_sources_by_path(vec![pd.clone()].into_iter()).compile();
    check("new_with_config, output file, path list", r.map_err(|e| e.to_string()).and_then(|_| readf()), &want_cfg);
    clean();
    #[allow(deprecated)]
    let r = Compiler::<RasnBackend, _>::new_with_config(mk()).set_output_path(file.clone()).add_asn_literal(md).compile();
    check("new_with_config, set_output_path (deprecated), literal", r.map_err(|e| e.to_string()).and_then(|_| readf()), &want_cfg);
    clean();
    #[allow(deprecated)]
    let r = Compiler::<RasnBackend, _>::new_with_config(mk()).add_asn_literal(md).set_output_path(file.clone()).compile();
    check("new_with_config, literal, set_output_path (deprecated)", r.map_err(|e| e.to_string()).and_then(|_| readf()), &want_cfg);
    clean();
    let r = Compiler::<RasnBackend, _>::new_with_config(mk()).add_asn_by_path(&pd).set_output_mode(OutputMode::SingleFile(file.clone())).compile();
    check("new_with_config, path, output file", r.map_err(|e| e.to_string()).and_then(|_| readf()), &want_cfg);
    clean();
    let r = Compiler::<TypescriptBackend, _>::new().set_output_mode(OutputMode::SingleFile(file.clone())).with_backend(RasnBackend::from_config(mk())).add_asn_literal(md).compile();
    check("output file, with_backend(configured rasn), literal", r.map_err(|e| e.to_string()).and_then(|_| readf()), &want_cfg);
    check("new_with_config, output file, literal, compile_to_string", s(Compiler::<RasnBackend, _>::new_with_config(mk()).set_output_mode(OutputMode::SingleFile(file.clone())).add_asn_literal(md).compile_to_string()), &want_cfg);
    check("new_with_config, path list, literal, compile_to_string", s(Compiler::<RasnBackend, _>::new_with_config(mk()).add_asn_sources_by_path(Vec::<std::path::PathBuf>::new().into_iter()).add_asn_literal(md).compile_to_string()), &want_cfg);
}

fn macro_wrapping(cfg: &RunCfg, rep: &mut Report) {
    let mut rng = Rng::new(cfg.seed ^ 0x3AC0);
    let mut snippets: Vec<String> = Vec::new();
    for k in 0..cfg.budget(12, 100) {
        let mut g = Gen { rng: &mut rng, info_objects: false };
        let m = g.module("X", &format!("{k}x0"), 1 + k % 6);
        snippets.push(m.defs.iter().map(|d| d.text.clone()).collect::<Vec<_>>().join("\n") + "\n");
    }
    // snippets that do not end in a line break: the last token must stay apart from the footer's END
    for tail in ["A ::= B", "A ::= INTEGER (0..255)", "a INTEGER ::= 5", "A ::= SEQUENCE { a BOOLEAN }", "A ::= INTEGER -- remark", "A ::= INTEGER -- remark --", "A ::= NULL /* c */", "A ::= ENUMERATED { x, y }  "] {
        snippets.push(format!("B ::= BOOLEAN\n{tail}"));
    }
    snippets.push("Broken ::= SEQUENCE { a INTEGER,, }\n".into());
    snippets.push("Full DEFINITIONS EXPLICIT TAGS ::= BEGIN A ::= SEQUENCE { a [0] INTEGER } END".into());
    // complete modules in every layout of the header: they are complete modules, whatever stands between `::=` and BEGIN
    for gap in ["\n", "", "  ", "\t", "\r\n", " -- c\n", " /* c */ ", "\n\n    "] {
        snippets.push(format!("Lay-Out DEFINITIONS EXPLICIT TAGS ::={gap}BEGIN\nA ::= SEQUENCE {{ a [0] INTEGER }}\nEND\n"));
        snippets.push(format!("Lay-Out {{ iso(1) 2 3 }} DEFINITIONS AUTOMATIC TAGS EXTENSIBILITY IMPLIED ::={gap}BEGIN EXPORTS ALL; A ::= CHOICE {{ a NULL }} END"));
    }
    let reqs: Vec<String> = snippets.iter().map(|s| format!("c20macro {}", hex(s))).collect();
    let ans = match run_driver(&reqs) {
        Ok(a) => a,
        Err(e) => {
            rep.harness_errors.push(e);
            return;
        }
    };
    for (s, a) in snippets.iter().zip(ans.iter()) {
        rep.evaluations += 1;
        rep.count("macro:snippet");
        let Some(src) = unhex(&format!("x{a}")) else {
            rep.harness_errors.push(format!("driver answer `{a}`"));
            continue;
        };
        let wrapped = compile_rasn(&[src.clone()]);
        let explicit_src = if s.contains("BEGIN") { s.clone() } else { format!("Explicit-Module DEFINITIONS AUTOMATIC TAGS ::= BEGIN\n{s}\nEND") };
        let explicit = compile_rasn(&[explicit_src]);
        let items = |o: &Outcome| -> Option<Vec<(String, String)>> {
            match o {
                Outcome::Ok { generated, .. } => module_items(generated).ok().and_then(|m| m.into_iter().next()).map(|m| m.1),
                _ => None,
            }
        };
        let (iw, ie) = (items(&wrapped), items(&explicit));
        if iw != ie {
            rep.unsat("", false, json!({"why": format!("asn1!: the wrapped snippet compiles to something else than the same snippet in an explicit AUTOMATIC TAGS module ({} vs {} items)", iw.map(|x| x.len() as i64).unwrap_or(-1), ie.map(|x| x.len() as i64).unwrap_or(-1)), "case": {"kind": "macro", "snippet": s}}));
        }
    }
}

pub mod c06;
